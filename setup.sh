#!/bin/bash
# one-time offline build of everything the checks need
set -e
export CARGO_NET_OFFLINE=true
cd /verif/hostkit && cargo build --offline
cd /verif/harness && cargo build --release --offline
