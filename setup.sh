#!/bin/bash
# one-time offline build of everything the checks need
set -e
export CARGO_NET_OFFLINE=true
cd /verif/hostkit && cargo build --offline
cd /verif/harness && cargo build --release --offline
# C20: command-line tool and the macro host (nightly, for -Zunpretty=expanded); both are
# rebuilt incrementally by the check itself, this only pays the cold cost once
(cd /repo && cargo build --offline --release -p rasn-compiler --features cli --bin rasn_compiler_cli --target-dir /verif/harness/target/cli) || true
(cd /verif/macrohost && cargo +nightly rustc --offline --lib -- -Zunpretty=expanded >/dev/null) || true
# C08 thorough tier: the libFuzzer target (rebuilt by the check itself as well)
(cd /verif/fuzzhost/fuzz && cargo +nightly fuzz build c08 >/dev/null 2>&1) || true
