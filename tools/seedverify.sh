#!/bin/bash
# usage: seedverify.sh <property id> [seed-name]
# 1. confirms in the agent's scratch worktree that the seeded change keeps the suite green and that the
#    demonstration fails with it and passes without it; 2. applies it to /repo, runs the property's check, reverts.
set -u
ID=$1; NAME=${2:-$ID}
WT=/tmp/wt/$NAME; OUT=/tmp/wt/out-$NAME; DEST=/verif/seeded/$NAME
export CARGO_NET_OFFLINE=true
mkdir -p $DEST
cp $OUT/patch.diff $DEST/patch.diff
cp $OUT/demo.rs $DEST/demo.rs 2>/dev/null
cp $OUT/meta.json $DEST/agent-meta.json 2>/dev/null
cd $WT || exit 2
git checkout -q -- . 2>/dev/null; git clean -fdq rasn-compiler-tests/tests 2>/dev/null
# clean tree: demo passes
cp $DEST/demo.rs rasn-compiler-tests/tests/demo.rs
cargo test --offline -p rasn-compiler-tests --test demo > $DEST/demo-clean.log 2>&1; DEMO_CLEAN=$?
git apply $DEST/patch.diff || { echo "patch does not apply"; exit 2; }
cargo test --offline -p rasn-compiler-tests --test demo > $DEST/demo-patched.log 2>&1; DEMO_PATCHED=$?
rm -f rasn-compiler-tests/tests/demo.rs
cargo test --workspace --no-fail-fast --offline > $DEST/suite-patched.log 2>&1; SUITE=$?
git checkout -q -- .
# now against /repo with the harness
cd /repo && git status --short | grep -q . && { echo "/repo not clean"; exit 2; }
git -C /repo apply $DEST/patch.diff
cd /verif && ./check $ID --tier quick > $DEST/check.log 2>&1; CHECK=$?
git -C /repo checkout -- .
echo "demo_clean=$DEMO_CLEAN demo_patched=$DEMO_PATCHED suite_patched=$SUITE check_exit=$CHECK"
grep -E "^VIOLATION" $DEST/check.log | head -3
