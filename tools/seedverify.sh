#!/bin/bash
# usage: seedverify.sh <property id> [seed-name]      (PHASE=a|b|ab, default ab)
# a. confirms in the agent's scratch worktree that the seeded change keeps the suite green and that the
#    demonstration fails with it and passes without it; b. applies it to /repo, runs the property's check, reverts.
set -u
ID=$1; NAME=${2:-$ID}; PHASE=${PHASE:-ab}
WT=/tmp/wt/$NAME; OUT=/tmp/wt/out-$NAME; DEST=/verif/seeded/$NAME
export CARGO_NET_OFFLINE=true
mkdir -p $DEST
if [[ $PHASE == *a* ]]; then
  cp $OUT/patch.diff $DEST/patch.diff
  cp $OUT/demo.rs $DEST/demo.rs 2>/dev/null
  cp $OUT/meta.json $DEST/agent-meta.json 2>/dev/null
  cd $WT || exit 2
  git checkout -q -- . 2>/dev/null; git clean -fdq rasn-compiler-tests/tests 2>/dev/null
  cp $DEST/demo.rs rasn-compiler-tests/tests/demo.rs
  cargo test --offline -p rasn-compiler-tests --test demo > $DEST/demo-clean.log 2>&1; DEMO_CLEAN=$?
  git apply $DEST/patch.diff || { echo "patch does not apply"; exit 2; }
  cargo test --offline -p rasn-compiler-tests --test demo > $DEST/demo-patched.log 2>&1; DEMO_PATCHED=$?
  rm -f rasn-compiler-tests/tests/demo.rs
  cargo test --workspace --no-fail-fast --offline > $DEST/suite-patched.log 2>&1; SUITE=$?
  git checkout -q -- .
  echo "demo_clean=$DEMO_CLEAN demo_patched=$DEMO_PATCHED suite_patched=$SUITE" > $DEST/phase-a.txt
fi
if [[ $PHASE == *b* ]]; then
  cd /repo && git status --short | grep -q . && { echo "/repo not clean"; exit 2; }
  git -C /repo apply $DEST/patch.diff
  cd /verif && VERIF_OUT=/tmp/wt/vout-$NAME ./check $ID --tier quick > $DEST/check.log 2>&1; CHECK=$?
  git -C /repo checkout -- .
  echo "$(cat $DEST/phase-a.txt) check_exit=$CHECK"
  grep -E "^VIOLATION" $DEST/check.log | head -3
fi
