#!/usr/bin/env python3
"""writes /verif/seeded/<name>/meta.json from the agent's meta and the verification logs"""
import json,sys,re,os
name=sys.argv[1]; prop=sys.argv[2]; caught_by=sys.argv[3:] 
d='/verif/seeded/%s'%name
am={}
try: am=json.load(open(d+'/agent-meta.json'))
except Exception: pass
def rc(log,pat):
    try: t=open(d+'/'+log).read()
    except Exception: return None
    return t
suite=rc('suite-patched.log','')
suite_ok = suite is not None and 'FAILED' not in suite and 'error[' not in suite and 'test result: ok' in suite
demo_clean=rc('demo-clean.log',''); demo_p=rc('demo-patched.log','')
chk=rc('check.log','') or ''
viol=[l for l in chk.splitlines() if l.startswith('VIOLATION')]
meta={"property":prop,"name":name,
 "summary":am.get('summary'),"needs":am.get('needs'),"files_changed":am.get('files_changed'),
 "origin":"written by an independent sub-agent that saw only the property text and its own scratch worktree",
 "confirmed":{"suite_passes_with_patch":suite_ok,"demo_passes_on_clean_tree": demo_clean is not None and 'test result: ok' in demo_clean,
              "demo_fails_with_patch": demo_p is not None and ('FAILED' in demo_p or 'failed' in demo_p)},
 "what_was_run":["tools/seedverify.sh %s %s  (scratch worktree: demo on clean tree, demo with patch, full suite with patch; then git -C /repo apply, ./check %s --tier quick, git -C /repo checkout -- .)"%(prop,name,prop)],
 "detected_by":caught_by,
 "check_exit": 1 if viol else 0,
 "first_violation_lines":[l for l in chk.splitlines() if l.startswith('VIOLATION') or l.startswith('  ')][:4]}
json.dump(meta,open(d+'/meta.json','w'),indent=1)
print(name, meta['confirmed'], 'violations:',len(viol))
