#!/usr/bin/env python3
"""Helpers to hand-write replay files that carry an ASN.1 model (serde JSON of harness/src/asn.rs)."""
import json

def comp(name, ty, opt="Req", tag=None):
    return {"name": name, "tag": tag, "ty": ty, "opt": opt}
def seq(root, ext=None): return {"Sequence": {"root": root, "ext": ext}}
def choice(root, ext=None): return {"Choice": {"root": root, "ext": ext}}
def seqof(elem): return {"SeqOf": {"size": None, "size_paren": False, "etag": None, "elem": elem}}
def integer(): return {"Integer": {"named": [], "cons": []}}
def ref(name): return {"Ref": {"module": None, "name": name, "cons": []}}
def typ(name, ty, tag=None): return {"Type": {"name": name, "tag": tag, "ty": ty}}
def val(name, ty, v): return {"Value": {"name": name, "ty": ty, "val": v}}
def module(name, items, tagging="Automatic", ext_implied=False, imports=()):
    return {"name": name, "tagging": tagging, "ext_implied": ext_implied, "imports": list(imports), "items": items}
def write(path, kind, finding, modules, text):
    ms = {"modules": modules}
    json.dump({"kind": kind, "finding": finding, "sources": [{"name": "input.asn", "text": text}], "model_json": json.dumps(ms)}, open(path, "w"), indent=2)
