#!/bin/bash
# usage: tryseed.sh <ID> <seed-name> [env assignments...]   applies the seeded patch to /repo, runs the quick check, reverts
ID=$1; NAME=$2; shift 2
cd /repo && git status --short | grep -q . && { echo "/repo not clean"; exit 2; }
git -C /repo apply /verif/seeded/$NAME/patch.diff || exit 2
cd /verif && env "$@" VERIF_OUT=/tmp/wt/vout-$NAME ./check $ID --tier quick > /verif/seeded/$NAME/check.log 2>&1; rc=$?
git -C /repo checkout -- .
echo "check_exit=$rc"
grep -E -A1 "^VIOLATION" /verif/seeded/$NAME/check.log | cut -c1-260 | head -8
