#!/bin/bash
# regression sweep, meant for `vp run --with-repo -- tools/sweep.sh [ids...]`: every seeded change
# against its property's quick check, on the snapshot of /repo ($VP_RUN_REPO), so that /repo
# itself is not touched. C20 is left out (its CLI and macro legs build from /repo).
R=${VP_RUN_REPO:?needs --with-repo}; HERE=$PWD
export CARGO_NET_OFFLINE=true
export CARGO_TARGET_DIR=$HERE/harness/target-sweep   # (harness/.cargo/config.toml names /verif/harness/target)
cd $HERE/harness && sed -i "s#/repo/#$R/#" Cargo.toml && cargo build --release --offline >/dev/null 2>&1 || { echo "harness build failed"; exit 2; }
IDS=${@:-C02 C03 C04 C05 C06 C09 C14 C15 C16 C17 C18 C11 C13 C10 C12 C08 C19 C07 C01}
for id in $IDS; do
  for d in /verif/seeded/$id*/; do
    name=$(basename $d)
    (cd $R && patch -p1 -s --no-backup-if-mismatch < $d/patch.diff >/dev/null 2>&1) || { echo "$name does-not-apply"; (cd $R && git checkout -q -- . 2>/dev/null); continue; }
    if cargo build --release --offline >/dev/null 2>&1; then
      VERIF_OUT=$HERE/out/$name $CARGO_TARGET_DIR/release/vcheck $id --tier quick > $HERE/out-$name.log 2>&1; rc=$?
      echo "$name exit=$rc $(grep -c '^VIOLATION' $HERE/out-$name.log) violation lines"
    else
      echo "$name build-failed"
    fi
    (cd $R && patch -R -p1 -s --no-backup-if-mismatch < $d/patch.diff >/dev/null 2>&1)
    rm -rf $HERE/out/$name
  done
done
