#!/bin/bash
# usage: runall.sh <tier> [seed]   runs every registered check once; prints one line per check
TIER=${1:-quick}; SEED=${2:-}
cd /verif
for id in $(python3 -c "import json;print(' '.join(c['property_id'] for c in json.load(open('MANIFEST.json'))['checks']))"); do
  start=$(date +%s)
  if [ -n "$SEED" ]; then out=$(./check $id --tier $TIER --seed $SEED 2>&1); else out=$(./check $id --tier $TIER 2>&1); fi
  rc=$?
  echo "$id exit=$rc $(( $(date +%s) - start ))s $(echo "$out" | grep -c '^VIOLATION') violation lines; $(echo "$out" | grep -c '^KNOWN-FINDING') known-finding lines"
  [ $rc -ne 0 ] && echo "$out" | grep -A1 '^VIOLATION\|INFRA' | head -8
done
