#!/usr/bin/env python3
"""Regenerates the generated blocks of DESIGN.md (findings tables, seeded-change table) from
known_findings.json and seeded/*/meta.json."""
import json, glob, os, re
k = json.load(open('/verif/known_findings.json'))['findings']
def esc(s): return str(s).replace('|', '\\|').replace('\n', ' ')
out = []
out.append("**Known findings** (genuine defects of the pinned tree that are recorded, not repaired; each check prints `KNOWN-FINDING` for them and exits 0):\n")
out.append("| id | property | what fails | repro |\n|---|---|---|---|")
for f in k:
    if f['status'] == 'known':
        out.append(f"| {f['id']} | {f['property']} | {esc(f['title'])} | `{f.get('repro','')}` |")
out.append("\n**Repaired defects** (`fix:` commits in /repo; the entry suppresses nothing, its repro is replayed on every run and must pass):\n")
out.append("| id | property | commit | what failed | regression replay |\n|---|---|---|---|---|")
for f in k:
    if f['status'] == 'fixed':
        out.append(f"| {f['id']} | {f['property']} | `{f.get('commit','')}` | {esc(f['title'])} | `{f.get('repro','')}` |")
findings = "\n".join(out)
rows = []
for d in sorted(glob.glob('/verif/seeded/*/meta.json')):
    m = json.load(open(d))
    name = os.path.basename(os.path.dirname(d))
    a = {}
    try: a = json.load(open(os.path.dirname(d) + '/agent-meta.json'))
    except Exception: pass
    needs = a.get('needs', m.get('needs', ''))
    summ = a.get('summary', m.get('summary', ''))
    caught = m.get('caught_by', m.get('detected_by', ''))
    if isinstance(caught, list): caught = '; '.join(caught)
    rows.append(f"| {name} | {m.get('property', name)} | {esc(summ)[:400]} | {esc(needs)[:300]} | {esc(caught)} |")
seeded = "| seed | property | change | needs, to manifest | caught by |\n|---|---|---|---|---|\n" + "\n".join(rows)
s = open('/verif/DESIGN.md').read()
def put(s, name, text):
    b, e = f"<!-- BEGIN:{name} -->", f"<!-- END:{name} -->"
    assert b in s and e in s, name
    return s[:s.index(b) + len(b)] + "\n" + text + "\n" + s[s.index(e):]
s = put(s, 'findings', findings)
s = put(s, 'seeded', seeded)
open('/verif/DESIGN.md', 'w').write(s)
print("ok", len(k), "findings", len(rows), "seeds")
