//! R-proj: syn projection of generated Rust bindings to plain facts.
use proc_macro2::{TokenStream, TokenTree};
use quote::ToTokens;
use serde::Serialize;
use std::collections::BTreeSet;

pub fn norm(ts: impl ToTokens) -> String {
    ts.to_token_stream().to_string().replace(' ', "")
}

#[derive(Clone, Debug, Default, PartialEq, Eq, Serialize)]
pub struct TagAttr {
    pub explicit: bool,
    pub class: String,
    pub num: u64,
}

#[derive(Clone, Debug, Default, PartialEq, Eq, Serialize)]
pub struct Attrs {
    pub derives: Vec<String>,
    pub non_exhaustive: bool,
    pub flags: BTreeSet<String>,
    pub tag: Option<TagAttr>,
    pub value: Option<(String, bool)>,
    pub size: Option<(String, bool)>,
    pub from: Option<Vec<String>>,
    pub identifier: Option<String>,
    pub default: Option<String>,
    pub docs: Vec<String>,
    /// everything else, token-normalised
    pub others: Vec<String>,
    /// rasn(...) arguments that the projection did not understand
    pub unknown_rasn: Vec<String>,
    /// how many #[derive] attributes there were
    pub derive_attrs: usize,
}

#[derive(Clone, Debug, PartialEq, Eq, Serialize)]
pub struct RField {
    pub name: String,
    pub ty: String,
    pub attrs: Attrs,
}

#[derive(Clone, Debug, PartialEq, Eq, Serialize)]
pub struct RStruct {
    pub name: String,
    pub attrs: Attrs,
    pub named: bool,
    pub fields: Vec<RField>,
    /// token-normalised text of the whole item without #[doc]
    pub text: String,
}

#[derive(Clone, Debug, PartialEq, Eq, Serialize)]
pub struct RVariant {
    pub name: String,
    pub payload: Vec<String>,
    pub disc: Option<String>,
    pub attrs: Attrs,
}

#[derive(Clone, Debug, PartialEq, Eq, Serialize)]
pub struct REnum {
    pub name: String,
    pub attrs: Attrs,
    pub variants: Vec<RVariant>,
    pub text: String,
}

#[derive(Clone, Debug, PartialEq, Eq, Serialize)]
pub struct RConst {
    pub name: String,
    /// declared type (for LazyLock<T> statics: T), normalised
    pub ty: String,
    /// initialiser (for LazyLock::new(|| e): e), tokens with single spaces
    pub init: String,
    pub kind: String, // const | lazylock | lazy_static
    pub text: String,
}

#[derive(Clone, Debug, PartialEq, Eq, Serialize)]
pub struct RFn {
    pub name: String,
    pub ret: String,
    pub body: String,
    pub text: String,
}

#[derive(Clone, Debug, PartialEq, Eq, Serialize)]
pub struct RImpl {
    pub target: String,
    pub trait_: Option<String>,
    pub fns: Vec<String>,
    pub text: String,
}

#[derive(Clone, Debug, PartialEq, Eq, Serialize)]
pub enum RItem {
    Struct(RStruct),
    Enum(REnum),
    Const(RConst),
    Fn(RFn),
    Impl(RImpl),
    Use(String),
    Other(String),
}

impl RItem {
    pub fn name(&self) -> Option<&str> {
        match self {
            RItem::Struct(s) => Some(&s.name),
            RItem::Enum(e) => Some(&e.name),
            RItem::Const(c) => Some(&c.name),
            RItem::Fn(f) => Some(&f.name),
            _ => None,
        }
    }
    pub fn text(&self) -> &str {
        match self {
            RItem::Struct(s) => &s.text,
            RItem::Enum(e) => &e.text,
            RItem::Const(c) => &c.text,
            RItem::Fn(f) => &f.text,
            RItem::Impl(i) => &i.text,
            RItem::Use(u) => u,
            RItem::Other(o) => o,
        }
    }
}

#[derive(Clone, Debug, PartialEq, Eq, Serialize)]
pub struct RModule {
    pub name: String,
    pub items: Vec<RItem>,
}

impl RModule {
    pub fn uses(&self) -> Vec<&str> {
        self.items
            .iter()
            .filter_map(|i| match i {
                RItem::Use(u) => Some(u.as_str()),
                _ => None,
            })
            .collect()
    }
    pub fn find_struct(&self, name: &str) -> Option<&RStruct> {
        self.items.iter().find_map(|i| match i {
            RItem::Struct(s) if s.name == name => Some(s),
            _ => None,
        })
    }
    pub fn find_enum(&self, name: &str) -> Option<&REnum> {
        self.items.iter().find_map(|i| match i {
            RItem::Enum(s) if s.name == name => Some(s),
            _ => None,
        })
    }
    pub fn find_const(&self, name: &str) -> Option<&RConst> {
        self.items.iter().find_map(|i| match i {
            RItem::Const(s) if s.name == name => Some(s),
            _ => None,
        })
    }
    pub fn find_fn(&self, name: &str) -> Option<&RFn> {
        self.items.iter().find_map(|i| match i {
            RItem::Fn(s) if s.name == name => Some(s),
            _ => None,
        })
    }
    pub fn count_named(&self, name: &str) -> usize {
        self.items
            .iter()
            .filter(|i| {
                matches!(i, RItem::Struct(_) | RItem::Enum(_) | RItem::Const(_))
                    && i.name() == Some(name)
            })
            .count()
    }
}

fn lit_str(ts: &TokenStream) -> Option<String> {
    syn::parse2::<syn::LitStr>(ts.clone()).ok().map(|l| l.value())
}

fn split_commas(ts: TokenStream) -> Vec<TokenStream> {
    let mut out = vec![];
    let mut cur = TokenStream::new();
    for tt in ts {
        match &tt {
            TokenTree::Punct(p) if p.as_char() == ',' => {
                out.push(std::mem::take(&mut cur));
            }
            _ => cur.extend([tt]),
        }
    }
    if !cur.is_empty() {
        out.push(cur);
    }
    out
}

fn parse_tag(args: TokenStream) -> Option<TagAttr> {
    let parts: Vec<TokenTree> = args.into_iter().collect();
    match parts.as_slice() {
        [TokenTree::Ident(id), TokenTree::Group(g)] if id == "explicit" => {
            let mut t = parse_tag(g.stream())?;
            t.explicit = true;
            Some(t)
        }
        [TokenTree::Ident(class), TokenTree::Punct(p), TokenTree::Literal(n)]
            if p.as_char() == ',' =>
        {
            Some(TagAttr {
                explicit: false,
                class: class.to_string(),
                num: n.to_string().parse().ok()?,
            })
        }
        _ => None,
    }
}

fn parse_rasn_args(ts: TokenStream, a: &mut Attrs) {
    for arg in split_commas(ts) {
        let tts: Vec<TokenTree> = arg.clone().into_iter().collect();
        match tts.as_slice() {
            [TokenTree::Ident(id)] => {
                a.flags.insert(id.to_string());
            }
            [TokenTree::Ident(id), TokenTree::Group(g)] => {
                let key = id.to_string();
                match key.as_str() {
                    "tag" => match parse_tag(g.stream()) {
                        Some(t) => a.tag = Some(t),
                        None => a.unknown_rasn.push(norm(&arg)),
                    },
                    "value" | "size" => {
                        let parts = split_commas(g.stream());
                        let range = parts.first().and_then(lit_str);
                        let ext = parts.len() == 2 && norm(&parts[1]) == "extensible";
                        match range {
                            Some(r) if parts.len() == 1 || ext => {
                                if key == "value" {
                                    a.value = Some((r, ext))
                                } else {
                                    a.size = Some((r, ext))
                                }
                            }
                            _ => a.unknown_rasn.push(norm(&arg)),
                        }
                    }
                    "from" => {
                        let parts = split_commas(g.stream());
                        let strs: Option<Vec<String>> = parts.iter().map(lit_str).collect();
                        match strs {
                            Some(s) => a.from = Some(s),
                            None => a.unknown_rasn.push(norm(&arg)),
                        }
                    }
                    _ => a.unknown_rasn.push(norm(&arg)),
                }
            }
            [TokenTree::Ident(id), TokenTree::Punct(p), rest @ ..] if p.as_char() == '=' => {
                let v: TokenStream = rest.iter().cloned().collect();
                match (id.to_string().as_str(), lit_str(&v)) {
                    ("identifier", Some(s)) => a.identifier = Some(s),
                    ("default", Some(s)) => a.default = Some(s),
                    _ => a.unknown_rasn.push(norm(&arg)),
                }
            }
            _ => a.unknown_rasn.push(norm(&arg)),
        }
    }
}

pub fn project_attrs(attrs: &[syn::Attribute]) -> Attrs {
    let mut a = Attrs::default();
    for at in attrs {
        let path = norm(at.path());
        match (&at.meta, path.as_str()) {
            (syn::Meta::List(l), "derive") => {
                a.derive_attrs += 1;
                for d in split_commas(l.tokens.clone()) {
                    a.derives.push(norm(d));
                }
            }
            (syn::Meta::List(l), "rasn") => parse_rasn_args(l.tokens.clone(), &mut a),
            (syn::Meta::Path(_), "non_exhaustive") => a.non_exhaustive = true,
            (syn::Meta::NameValue(nv), "doc") => {
                a.docs.push(match &nv.value {
                    syn::Expr::Lit(syn::ExprLit {
                        lit: syn::Lit::Str(s),
                        ..
                    }) => s.value(),
                    o => norm(o),
                });
            }
            _ => a.others.push(norm(at)),
        }
    }
    a
}

fn strip_docs(attrs: &mut Vec<syn::Attribute>) {
    attrs.retain(|a| !a.path().is_ident("doc"));
}

/// token text of an item after deleting all #[doc] attributes (also on fields/variants)
pub fn item_text_nodoc(item: &syn::Item) -> String {
    let mut it = item.clone();
    match &mut it {
        syn::Item::Struct(s) => {
            strip_docs(&mut s.attrs);
            for f in s.fields.iter_mut() {
                strip_docs(&mut f.attrs);
            }
        }
        syn::Item::Enum(e) => {
            strip_docs(&mut e.attrs);
            for v in e.variants.iter_mut() {
                strip_docs(&mut v.attrs);
                for f in v.fields.iter_mut() {
                    strip_docs(&mut f.attrs);
                }
            }
        }
        syn::Item::Const(c) => strip_docs(&mut c.attrs),
        syn::Item::Static(c) => strip_docs(&mut c.attrs),
        syn::Item::Fn(c) => strip_docs(&mut c.attrs),
        syn::Item::Impl(c) => strip_docs(&mut c.attrs),
        syn::Item::Macro(m) => {
            strip_docs(&mut m.attrs);
            // docs inside lazy_static! bodies
            let toks: Vec<TokenTree> = m.mac.tokens.clone().into_iter().collect();
            let mut out = TokenStream::new();
            let mut i = 0;
            while i < toks.len() {
                if let (TokenTree::Punct(p), Some(TokenTree::Group(g))) = (&toks[i], toks.get(i + 1))
                {
                    if p.as_char() == '#' && g.stream().to_string().starts_with("doc") {
                        i += 2;
                        continue;
                    }
                }
                out.extend([toks[i].clone()]);
                i += 1;
            }
            m.mac.tokens = out;
        }
        _ => {}
    }
    it.to_token_stream().to_string()
}

struct LazyStaticItem {
    name: syn::Ident,
    ty: syn::Type,
    init: syn::Expr,
}

impl syn::parse::Parse for LazyStaticItem {
    fn parse(input: syn::parse::ParseStream) -> syn::Result<Self> {
        let _attrs = input.call(syn::Attribute::parse_outer)?;
        let _vis: syn::Visibility = input.parse()?;
        input.parse::<syn::Token![static]>()?;
        input.parse::<syn::Token![ref]>()?;
        let name = input.parse()?;
        input.parse::<syn::Token![:]>()?;
        let ty = input.parse()?;
        input.parse::<syn::Token![=]>()?;
        let init = input.parse()?;
        input.parse::<syn::Token![;]>()?;
        Ok(LazyStaticItem { name, ty, init })
    }
}

fn project_item(item: &syn::Item) -> RItem {
    let text = item_text_nodoc(item);
    match item {
        syn::Item::Struct(s) => {
            let named = matches!(s.fields, syn::Fields::Named(_));
            RItem::Struct(RStruct {
                name: s.ident.to_string(),
                attrs: project_attrs(&s.attrs),
                named,
                fields: s
                    .fields
                    .iter()
                    .enumerate()
                    .map(|(i, f)| RField {
                        name: f
                            .ident
                            .as_ref()
                            .map(|i| i.to_string())
                            .unwrap_or_else(|| i.to_string()),
                        ty: norm(&f.ty),
                        attrs: project_attrs(&f.attrs),
                    })
                    .collect(),
                text,
            })
        }
        syn::Item::Enum(e) => RItem::Enum(REnum {
            name: e.ident.to_string(),
            attrs: project_attrs(&e.attrs),
            variants: e
                .variants
                .iter()
                .map(|v| RVariant {
                    name: v.ident.to_string(),
                    payload: v.fields.iter().map(|f| norm(&f.ty)).collect(),
                    disc: v.discriminant.as_ref().map(|(_, e)| norm(e)),
                    attrs: project_attrs(&v.attrs),
                })
                .collect(),
            text,
        }),
        syn::Item::Const(c) => RItem::Const(RConst {
            name: c.ident.to_string(),
            ty: norm(&c.ty),
            init: c.expr.to_token_stream().to_string(),
            kind: "const".into(),
            text,
        }),
        syn::Item::Static(c) => {
            // LazyLock<T> = LazyLock::new(|| e)
            let ty = norm(&c.ty);
            let inner_ty = ty
                .strip_prefix("LazyLock<")
                .and_then(|s| s.strip_suffix('>'))
                .map(|s| s.to_string());
            let init = match &*c.expr {
                syn::Expr::Call(call) if norm(&call.func) == "LazyLock::new" => {
                    match call.args.first() {
                        Some(syn::Expr::Closure(cl)) => Some(cl.body.to_token_stream().to_string()),
                        _ => None,
                    }
                }
                _ => None,
            };
            match (inner_ty, init) {
                (Some(t), Some(i)) => RItem::Const(RConst {
                    name: c.ident.to_string(),
                    ty: t,
                    init: i,
                    kind: "lazylock".into(),
                    text,
                }),
                _ => RItem::Const(RConst {
                    name: c.ident.to_string(),
                    ty,
                    init: c.expr.to_token_stream().to_string(),
                    kind: "static".into(),
                    text,
                }),
            }
        }
        syn::Item::Fn(f) => RItem::Fn(RFn {
            name: f.sig.ident.to_string(),
            ret: match &f.sig.output {
                syn::ReturnType::Default => "()".into(),
                syn::ReturnType::Type(_, t) => norm(t),
            },
            body: {
                let stmts = &f.block.stmts;
                quote::quote!(#(#stmts)*).to_string()
            },
            text,
        }),
        syn::Item::Impl(i) => RItem::Impl(RImpl {
            target: norm(&i.self_ty),
            trait_: i.trait_.as_ref().map(|(_, p, _)| norm(p)),
            fns: i
                .items
                .iter()
                .filter_map(|it| match it {
                    syn::ImplItem::Fn(f) => Some(f.sig.ident.to_string()),
                    _ => None,
                })
                .collect(),
            text,
        }),
        syn::Item::Use(u) => RItem::Use(norm(&u.tree)),
        syn::Item::Macro(m) if m.mac.path.is_ident("lazy_static") => {
            match syn::parse2::<LazyStaticItem>(m.mac.tokens.clone()) {
                Ok(l) => RItem::Const(RConst {
                    name: l.name.to_string(),
                    ty: norm(&l.ty),
                    init: l.init.to_token_stream().to_string(),
                    kind: "lazy_static".into(),
                    text,
                }),
                Err(_) => RItem::Other(text),
            }
        }
        _ => RItem::Other(text),
    }
}

/// Parse generated bindings into modules. Err = the text is not a sequence of Rust items.
pub fn project(generated: &str) -> Result<Vec<RModule>, String> {
    let file = syn::parse_file(generated).map_err(|e| format!("syn: {e}"))?;
    let mut mods = vec![];
    for item in &file.items {
        match item {
            syn::Item::Mod(m) => {
                let content = m
                    .content
                    .as_ref()
                    .ok_or_else(|| "module without body".to_string())?;
                mods.push(RModule {
                    name: m.ident.to_string(),
                    items: content.1.iter().map(project_item).collect(),
                });
            }
            other => {
                return Err(format!(
                    "top-level item that is not a module: {}",
                    other.to_token_stream().to_string().chars().take(80).collect::<String>()
                ))
            }
        }
    }
    Ok(mods)
}

/// All identifiers (syn::Ident tokens) appearing in definitions positions of the generated code.
pub fn all_idents(generated: &str) -> Result<Vec<String>, String> {
    let ts: TokenStream = generated.parse().map_err(|e| format!("lex: {e}"))?;
    let mut out = vec![];
    fn walk(ts: TokenStream, out: &mut Vec<String>) {
        for tt in ts {
            match tt {
                TokenTree::Ident(i) => out.push(i.to_string()),
                TokenTree::Group(g) => walk(g.stream(), out),
                _ => {}
            }
        }
    }
    walk(ts, &mut out);
    Ok(out)
}
