//! C16 — generated identifiers are legal and keep the ASN.1 name recoverable.
use crate::comp::{self, Cfg, Outcome};
use crate::ev::{Ctx, Driver, Failure, Tier};
use crate::proj::{self, Attrs, RItem, RModule};
use crate::src::Src;
use rayon::prelude::*;
use serde_json::{json, Value};

pub const KEYWORDS: [&str; 54] = [
    // strict
    "as", "break", "const", "continue", "crate", "else", "enum", "extern", "false", "fn", "for", "if", "impl", "in", "let", "loop",
    "match", "mod", "move", "mut", "pub", "ref", "return", "self", "Self", "static", "struct", "super", "trait", "true", "type",
    "unsafe", "use", "where", "while", "async", "await", "dyn",
    // reserved
    "abstract", "become", "box", "do", "final", "macro", "override", "priv", "typeof", "unsized", "virtual", "yield", "try", "gen",
    // weak
    "union", "macro_rules",
];

#[derive(Clone, Debug, PartialEq, Eq, Hash, serde::Serialize, serde::Deserialize)]
pub struct Case {
    /// lower-case-first ASN.1 identifier (component, alternative, enumeral, value, named number)
    pub lower: String,
    /// typereference / modulereference
    pub upper: String,
}

fn module_text(c: &Case) -> String {
    format!(
        "{u} DEFINITIONS AUTOMATIC TAGS ::= BEGIN\n\
         {u} ::= SEQUENCE {{ {l} INTEGER, zz-second BOOLEAN }}\n\
         Zz-Ch ::= CHOICE {{ {l} INTEGER, zz-other NULL }}\n\
         Zz-En ::= ENUMERATED {{ {l}, zz-other2 }}\n\
         Zz-Nn ::= INTEGER {{ {l}(1) }}\n\
         Zt-{u} ::= [APPLICATION 3] INTEGER (0..7)\n\
         Zs-{u} ::= [5] IA5String\n\
         {kinds}\
         {members}\
         {l} INTEGER ::= 5\n\
         zz-root OBJECT IDENTIFIER ::= {{ 1 2 3 }}\n\
         END\n",
        u = c.upper,
        l = c.lower,
        kinds = KINDS.iter().enumerate().map(|(i, k)| format!("Zk{i}-{} ::= {k}\n", c.upper)).collect::<String>(),
        members = MEMBER_KINDS
            .iter()
            .enumerate()
            .map(|(i, k)| format!("Zm{i}-{u} ::= SEQUENCE {{ {l} {k}, zz-tail{i} NULL }}\nZc{i}-{u} ::= CHOICE {{ {l} {k}, zz-tail{i} NULL }}\n", u = c.upper, l = c.lower))
            .collect::<String>()
    )
}

/// one component and one alternative per kind of member type, with and without a constraint:
/// the member annotations are assembled per kind as well
const MEMBER_KINDS: [&str; 16] = [
    "BOOLEAN",
    "BOOLEAN (TRUE)",
    "NULL",
    "INTEGER (0..7)",
    "OBJECT IDENTIFIER",
    "OBJECT IDENTIFIER (zz-root)",
    "GeneralizedTime",
    "GeneralizedTime (\"20200101000000Z\")",
    "UTCTime",
    "UTF8String (SIZE (1..4))",
    "IA5String (FROM (\"ab\"))",
    "OCTET STRING",
    "BIT STRING (SIZE (8))",
    "Zz-En",
    "SEQUENCE OF INTEGER",
    "SET { zz-in NULL }",
];

/// one type assignment per kind of type: each kind has a generator function of its own, and
/// each of them writes the identifier annotation itself
const KINDS: [&str; 17] = [
    "BOOLEAN",
    "NULL",
    "BIT STRING",
    "BIT STRING { zz-bit(0) }",
    "OCTET STRING",
    "UTF8String",
    "OBJECT IDENTIFIER",
    "ANY",
    "EXTERNAL",
    "EMBEDDED PDV",
    "GeneralizedTime",
    "UTCTime",
    "SEQUENCE OF INTEGER",
    "SET OF BOOLEAN",
    "SET { zz-member INTEGER }",
    "Zz-En",
    "TYPE-IDENTIFIER.&Type",
];

fn legal(ident: &str) -> bool {
    syn::parse_str::<syn::Ident>(ident).is_ok()
}

fn squash(s: &str) -> String {
    s.chars().filter(|c| *c != '_' && *c != '-').collect::<String>().to_lowercase()
}

/// `rust` is derived from `asn1` by the documented rule (hyphens removed / case changed /
/// one keyword escape prefix)
fn derived(rust: &str, asn1: &str) -> (bool, String) {
    if squash(rust) == squash(asn1) {
        return (true, rust.to_string());
    }
    for p in ["r_", "R_"] {
        if let Some(rest) = rust.strip_prefix(p) {
            if squash(rest) == squash(asn1) {
                return (true, rest.to_string());
            }
        }
    }
    (false, rust.to_string())
}

#[derive(Clone, Copy, Debug, PartialEq)]
enum Role {
    Module,
    Type,
    Component,
    Alternative,
    Enumeral,
    Value,
}

fn style_ok(role: Role, body: &str) -> bool {
    match role {
        Role::Type => body.starts_with(|c: char| c.is_uppercase()) && !body.contains('_'),
        Role::Component | Role::Module => !body.chars().any(|c| c.is_uppercase()),
        Role::Value => !body.chars().any(|c| c.is_lowercase()),
        Role::Alternative | Role::Enumeral => true,
    }
}

fn check_one(role: Role, rust: &str, asn1: &str, attrs: Option<&Attrs>) -> Option<(&'static str, String)> {
    if !legal(rust) {
        return Some(("legal", format!("{role:?} `{asn1}` rendered as `{rust}`, which is not a legal Rust identifier")));
    }
    let (ok, body) = derived(rust, asn1);
    if !ok {
        return Some(("derived", format!("{role:?} `{asn1}` rendered as `{rust}`, which is not derived from it by the case rules")));
    }
    if !style_ok(role, &body) {
        return Some(("style", format!("{role:?} `{asn1}` rendered as `{rust}`: wrong case style for the role")));
    }
    // the case rule itself, as the backend's own unit test and snapshots fix it: a hyphen is a
    // word boundary, and so is an upper-case letter after a lower-case letter or a digit
    // (`HelloWORLD` -> hello_world, `a2X` -> a2_x); title case capitalises the first letter of
    // every hyphen-separated word and leaves the rest alone
    let want = match role {
        Role::Type => Some(crate::structure::title_case(asn1)),
        Role::Component | Role::Module => Some(crate::structure::snake_case(asn1)),
        Role::Value => Some(crate::structure::const_case(asn1)),
        Role::Alternative | Role::Enumeral => Some(asn1.replace('-', "_")),
    };
    if let Some(w) = want {
        if body != w {
            return Some(("case-rule", format!("{role:?} `{asn1}` rendered as `{rust}`; the case rule gives `{w}` (word boundaries differ)")));
        }
    }
    if let Some(a) = attrs {
        if rust != asn1 && a.identifier.as_deref() != Some(asn1) {
            return Some((
                "annotation",
                format!("{role:?} `{asn1}` rendered as `{rust}` without identifier = \"{asn1}\" (found {:?})", a.identifier),
            ));
        }
    }
    None
}

fn judge(c: &Case, mods: &[RModule]) -> Option<(&'static str, String)> {
    if mods.len() != 1 {
        return Some(("structure", format!("{} modules generated", mods.len())));
    }
    let m = &mods[0];
    if let Some(f) = check_one(Role::Module, &m.name, &c.upper, None) {
        return Some(f);
    }
    // every named thing of the module must be a legal identifier
    for it in &m.items {
        if let Some(n) = it.name() {
            if !legal(n) {
                return Some(("legal", format!("item `{n}` is not a legal Rust identifier")));
            }
        }
    }
    let st = m.items.iter().find_map(|i| match i {
        RItem::Struct(s) if s.named && s.fields.len() == 2 && s.fields[1].attrs.identifier.as_deref() == Some("zz-second") => Some(s),
        _ => None,
    });
    let Some(st) = st else { return Some(("structure", "the SEQUENCE type was not generated".into())) };
    if let Some(f) = check_one(Role::Type, &st.name, &c.upper, Some(&st.attrs)) {
        return Some(f);
    }
    if let Some(f) = check_one(Role::Component, &st.fields[0].name, &c.lower, Some(&st.fields[0].attrs)) {
        return Some(f);
    }
    let ch = m.find_enum("ZzCh");
    let Some(ch) = ch else { return Some(("structure", "the CHOICE type was not generated".into())) };
    if ch.variants.len() != 2 {
        return Some(("structure", "CHOICE variants".into()));
    }
    if let Some(f) = check_one(Role::Alternative, &ch.variants[0].name, &c.lower, Some(&ch.variants[0].attrs)) {
        return Some(f);
    }
    let en = m.find_enum("ZzEn");
    let Some(en) = en else { return Some(("structure", "the ENUMERATED type was not generated".into())) };
    if en.variants.len() != 2 {
        return Some(("structure", "ENUMERATED variants".into()));
    }
    if let Some(f) = check_one(Role::Enumeral, &en.variants[0].name, &c.lower, Some(&en.variants[0].attrs)) {
        return Some(f);
    }
    // type assignments with a tag of their own (delegate newtypes): the annotation must not get lost next to the tag
    for prefix in ["Zt-", "Zs-"] {
        let asn1 = format!("{prefix}{}", c.upper);
        let rust = crate::structure::title_case(&asn1);
        let Some(t) = m.find_struct(&rust) else { return Some(("structure", format!("the tagged type {asn1} was not generated as {rust}"))) };
        if t.attrs.tag.is_none() {
            return Some(("structure", format!("{rust} carries no tag")));
        }
        if let Some(f) = check_one(Role::Type, &t.name, &asn1, Some(&t.attrs)) {
            return Some(f);
        }
    }
    // one type assignment per kind of type
    for (i, k) in KINDS.iter().enumerate() {
        let asn1 = format!("Zk{i}-{}", c.upper);
        let rust = crate::structure::title_case(&asn1);
        let attrs = match (m.find_struct(&rust), m.find_enum(&rust)) {
            (Some(t), _) => &t.attrs,
            (None, Some(e)) => &e.attrs,
            _ => return Some(("structure", format!("the type {asn1} ::= {k} was not generated as {rust}"))),
        };
        if let Some(f) = check_one(Role::Type, &rust, &asn1, Some(attrs)) {
            return Some(f);
        }
    }
    // one component / alternative per kind of member type
    for (i, k) in MEMBER_KINDS.iter().enumerate() {
        let rust = crate::structure::title_case(&format!("Zm{i}-{}", c.upper));
        let Some(t) = m.find_struct(&rust) else { return Some(("structure", format!("the type {rust} with a member of type {k} was not generated"))) };
        let Some(f0) = t.fields.first() else { return Some(("structure", format!("{rust} has no fields"))) };
        if let Some(f) = check_one(Role::Component, &f0.name, &c.lower, Some(&f0.attrs)) {
            return Some((f.0, format!("{} (component of type {k})", f.1)));
        }
        let rust = crate::structure::title_case(&format!("Zc{i}-{}", c.upper));
        let Some(e) = m.find_enum(&rust) else { return Some(("structure", format!("the type {rust} with an alternative of type {k} was not generated"))) };
        let Some(v0) = e.variants.first() else { return Some(("structure", format!("{rust} has no variants"))) };
        if let Some(f) = check_one(Role::Alternative, &v0.name, &c.lower, Some(&v0.attrs)) {
            return Some((f.0, format!("{} (alternative of type {k})", f.1)));
        }
    }
    let consts: Vec<_> = m.items.iter().filter_map(|i| match i { RItem::Const(k) if k.name != "ZZ_ROOT" => Some(k), _ => None }).collect();
    if consts.len() != 1 {
        return Some(("structure", format!("{} constants generated for one value assignment", consts.len())));
    }
    if let Some(f) = check_one(Role::Value, &consts[0].name, &c.lower, None) {
        return Some(f);
    }
    None
}

/// second module shape, compiled with `generate_from_impls`: a CHOICE named by the case's
/// typereference with a hoisted (inline SEQUENCE) alternative named by its identifier, and
/// the same CHOICE as the anonymous element of a SEQUENCE OF. The `impl From<..> for ..` items
/// name hoisted types a second time; both spellings must be the declared ones.
fn from_impls_text(c: &Case) -> String {
    format!(
        "{u} DEFINITIONS AUTOMATIC TAGS ::= BEGIN\n\
         {u} ::= CHOICE {{ {l} SEQUENCE {{ zz-x INTEGER }}, zz-other BOOLEAN }}\n\
         Zz-{u} ::= SEQUENCE OF CHOICE {{ {l} SEQUENCE {{ zz-y INTEGER }}, zz-o2 BOOLEAN }}\n\
         END\n",
        u = c.upper,
        l = c.lower
    )
}

fn eval_from_impls(c: &Case) -> Result<Option<(&'static str, String)>, String> {
    let text = from_impls_text(c);
    let cfg = Cfg { generate_from_impls: true, ..Cfg::default() };
    match comp::compile_rasn1(&text, &cfg) {
        Outcome::Ok(o) => {
            if !o.warnings.is_empty() {
                return Err(format!("warnings: {}", o.warnings[0]));
            }
            if std::env::var("C16_DUMP").is_ok() {
                println!("{}", o.generated);
            }
            let mods = match proj::project(&o.generated) {
                Ok(m) => m,
                Err(e) => return Ok(Some(("legal", format!("generated text (generate_from_impls) does not parse as Rust: {e}")))),
            };
            let Some(m) = mods.first() else { return Ok(Some(("structure", "no module generated".into()))) };
            let declared: std::collections::BTreeSet<&str> = m.items.iter().filter_map(|i| match i { RItem::Struct(_) | RItem::Enum(_) => i.name(), _ => None }).collect();
            let mut n_from = 0;
            for it in &m.items {
                let RItem::Impl(im) = it else { continue };
                let Some(tr) = &im.trait_ else { continue };
                let Some(arg) = tr.strip_prefix("From <").or_else(|| tr.strip_prefix("From<")) else { continue };
                let arg = arg.trim().trim_end_matches('>').trim();
                n_from += 1;
                if !legal(im.target.trim()) || !declared.contains(im.target.trim()) {
                    return Ok(Some(("from-impl", format!("`impl {tr} for {}`: the implementing type is not a declared item", im.target))));
                }
                // the argument is a hoisted type (an identifier) or a builtin
                let is_ident = arg.chars().all(|ch| ch.is_alphanumeric() || ch == '_');
                if is_ident && arg.starts_with(|ch: char| ch.is_uppercase()) && !declared.contains(arg) && !["Integer", "Null", "Any"].contains(&arg) {
                    return Ok(Some(("from-impl", format!("`impl {tr} for {}`: `{arg}` is not a declared item (the hoisted type is declared under another name)", im.target))));
                }
            }
            if n_from == 0 {
                return Ok(Some(("structure", "generate_from_impls produced no From impl".into())));
            }
            Ok(None)
        }
        Outcome::Err(e) => Err(format!("Err: {e}")),
        Outcome::Panic(p) if p.contains("Ident") => Ok(Some(("legal", format!("the generator built an illegal identifier (generate_from_impls): {p}")))),
        Outcome::Panic(p) => Err(format!("panic: {p}")),
    }
}

fn eval(c: &Case) -> Result<Option<(&'static str, String)>, String> {
    match eval_default(c) {
        Ok(None) => {}
        other => return other,
    }
    // the second shape on every 4th name (by hash) and on every name with a hyphen or keyword
    let h = crate::ev::hash_str(&c.lower);
    if h % 4 == 0 || c.lower.contains('-') || KEYWORDS.contains(&c.lower.as_str()) {
        match eval_from_impls(c) {
            Err(_) => Ok(None),
            other => other,
        }
    } else {
        Ok(None)
    }
}

fn eval_default(c: &Case) -> Result<Option<(&'static str, String)>, String> {
    let text = module_text(c);
    match comp::compile_rasn1(&text, &Cfg::default()) {
        Outcome::Ok(o) => {
            if !o.warnings.is_empty() {
                return Err(format!("warnings: {}", o.warnings[0]));
            }
            match proj::project(&o.generated) {
                Ok(mods) => Ok(judge(c, &mods)),
                Err(e) => Ok(Some(("legal", format!("generated text does not parse as Rust (illegal identifier?): {e}")))),
            }
        }
        Outcome::Err(e) => Err(format!("Err: {e}")),
        Outcome::Panic(p) => Err(format!("panic: {p}")),
    }
}

fn legal_asn1_lower(s: &str) -> bool {
    !s.is_empty()
        && s.starts_with(|c: char| c.is_ascii_lowercase())
        && !s.ends_with('-')
        && !s.contains("--")
        && s.chars().all(|c| c.is_ascii_alphanumeric() || c == '-')
}

/// greedy minimisation of a failing name: drop characters, then simplify the remaining ones,
/// as long as the same clause keeps failing
fn shrink_name(c: &Case, clause: &'static str, detail: String) -> (Case, String) {
    let mut best = c.clone();
    let mut best_detail = detail;
    let still = |lower: &str| -> Option<String> {
        if !legal_asn1_lower(lower) {
            return None;
        }
        let k = Case { lower: lower.to_string(), upper: cap(lower) };
        if !usable(&k) {
            return None;
        }
        match eval(&k) {
            Ok(Some((cl, d))) if cl == clause => Some(d),
            _ => None,
        }
    };
    // keyword cases keep their own upper spelling; only random names are minimised
    if best.upper != cap(&best.lower) {
        return (best, best_detail);
    }
    let mut progress = true;
    while progress {
        progress = false;
        let chars: Vec<char> = best.lower.chars().collect();
        for i in 0..chars.len() {
            let cand: String = chars.iter().enumerate().filter(|(j, _)| *j != i).map(|(_, ch)| *ch).collect();
            if let Some(d) = still(&cand) {
                best = Case { upper: cap(&cand), lower: cand };
                best_detail = d;
                progress = true;
                break;
            }
        }
    }
    let chars: Vec<char> = best.lower.chars().collect();
    for i in 0..chars.len() {
        let simple = if chars[i].is_ascii_uppercase() { 'A' } else if chars[i].is_ascii_digit() { '0' } else if chars[i] == '-' { '-' } else { 'a' };
        if simple == chars[i] {
            continue;
        }
        let mut cur: Vec<char> = best.lower.chars().collect();
        cur[i] = simple;
        let cand: String = cur.into_iter().collect();
        if let Some(d) = still(&cand) {
            best = Case { upper: cap(&cand), lower: cand };
            best_detail = d;
        }
    }
    (best, best_detail)
}

fn cap(s: &str) -> String {
    let mut c = s.chars();
    match c.next() {
        Some(f) => f.to_uppercase().collect::<String>() + c.as_str(),
        None => String::new(),
    }
}

fn random_ident(src: &mut Src) -> String {
    let len = 1 + src.pick(24);
    let lower = "abcdefghijklmnopqrstuvwxyz";
    let upper = "ABCDEFGHIJKLMNOPQRSTUVWXYZ";
    let digits = "0123456789";
    let mut s = String::new();
    s.push(lower.chars().nth(src.pick(26)).unwrap());
    while s.len() < len {
        match src.weighted(&[5, 3, 2, 2]) {
            0 => s.push(lower.chars().nth(src.pick(26)).unwrap()),
            1 => s.push(upper.chars().nth(src.pick(26)).unwrap()),
            2 => s.push(digits.chars().nth(src.pick(10)).unwrap()),
            _ => {
                if !s.ends_with('-') && s.len() + 1 < len {
                    s.push('-');
                } else {
                    s.push(lower.chars().nth(src.pick(26)).unwrap());
                }
            }
        }
    }
    if s.ends_with('-') {
        s.push('x');
    }
    s
}

fn usable(c: &Case) -> bool {
    // the capitalised form must be a typereference with at least one lower-case letter
    // (all-capital typereferences are taken for class names: finding F-allcaps, C10/C12)
    c.upper.chars().any(|ch| ch.is_lowercase()) && !c.lower.starts_with("zz-") && !c.upper.starts_with("Zz-")
}

pub fn run(tier: Tier, seed: u64, replay: Option<String>) -> i32 {
    let mut ctx = Ctx::new("C16", tier, seed);
    ctx.rule = "every Rust strict/reserved/weak keyword (54) and N random legal ASN.1 identifiers (<=24 chars: letters, digits, single hyphens, \
                digits next to case changes), each placed at once as module, type, component, CHOICE alternative, enumeral, named number and value \
                name of a small module; oracle: syn accepts every generated identifier, the identifier is derived from the ASN.1 name (hyphen/case/ \
                one r_/R_ escape), equals the case rule's rendering for the role (word boundaries included), and carries identifier = \"<ASN.1 name>\" whenever it differs (types, components, \
                alternatives, enumerals); non-trivial = the name needs a transformation (hyphen, case or keyword); distinct by name"
        .into();
    ctx.assumptions = vec![
        "legality is judged by syn::parse_str::<syn::Ident> (rejects strict and reserved keywords)".into(),
        "the case rule is taken from the backend's own unit test and snapshots (hyphen = word boundary; upper-case after lower-case or digit = word boundary; \
         no boundary inside an upper-case run; title case capitalises each hyphen-separated word); the rendered name must equal it exactly, \
         so that names the rule keeps apart (iA5String / iA5string) stay apart".into(),
    ];
    let run_case = |ctx: &mut Ctx, c: &Case, r: Result<Option<(&'static str, String)>, String>| {
        let nontrivial = c.lower.contains('-') || c.lower.chars().any(|ch| ch.is_uppercase()) || KEYWORDS.contains(&c.lower.as_str());
        match r {
            Err(e) => {
                ctx.class("skipped:did-not-compile-cleanly");
                if KEYWORDS.contains(&c.lower.as_str()) {
                    // a keyword-named module that does not compile is worth showing
                    ctx.extra.insert(format!("keyword_case_not_compiled[{}]", c.lower), json!(e));
                }
            }
            Ok(j) => {
                ctx.case(&format!("{}|{}", c.lower, c.upper), nontrivial);
                if let Some((clause, detail)) = j {
                    ctx.class(&format!("fails:{clause}"));
                    if ctx.violations.len() < 4 {
                        let (c, detail) = shrink_name(c, clause, detail);
                        let c = &c;
                        ctx.fail(Failure {
                            finding: None,
                            what: format!("{clause}: {detail}"),
                            replay: json!({"kind": "c16", "case": c, "sources": [{"name": "id.asn", "text": module_text(c)}], "observed": detail}),
                        });
                    }
                }
            }
        }
    };
    if let Some(path) = replay {
        let v: Value = serde_json::from_str(&std::fs::read_to_string(&path).expect("replay")).expect("json");
        let c: Case = serde_json::from_value(v["case"].clone()).expect("case");
        let r = eval(&c);
        run_case(&mut ctx, &c, r);
        return ctx.finish();
    }
    let mut cases: Vec<Case> = vec![];
    for (_p, v) in crate::ev::replay_files("C16") {
        if let Ok(c) = serde_json::from_value::<Case>(v["case"].clone()) {
            cases.push(c);
        }
    }
    for k in KEYWORDS {
        if k.contains('_') {
            continue; // not an ASN.1 identifier
        }
        let lower = if k.starts_with(|c: char| c.is_uppercase()) { k.to_lowercase() } else { k.to_string() };
        // type/module role: the capitalised keyword (its snake case is the keyword again)
        cases.push(Case { lower: lower.clone(), upper: cap(k) });
        // and `Self`-like exact spelling where it is a typereference
        if k.starts_with(|c: char| c.is_uppercase()) {
            cases.push(Case { lower, upper: k.to_string() });
        }
    }
    let n = tier.pick(60000, 600000);
    let mut drv = Driver::new(seed, 16, 40);
    for t in drv.draw(n) {
        let s = t.current();
        let id = random_ident(&mut Src::new(&s));
        cases.push(Case { upper: cap(&id), lower: id });
    }
    let cases: Vec<Case> = cases.into_iter().filter(usable).collect();
    ctx.sample(json!(module_text(&cases[3])));
    ctx.sample(json!(cases.iter().rev().take(5).map(|c| c.lower.clone()).collect::<Vec<_>>()));
    let results: Vec<Result<Option<(&'static str, String)>, String>> = cases.par_iter().map(eval).collect();
    for (c, r) in cases.iter().zip(results) {
        run_case(&mut ctx, c, r);
    }
    ctx.finish()
}
