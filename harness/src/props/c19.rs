//! C19 — backend options change only what they document.
use crate::asn::*;
use crate::comp::{self, Cfg, Outcome};
use crate::ev::{Ctx, Tier};
use crate::gen::GenCfg;
use crate::proj::{self, Attrs, RItem, RModule};
use crate::props::common::*;
use serde_json::json;
use std::collections::BTreeMap;

const REQUIRED: [&str; 6] = ["AsnType", "Debug", "Clone", "Decode", "Encode", "PartialEq"];
const DEFAULT_ANN: &str = "#[derive(AsnType, Debug, Clone, Decode, Encode, PartialEq, Eq, Hash)]";

pub fn gen_cfg() -> GenCfg {
    GenCfg {
        max_modules: 3,
        max_types: 6,
        qualified_refs_pct: 40,
        oid_prefix_pct: 50,
        ..GenCfg::default()
    }
}

fn configs(thorough: bool) -> Vec<Cfg> {
    // (the last two: several glob imports, and two items whose last path segment is the same)
    let imports: [Vec<&str>; 5] = [
        vec![],
        vec!["core::fmt::Display"],
        vec!["core::fmt::*", "core::convert::TryFrom", "alloc::string::String"],
        vec!["core::fmt::*", "alloc::vec::*", "core::convert::*"],
        vec!["core::fmt::Write", "std::io::Write", "my_crate::module::*"],
    ];
    // (the last one: derive names that are paths or carry an underscore)
    let anns: [Option<Vec<&str>>; 7] = [
        None,
        Some(vec![DEFAULT_ANN, "#[derive(PartialOrd, Ord)]"]),
        Some(vec![DEFAULT_ANN, "#[allow(dead_code)]"]),
        Some(vec![DEFAULT_ANN, DEFAULT_ANN]),
        Some(vec![DEFAULT_ANN, "#[derive(ext_crate::Thing, Other_Name)]"]),
        // (derives named like traits the backend implements itself)
        Some(vec![DEFAULT_ANN, "#[derive(Default)]"]),
        Some(vec!["#[derive(AsnType, Debug, Clone, Decode, Encode, PartialEq, Eq, Hash, Default, From)]"]),
    ];
    let mut out = vec![];
    for bits in 0..8 {
        for (ii, imp) in imports.iter().enumerate() {
            for (ai, ann) in anns.iter().enumerate() {
                // quick: a Latin-square style sample of the 8 x 3 x 4 lattice (24 configs)
                if !thorough && (bits + ii + ai) % 4 != 0 && !(ai >= 4 && (bits + ii) % 3 == 0) && !(ii >= 3 && (bits + ai) % 5 == 0) {
                    continue;
                }
                let mut c = Cfg::from_bits(bits);
                c.custom_imports = imp.iter().map(|s| s.to_string()).collect();
                c.type_annotations = ann.as_ref().map(|v| v.iter().map(|s| s.to_string()).collect());
                out.push(c);
            }
        }
    }
    out
}

fn attrs_neutral(a: &Attrs) -> String {
    format!(
        "flags={:?} tag={:?} value={:?} size={:?} from={:?} identifier={:?} default={:?} non_exhaustive={} unknown={:?}",
        a.flags, a.tag, a.value, a.size, a.from, a.identifier, a.default, a.non_exhaustive, a.unknown_rasn
    )
}

struct Neutral {
    /// config-independent rendering of every item that must be identical across configs
    items: Vec<String>,
    /// From impls: (target, source type)
    from_impls: Vec<(String, String)>,
    /// use lines
    uses: Vec<String>,
    /// per type item: (name, derives, other attributes)
    type_attrs: Vec<(String, Vec<String>, Vec<String>)>,
    /// constants: name -> kind
    const_kinds: BTreeMap<String, String>,
    /// choice enums: name -> payload types
    choices: BTreeMap<String, Vec<String>>,
}

fn neutral(m: &RModule) -> Neutral {
    let mut n = Neutral {
        items: vec![],
        from_impls: vec![],
        uses: vec![],
        type_attrs: vec![],
        const_kinds: BTreeMap::new(),
        choices: BTreeMap::new(),
    };
    for it in &m.items {
        match it {
            RItem::Use(u) => n.uses.push(u.clone()),
            RItem::Struct(s) => {
                n.type_attrs.push((s.name.clone(), s.attrs.derives.clone(), s.attrs.others.clone()));
                let fields: Vec<String> = s.fields.iter().map(|f| format!("{}:{}[{}]", f.name, f.ty, attrs_neutral(&f.attrs))).collect();
                n.items.push(format!("struct {} named={} [{}] {{{}}}", s.name, s.named, attrs_neutral(&s.attrs), fields.join(";")));
            }
            RItem::Enum(e) => {
                n.type_attrs.push((e.name.clone(), e.attrs.derives.clone(), e.attrs.others.clone()));
                let vars: Vec<String> = e
                    .variants
                    .iter()
                    .map(|v| format!("{}({:?})={:?}[{}]", v.name, v.payload, v.disc, attrs_neutral(&v.attrs)))
                    .collect();
                if e.attrs.flags.contains("choice") {
                    n.choices.insert(e.name.clone(), e.variants.iter().map(|v| v.payload.join(",")).collect());
                }
                n.items.push(format!("enum {} [{}] {{{}}}", e.name, attrs_neutral(&e.attrs), vars.join(";")));
            }
            RItem::Const(c) => {
                n.const_kinds.insert(c.name.clone(), c.kind.clone());
                n.items.push(format!("const {}: {} = {}", c.name, c.ty, c.init));
            }
            RItem::Fn(f) => n.items.push(format!("fn {}", f.text)),
            RItem::Impl(i) => match &i.trait_ {
                Some(t) if t.starts_with("From<") => {
                    n.from_impls.push((
                        i.target.clone(),
                        t.strip_prefix("From<").and_then(|r| r.strip_suffix('>')).unwrap_or(t).to_string(),
                    ))
                }
                _ => n.items.push(format!("impl {}", i.text)),
            },
            RItem::Other(o) => n.items.push(format!("other {o}")),
        }
    }
    n
}

/// compare module `m` compiled under `cfg` with the same module under the default config
fn diff(cfg: &Cfg, base: &RModule, m: &RModule) -> Option<(&'static str, String)> {
    let (b, n) = (neutral(base), neutral(m));
    if b.items != n.items {
        let first = b.items.iter().zip(n.items.iter()).find(|(x, y)| x != y);
        return Some((
            "definitions",
            match first {
                Some((x, y)) => format!("item differs across configurations:\n  default: {x}\n  config : {y}"),
                None => format!("{} items under the default config, {} under this config", b.items.len(), n.items.len()),
            },
        ));
    }
    // generate_from_impls
    let mut expected_from: Vec<(String, String)> = vec![];
    if cfg.generate_from_impls {
        // one impl per alternative whose payload type is unique within its CHOICE
        // (enums are visited in item order, like the impls are emitted)
        for it in &base.items {
            if let RItem::Enum(e) = it {
                if let Some(payloads) = b.choices.get(&e.name) {
                    for p in payloads {
                        if payloads.iter().filter(|q| *q == p).count() == 1 {
                            expected_from.push((e.name.clone(), p.clone()));
                        }
                    }
                }
            }
        }
    }
    let mut got = n.from_impls.clone();
    let mut exp = expected_from.clone();
    got.sort();
    exp.sort();
    if got != exp {
        return Some(("from_impls", format!("From impls {got:?}, expected exactly {exp:?}")));
    }
    if !b.from_impls.is_empty() {
        return Some(("from_impls", "From impls under the default configuration".into()));
    }
    // use lines
    let lazy = if cfg.no_std_compliant_bindings { "lazy_static::lazy_static" } else { "std::sync::LazyLock" };
    let mut exp_uses: Vec<String> = vec![];
    for u in &b.uses {
        if u == "std::sync::LazyLock" {
            exp_uses.push(lazy.to_string());
        } else if u.starts_with("super::") && cfg.default_wildcard_imports {
            let module = u.split("::{").next().unwrap_or(u);
            exp_uses.push(format!("{module}::{{*}}"));
        } else {
            exp_uses.push(u.clone());
        }
    }
    // custom imports come right after the prelude import
    let pos = exp_uses.iter().position(|u| u == "rasn::prelude::*").map(|p| p + 1).unwrap_or(exp_uses.len());
    for (k, ci) in cfg.custom_imports.iter().enumerate() {
        exp_uses.insert(pos + k, ci.replace(' ', ""));
    }
    if n.uses != exp_uses {
        return Some(("uses", format!("use lines {:?}, expected {:?}", n.uses, exp_uses)));
    }
    // lazy constants
    for (name, kind) in &b.const_kinds {
        let k2 = n.const_kinds.get(name).map(|s| s.as_str()).unwrap_or("?");
        let exp = match kind.as_str() {
            "lazylock" if cfg.no_std_compliant_bindings => "lazy_static",
            k => k,
        };
        if k2 != exp {
            return Some(("lazy", format!("constant {name} is `{k2}`, expected `{exp}`")));
        }
    }
    // annotations
    let anns = cfg.type_annotations.clone().unwrap_or_else(|| vec![DEFAULT_ANN.to_string()]);
    let mut want_derives: Vec<String> = REQUIRED.iter().map(|s| s.to_string()).collect();
    let mut want_others: Vec<String> = vec![];
    for a in &anns {
        let t = a.replace(' ', "");
        if let Some(list) = t.strip_prefix("#[derive(").and_then(|r| r.strip_suffix(")]")) {
            for d in list.split(',') {
                if !want_derives.contains(&d.to_string()) {
                    want_derives.push(d.to_string());
                }
            }
        } else {
            want_others.push(t);
        }
    }
    for ((name, derives, others), (_, bd, _)) in n.type_attrs.iter().zip(b.type_attrs.iter()) {
        for r in REQUIRED {
            if !derives.iter().any(|d| d == r) {
                return Some(("derives", format!("{name}: required derive {r} missing (has {derives:?})")));
            }
        }
        let copy_expected = bd.iter().any(|d| d == "Copy");
        let mut exp: Vec<String> = want_derives.clone();
        if copy_expected {
            exp.push("Copy".into());
        }
        let mut g = derives.clone();
        g.sort();
        let mut e2 = exp.clone();
        e2.sort();
        if g != e2 {
            return Some(("derives", format!("{name}: derives {derives:?}, expected the set {exp:?}")));
        }
        if *others != want_others {
            return Some(("annotations", format!("{name}: extra attributes {others:?}, expected {want_others:?}")));
        }
    }
    None
}

pub fn eval(ms: &ModuleSet, cfgs: &[Cfg]) -> Verdict {
    // every input also holds types for which the backend writes trait impls of its own (a
    // SEQUENCE / SET whose components all have a DEFAULT gets `impl Default`): an annotation
    // that names the same trait does not document their removal
    let mut ms = ms.clone();
    for t in [
        "Zd-All-Default ::= SEQUENCE { a INTEGER DEFAULT 5 , b BOOLEAN DEFAULT TRUE }",
        "Zd-Set-Default ::= SET { a INTEGER ( 0 .. 7 ) DEFAULT 1 }",
        "Zd-Some-Default ::= SEQUENCE { a INTEGER DEFAULT 5 , b BOOLEAN }",
    ] {
        let toks: Vec<String> = t.split_whitespace().map(|x| x.to_string()).collect();
        if let Some(m0) = ms.modules.first_mut() {
            m0.items.push(Item::Raw { name: toks[0].clone(), toks, kind: "all-default".into() });
        }
    }
    let ms = &ms;
    let text = print(ms);
    let base = match comp::compile_rasn1(&text, &Cfg::default()) {
        Outcome::Ok(c) => c,
        _ => return Verdict::Skip("default-config-did-not-compile"),
    };
    let Ok(bmods) = proj::project(&base.generated) else { return Verdict::Skip("default-output-unparsable") };
    let feats = features(ms);
    let has_choice = feats.contains("choice");
    let nontrivial = has_choice && feats.contains("import") && feats.contains("value_assignment");
    for cfg in cfgs {
        let out = match comp::compile_rasn1(&text, cfg) {
            Outcome::Ok(c) => c,
            other => {
                return Verdict::Fail {
                    key: "status".into(),
                    finding: None,
                    what: format!("compiles under the default config but {} under {cfg:?}", other.kind()),
                    observed: json!({"config": cfg}),
                    nontrivial,
                }
            }
        };
        if out.warnings != base.warnings {
            return Verdict::Fail {
                key: "warnings".into(),
                finding: None,
                what: format!("warnings differ under {cfg:?}"),
                observed: json!({"config": cfg, "default": base.warnings, "config_warnings": out.warnings}),
                nontrivial,
            };
        }
        let mods = match proj::project(&out.generated) {
            Ok(m) => m,
            Err(e) => {
                return Verdict::Fail { key: "syn".into(), finding: None, what: format!("unparsable output under {cfg:?}: {e}"), observed: json!({"config": cfg}), nontrivial }
            }
        };
        if mods.len() != bmods.len() {
            return Verdict::Fail { key: "modules".into(), finding: None, what: "module count differs".into(), observed: json!({"config": cfg}), nontrivial };
        }
        for (b, m) in bmods.iter().zip(mods.iter()) {
            if b.name != m.name {
                return Verdict::Fail { key: "modules".into(), finding: None, what: "module names differ".into(), observed: json!({"config": cfg}), nontrivial };
            }
            if let Some((clause, detail)) = diff(cfg, b, m) {
                return Verdict::Fail {
                    key: clause.to_string(),
                    finding: None,
                    what: format!("{clause}: module {}: {detail}", m.name),
                    observed: json!({"config": cfg, "detail": detail}),
                    nontrivial,
                };
            }
        }
    }
    Verdict::Pass {
        nontrivial,
        classes: feats.iter().map(|s| s.to_string()).collect(),
    }
}

pub fn run(tier: Tier, seed: u64, replay: Option<String>) -> i32 {
    let mut ctx = Ctx::new("C19", tier, seed);
    let cfgs = configs(tier == Tier::Thorough);
    ctx.rule = format!(
        "module sets from the §3 generator, each compiled under the default RasnConfig and under {} configurations (boolean options x custom imports \
         {{0,1,3}} x annotations {{default, extra derives, extra attribute, derives twice}}; quick: a balanced sample of the 8x3x4 lattice, thorough: all 96); \
         oracle: item-level diff of the syn projections — definitions, tags, constraints, values identical; From impls exactly one per CHOICE alternative \
         with a payload type unique in its CHOICE; import lists <-> `*`; LazyLock <-> lazy_static; custom use lines exactly as configured; derives = required + \
         configured; one evaluation = one input under all configurations; non-trivial = input with a CHOICE, an import and a value; distinct by input text",
        cfgs.len()
    );
    ctx.extra.insert("configurations".into(), json!(cfgs.len()));
    ctx.assumptions = vec!["opaque_open_types is held at true (non-opaque open types are documented as experimental)".into()];
    let e = |m: &ModuleSet| eval(m, &cfgs);
    let run = GenericRun {
        gcfg: gen_cfg(),
        n: tier.pick(2000, 12000),
        stream_len: 3000,
        salt: 19,
        shrink_budget: 200,
        max_violations: 3,
        eval: &e,
    };
    if let Some(p) = replay {
        let r = replay_generic(&mut ctx, &run, "c19", &p);
        let code = ctx.finish();
        return if r == 2 { 2 } else { code };
    }
    run_generic(&mut ctx, &run, "c19");
    ctx.finish()
}
