//! helpers shared by the property checks
use crate::asn::*;
use crate::comp::{self, Cfg, Outcome};
use crate::gen::{self, Gen, GenCfg};
use crate::src::Src;
use std::collections::BTreeSet;

pub fn gen_set(stream: &[u32], cfg: &GenCfg) -> ModuleSet {
    gen_set_x(stream, cfg).0
}

pub fn gen_set_x(stream: &[u32], cfg: &GenCfg) -> (ModuleSet, std::collections::BTreeMap<&'static str, u64>) {
    let mut src = Src::new(stream);
    let mut g = Gen::new(&mut src, cfg.clone());
    let ms = g.module_set();
    (ms, g.excluded)
}

/// feature classes present in a module set (used for non-triviality rules and histograms)
pub fn features(ms: &ModuleSet) -> BTreeSet<&'static str> {
    let mut f = BTreeSet::new();
    let scope = gen::Scope::from_set(ms);
    if ms.modules.len() > 1 {
        f.insert("multi_module");
    }
    for m in &ms.modules {
        if !m.imports.is_empty() {
            f.insert("import");
        }
        if m.ext_implied {
            f.insert("ext_implied");
        }
        for it in &m.items {
            match it {
                Item::Value { .. } => {
                    f.insert("value_assignment");
                }
                Item::Type { tag, ty, name } => {
                    if tag.is_some() {
                        f.insert("explicit_tag");
                    }
                    ty_features(ty, 0, &mut f);
                    // recursion: the type reaches itself
                    let mut seen = BTreeSet::new();
                    let mut stack = vec![];
                    gen::refs_in(ty, &mut seen);
                    stack.extend(seen.iter().cloned());
                    let mut visited = BTreeSet::new();
                    while let Some(n) = stack.pop() {
                        if &n == name {
                            f.insert("recursion");
                            break;
                        }
                        if !visited.insert(n.clone()) {
                            continue;
                        }
                        if let Some(d) = scope.get(&n) {
                            let mut more = BTreeSet::new();
                            gen::refs_in(&d.ty, &mut more);
                            stack.extend(more);
                        }
                    }
                }
                Item::Raw { .. } => {}
            }
        }
    }
    f
}

fn ty_features(ty: &Ty, depth: usize, f: &mut BTreeSet<&'static str>) {
    match ty {
        Ty::Sequence(Fields { root, ext }) | Ty::Set(Fields { root, ext }) | Ty::Choice(Alts { root, ext }) => {
            if depth >= 2 {
                f.insert("nesting>=2");
            }
            if matches!(ty, Ty::Set(_)) {
                f.insert("set");
            }
            if matches!(ty, Ty::Choice(_)) {
                f.insert("choice");
            }
            if ext.is_some() {
                f.insert("extension_marker");
            }
            if let Some(adds) = ext {
                if adds.iter().any(|a| matches!(a, Addition::Group { .. })) {
                    f.insert("extension_group");
                }
            }
            for (c, _) in gen::flat_comps(root, ext) {
                if c.tag.is_some() {
                    f.insert("explicit_tag");
                }
                match c.opt {
                    Opt::Default(_) => {
                        f.insert("default");
                    }
                    Opt::Optional => {
                        f.insert("optional");
                    }
                    Opt::Req => {}
                }
                ty_features(&c.ty, depth + 1, f);
            }
        }
        Ty::SeqOf(o) | Ty::SetOf(o) => {
            f.insert("of");
            if o.size.is_some() {
                f.insert("constraint");
            }
            ty_features(&o.elem, depth + 1, f)
        }
        Ty::Ref { cons, .. } => {
            if !cons.is_empty() {
                f.insert("constrained_reference");
            }
        }
        Ty::Integer { cons, named } => {
            if !cons.is_empty() {
                f.insert("constraint");
            }
            if !named.is_empty() {
                f.insert("named_numbers");
            }
        }
        Ty::BitString { cons, .. } | Ty::OctetString { cons } | Ty::Str { cons, .. } => {
            if !cons.is_empty() {
                f.insert("constraint");
            }
        }
        Ty::Enumerated(_) => {
            f.insert("enumerated");
        }
        _ => {}
    }
}

pub fn debug_gen(pos: &[String]) -> i32 {
    let seed: u64 = pos.get(1).and_then(|s| s.parse().ok()).unwrap_or(1);
    let n: usize = pos.get(2).and_then(|s| s.parse().ok()).unwrap_or(3);
    let mut d = crate::ev::Driver::new(seed, 0, 6000);
    let mut cfg = GenCfg::default();
    cfg.empty_strings = std::env::var("EMPTY").is_ok();
    let mut stats = std::collections::BTreeMap::new();
    for t in d.draw(n) {
        let ms = gen_set(&t.current(), &cfg);
        let text = print(&ms);
        let out = comp::compile_rasn1(&text, &Cfg::default());
        let k = match &out {
            Outcome::Ok(c) if c.warnings.is_empty() => "ok".to_string(),
            Outcome::Ok(c) => format!("warn: {}", c.warnings[0].chars().take(100).collect::<String>()),
            Outcome::Err(e) => {
                // show the source around the reported position (Display prints line+1)
                let nums: Vec<usize> = e
                    .split(|c: char| !c.is_ascii_digit())
                    .filter_map(|x| x.parse().ok())
                    .collect();
                let ctx = if nums.len() >= 2 {
                    let line = text.lines().nth(nums[0].saturating_sub(2)).unwrap_or("");
                    let col = nums[1].saturating_sub(1);
                    let a = col.saturating_sub(70);
                    let b = (col + 30).min(line.len());
                    format!("{}  <<<HERE>>>  {}", line.get(a..col).unwrap_or("?"), line.get(col..b).unwrap_or("?"))
                } else {
                    String::new()
                };
                format!("err: {ctx}")
            }
            Outcome::Panic(p) => format!("panic: {p}"),
        };
        if n <= 5 {
            println!("{text}\n--> {k}\n");
        } else if k != "ok" {
            let _ = std::fs::create_dir_all("/tmp/p/fail");
            let _ = std::fs::write(format!("/tmp/p/fail/{:016x}.asn", crate::ev::hash_str(&text)), format!("{text}\n-- {k}\n"));
        }
        *stats.entry(k).or_insert(0usize) += 1;
    }
    for (k, v) in stats {
        println!("{v:6}  {k}");
    }
    0
}

pub fn debug_probe(pos: &[String]) -> i32 {
    let text = std::fs::read_to_string(&pos[1]).unwrap();
    let ts = pos.get(2).map_or(false, |s| s == "ts");
    let out = if ts { comp::compile_ts(&[text.clone()]) } else { {
        let bits: usize = std::env::var("PROBE_BITS").ok().and_then(|b| b.parse().ok()).unwrap_or(0);
        let mut cfg = Cfg::from_bits(bits);
        cfg.opaque_open_types = bits & 8 == 0;
        comp::compile_rasn1(&text, &cfg)
    } };
    match out {
        Outcome::Ok(c) => {
            println!("{}", c.generated);
            for w in c.warnings {
                println!("WARN: {w}");
            }
        }
        Outcome::Err(e) => println!("ERR: {e}"),
        Outcome::Panic(p) => println!("PANIC: {p}"),
    }
    0
}

// ---------------------------------------------------------------------------------------
// model-level shrinking (hierarchical delta debugging over the ASN.1 model)

#[derive(Clone, Copy, Debug, PartialEq)]
enum CompOp {
    Drop,
    Null,
    Req,
    NoTagMode,
}

/// apply `op` to the k-th component (pre-order) of `ty`; returns true if applied
fn edit_comp(ty: &mut Ty, k: &mut isize, op: CompOp) -> bool {
    fn on_list(list: &mut Vec<Comp>, k: &mut isize, op: CompOp, min_len: usize) -> bool {
        let mut i = 0;
        while i < list.len() {
            if *k == 0 {
                *k = -1;
                match op {
                    CompOp::Drop => {
                        // never drop the first alternative of a CHOICE: it carries the
                        // finite value that keeps recursion well-founded
                        if list.len() > min_len && !(min_len == 1 && i == 0) {
                            list.remove(i);
                            return true;
                        }
                        return false;
                    }
                    CompOp::Null => {
                        if list[i].ty == Ty::Null {
                            return false;
                        }
                        list[i].ty = Ty::Null;
                        if let Opt::Default(_) = list[i].opt {
                            list[i].opt = Opt::Optional;
                        }
                        return true;
                    }
                    CompOp::Req => {
                        if list[i].opt == Opt::Req {
                            return false;
                        }
                        list[i].opt = Opt::Req;
                        return true;
                    }
                    CompOp::NoTagMode => match &mut list[i].tag {
                        Some(t) if t.mode.is_some() => {
                            t.mode = None;
                            return true;
                        }
                        _ => return false,
                    },
                }
            }
            *k -= 1;
            if edit_comp(&mut list[i].ty, k, op) {
                return true;
            }
            if *k < 0 {
                return false;
            }
            i += 1;
        }
        false
    }
    match ty {
        Ty::Sequence(_) | Ty::Set(_) | Ty::Choice(_) => {
            let min_len = if matches!(ty, Ty::Choice(_)) { 1 } else { 0 };
            // (re-borrow after the match on ty for min_len)
            let (root, ext) = match ty {
                Ty::Sequence(Fields { root, ext }) | Ty::Set(Fields { root, ext }) | Ty::Choice(Alts { root, ext }) => (root, ext),
                _ => unreachable!(),
            };
            if on_list(root, k, op, min_len) {
                return true;
            }
            if *k < 0 {
                return false;
            }
            if let Some(adds) = ext {
                let mut ai = 0;
                while ai < adds.len() {
                    let (done, remove_group) = match &mut adds[ai] {
                        Addition::Comp(c) => {
                            let mut one = vec![c.clone()];
                            let r = on_list(&mut one, k, op, 0);
                            if r {
                                if one.is_empty() {
                                    (true, true)
                                } else {
                                    *c = one.remove(0);
                                    (true, false)
                                }
                            } else {
                                (false, false)
                            }
                        }
                        Addition::Group { comps, .. } => {
                            let r = on_list(comps, k, op, 0);
                            (r, r && comps.is_empty())
                        }
                    };
                    if done {
                        if remove_group {
                            adds.remove(ai);
                        }
                        return true;
                    }
                    if *k < 0 {
                        return false;
                    }
                    ai += 1;
                }
            }
            false
        }
        Ty::SeqOf(o) | Ty::SetOf(o) => edit_comp(&mut o.elem, k, op),
        _ => false,
    }
}

fn count_comps(ty: &Ty) -> usize {
    let mut n = 0;
    gen::for_each_comp(ty, &mut |_| n += 1);
    n
}

fn replace_refs(ty: &mut Ty, gone: &BTreeSet<String>) {
    match ty {
        Ty::Ref { name, .. } if gone.contains(name) => *ty = Ty::Null,
        Ty::Sequence(Fields { root, ext }) | Ty::Set(Fields { root, ext }) | Ty::Choice(Alts { root, ext }) => {
            for c in root.iter_mut() {
                let was_ref = matches!(c.ty, Ty::Ref { .. });
                replace_refs(&mut c.ty, gone);
                if was_ref && c.ty == Ty::Null {
                    if let Opt::Default(_) = c.opt {
                        c.opt = Opt::Optional;
                    }
                }
            }
            if let Some(adds) = ext {
                for a in adds.iter_mut() {
                    let comps: &mut [Comp] = match a {
                        Addition::Comp(c) => std::slice::from_mut(c),
                        Addition::Group { comps, .. } => comps,
                    };
                    for c in comps {
                        let was_ref = matches!(c.ty, Ty::Ref { .. });
                        replace_refs(&mut c.ty, gone);
                        if was_ref && c.ty == Ty::Null {
                            if let Opt::Default(_) = c.opt {
                                c.opt = Opt::Optional;
                            }
                        }
                    }
                }
            }
        }
        Ty::SeqOf(o) | Ty::SetOf(o) => replace_refs(&mut o.elem, gone),
        _ => {}
    }
}

fn drop_names(ms: &mut ModuleSet, gone: &BTreeSet<String>) {
    for m in ms.modules.iter_mut() {
        m.items.retain(|it| match it {
            // values governed by a removed type go too
            Item::Value { ty: Ty::Ref { name, .. }, .. } => !gone.contains(name),
            _ => true,
        });
        for it in m.items.iter_mut() {
            if let Item::Type { ty, .. } = it {
                replace_refs(ty, gone);
            }
        }
        for imp in m.imports.iter_mut() {
            imp.symbols.retain(|s| !gone.contains(s));
        }
        m.imports.retain(|i| !i.symbols.is_empty());
    }
}

/// Greedy structural shrinking: try edits that keep the notation valid, keep those for
/// which `fails` still holds. `budget` bounds the number of oracle evaluations.
pub fn shrink_model(ms: &ModuleSet, fails: &mut dyn FnMut(&ModuleSet) -> bool, budget: usize) -> ModuleSet {
    let mut cur = ms.clone();
    let mut left = budget;
    let mut try_it = |cand: ModuleSet, cur: &mut ModuleSet, left: &mut usize| -> bool {
        if *left == 0 || cand == *cur || !gen::tags_valid(&cand) {
            return false;
        }
        *left -= 1;
        if fails(&cand) {
            *cur = cand;
            true
        } else {
            false
        }
    };
    loop {
        let mut progress = false;
        // 1. drop whole modules
        let mut mi = cur.modules.len();
        while mi > 0 && cur.modules.len() > 1 {
            mi -= 1;
            if mi >= cur.modules.len() {
                continue;
            }
            let mut cand = cur.clone();
            let gone: BTreeSet<String> = cand.modules[mi].items.iter().map(|i| i.name().to_string()).collect();
            let mname = cand.modules[mi].name.clone();
            cand.modules.remove(mi);
            drop_names(&mut cand, &gone);
            for m in cand.modules.iter_mut() {
                m.imports.retain(|i| i.from != mname);
            }
            progress |= try_it(cand, &mut cur, &mut left);
        }
        // 2. drop items
        for mi in (0..cur.modules.len()).rev() {
            let mut ii = cur.modules[mi].items.len();
            while ii > 0 {
                ii -= 1;
                if ii >= cur.modules[mi].items.len() || cur.modules[mi].items.len() <= 1 {
                    continue;
                }
                let mut cand = cur.clone();
                let it = cand.modules[mi].items.remove(ii);
                let gone: BTreeSet<String> = [it.name().to_string()].into_iter().collect();
                drop_names(&mut cand, &gone);
                progress |= try_it(cand, &mut cur, &mut left);
            }
        }
        // 3. component-level edits
        // (no edit may make a recursive edge mandatory: that would leave the type without finite values)
        for op in [CompOp::Drop, CompOp::Null, CompOp::NoTagMode] {
            for mi in 0..cur.modules.len() {
                for ii in 0..cur.modules[mi].items.len() {
                    let n = match &cur.modules[mi].items[ii] {
                        Item::Type { ty, .. } => count_comps(ty),
                        _ => 0,
                    };
                    let mut k = n as isize;
                    while k > 0 {
                        k -= 1;
                        let mut cand = cur.clone();
                        let applied = match &mut cand.modules[mi].items[ii] {
                            Item::Type { ty, .. } => {
                                let mut kk = k;
                                edit_comp(ty, &mut kk, op)
                            }
                            _ => false,
                        };
                        if applied {
                            progress |= try_it(cand, &mut cur, &mut left);
                        }
                    }
                }
            }
        }
        // 4. header simplification (tags of type assignments are never removed: other
        //    components may rely on them for tag distinctness)
        for mi in 0..cur.modules.len() {
            if cur.modules[mi].ext_implied {
                let mut cand = cur.clone();
                cand.modules[mi].ext_implied = false;
                progress |= try_it(cand, &mut cur, &mut left);
            }
        }
        if !progress || left == 0 {
            break;
        }
    }
    cur
}

// ---------------------------------------------------------------------------------------
// generic runner for in-process properties over generated module sets

use crate::ev::{Ctx, Driver, Failure};
use rayon::prelude::*;
use serde_json::{json, Value};

pub enum Verdict {
    /// premise not met (counted under the label)
    Skip(&'static str),
    Pass {
        nontrivial: bool,
        classes: Vec<String>,
    },
    Fail {
        /// failure signature used to keep shrinking on the same defect
        key: String,
        finding: Option<&'static str>,
        what: String,
        observed: Value,
        nontrivial: bool,
    },
}

pub struct GenericRun<'a> {
    pub gcfg: GenCfg,
    pub n: usize,
    pub stream_len: usize,
    pub salt: u64,
    pub shrink_budget: usize,
    pub max_violations: usize,
    pub eval: &'a (dyn Fn(&ModuleSet) -> Verdict + Sync),
}

pub fn replay_model(v: &Value) -> Option<ModuleSet> {
    // the model is stored as a JSON string: serde_json::Value cannot hold i128 numbers
    v["model_json"].as_str().and_then(|s| serde_json::from_str(s).ok())
}

pub fn model_payload(kind: &str, ms: &ModuleSet, observed: Value) -> Value {
    json!({
        "kind": kind,
        "sources": [{"name": "input.asn", "text": print(ms)}],
        "model_json": serde_json::to_string(ms).unwrap_or_default(),
        "observed": observed,
    })
}

/// evaluate one model: bookkeeping + failure handling (shrinks unexplained failures)
pub fn judge_model(ctx: &mut Ctx, run: &GenericRun, kind: &str, ms: &ModuleSet, shrink: bool) -> bool {
    let v = (run.eval)(ms);
    judge_verdict(ctx, run, kind, ms, shrink, v)
}

pub fn judge_verdict(ctx: &mut Ctx, run: &GenericRun, kind: &str, ms: &ModuleSet, shrink: bool, verdict: Verdict) -> bool {
    let text = print(ms);
    match verdict {
        Verdict::Skip(label) => {
            ctx.class(&format!("skipped:{label}"));
            false
        }
        Verdict::Pass { nontrivial, classes } => {
            ctx.case(&text, nontrivial);
            for c in classes {
                ctx.class(&c);
            }
            false
        }
        Verdict::Fail { key, finding, what, observed, nontrivial } => {
            ctx.case(&text, nontrivial);
            if finding.map_or(false, |f| ctx.is_known(f)) {
                return ctx.fail(Failure { finding, what, replay: Value::Null });
            }
            let (small, what2, obs2, fid2) = if shrink {
                let small = shrink_model(
                    ms,
                    &mut |m: &ModuleSet| matches!((run.eval)(m), Verdict::Fail { key: k, finding: f2, .. } if k == key && f2 == finding),
                    run.shrink_budget,
                );
                match (run.eval)(&small) {
                    Verdict::Fail { what, observed, finding, .. } => (small, what, observed, finding),
                    _ => (ms.clone(), what, observed, finding),
                }
            } else {
                (ms.clone(), what, observed, finding)
            };
            let mut payload = model_payload(kind, &small, obs2);
            if let Value::Object(m) = &mut payload {
                m.insert("unshrunk_input".into(), json!(text));
            }
            ctx.fail(Failure { finding: fid2, what: what2, replay: payload })
        }
    }
}

pub fn run_generic(ctx: &mut Ctx, run: &GenericRun, kind: &str) {
    // replay tier: committed replays carry the model
    for (_p, v) in crate::ev::replay_files(ctx.property) {
        if v["kind"].as_str() != Some(kind) {
            continue;
        }
        if let Some(ms) = replay_model(&v) {
            judge_model(ctx, run, kind, &ms, false);
        }
    }
    run_generic_no_replay(ctx, run, kind)
}

/// the generated part only (for a second generator configuration within one check)
pub fn run_generic_no_replay(ctx: &mut Ctx, run: &GenericRun, kind: &str) {
    let mut drv = Driver::new(ctx.seed, run.salt, run.stream_len);
    let chunk = 2000;
    let mut done = 0;
    let mut seen_keys = std::collections::BTreeSet::new();
    while done < run.n && ctx.violations.len() < run.max_violations {
        let k = chunk.min(run.n - done);
        let trees = drv.draw(k);
        let streams: Vec<Vec<u32>> = trees.iter().map(|t| t.current()).collect();
        drop(trees);
        let models: Vec<(ModuleSet, std::collections::BTreeMap<&'static str, u64>)> =
            streams.par_iter().map(|s| gen_set_x(s, &run.gcfg)).collect();
        let verdicts: Vec<Verdict> = models.par_iter().map(|(m, _)| (run.eval)(m)).collect();
        for (i, ((m, excl), v)) in models.iter().zip(verdicts.into_iter()).enumerate() {
            for (k2, v) in excl {
                ctx.class_n(&format!("excluded_by_finding[{k2}]"), *v);
            }
            if let Verdict::Fail { key, finding, .. } = &v {
                let known = finding.map_or(false, |f| ctx.is_known(f));
                if !known && !seen_keys.insert(key.clone()) {
                    // same signature as an already reported failure of this run
                    ctx.class("repeat_of_reported_failure");
                    continue;
                }
            }
            if done == 0 && i < 2 {
                ctx.sample_text("generated module set", &print(m));
            }
            judge_verdict(ctx, run, kind, m, true, v);
            if ctx.violations.len() >= run.max_violations {
                break;
            }
        }
        done += k;
    }
    ctx.extra.insert("generated_inputs".into(), json!(done));
}

/// `--replay FILE` for model-carrying replay files
pub fn replay_generic(ctx: &mut Ctx, run: &GenericRun, kind: &str, path: &str) -> i32 {
    let v: Value = match std::fs::read_to_string(path).ok().and_then(|t| serde_json::from_str(&t).ok()) {
        Some(v) => v,
        None => {
            eprintln!("cannot read replay file {path}");
            return 2;
        }
    };
    match replay_model(&v) {
        Some(ms) => {
            let bad = judge_model(ctx, run, kind, &ms, false);
            println!("replay: {}", if bad { "FAILS" } else { "holds (or attributed to a known finding)" });
            0
        }
        None => {
            eprintln!("replay file has no model");
            2
        }
    }
}
