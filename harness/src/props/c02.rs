//! C02 — constructed types keep every component, in order, with the right shape.
use crate::asn::*;
use crate::comp::{self, Cfg, Outcome};
use crate::ev::{Ctx, Tier};
use crate::gen::GenCfg;
use crate::props::common::*;
use crate::structure;
use serde_json::json;

pub fn gen_cfg() -> GenCfg {
    GenCfg {
        values: false,
        ..GenCfg::default()
    }
}

fn classify(_ms: &ModuleSet, _d: &structure::Disc) -> Option<&'static str> {
    None
}

pub fn eval(ms: &ModuleSet, prefix: &str) -> Verdict {
    let text = print(ms);
    let out = comp::compile_rasn1(&text, &Cfg::default());
    let c = match &out {
        Outcome::Ok(c) => c,
        Outcome::Err(_) => return Verdict::Skip("compile_err"),
        Outcome::Panic(_) => return Verdict::Skip("panic"),
    };
    if !c.warnings.is_empty() {
        return Verdict::Skip("warnings");
    }
    let rmods = match crate::proj::project(&c.generated) {
        Ok(r) => r,
        Err(e) => {
            return Verdict::Fail {
                key: "syn".into(),
                finding: None,
                what: format!("generated text does not parse: {e}"),
                observed: json!(e),
                nontrivial: true,
            }
        }
    };
    let feats = features(ms);
    let nontrivial = feats.contains("nesting>=2")
        || feats.contains("extension_marker")
        || (feats.contains("optional") && feats.contains("default"));
    let discs: Vec<structure::Disc> = structure::check_set(ms, &rmods)
        .into_iter()
        .filter(|d| d.clause.starts_with(prefix))
        .collect();
    match discs.first() {
        None => Verdict::Pass {
            nontrivial,
            classes: feats.iter().map(|s| s.to_string()).collect(),
        },
        Some(d) => Verdict::Fail {
            key: d.clause.to_string(),
            finding: classify(ms, d),
            what: format!("{} at {}: {}", d.clause, d.at, d.detail),
            observed: json!(discs.iter().take(5).map(|d| format!("{} at {}: {}", d.clause, d.at, d.detail)).collect::<Vec<_>>()),
            nontrivial,
        },
    }
}

pub fn run(tier: Tier, seed: u64, replay: Option<String>) -> i32 {
    let mut ctx = Ctx::new("C02", tier, seed);
    ctx.rule = "module sets from the §3 generator (types only); each compiled set (Ok, no warnings) is projected with syn \
                and walked in parallel with the model: one field/variant per component in order, Option/default/Box/set \
                shape, hoisted anonymous types, nothing extra, by-value graph acyclic; non-trivial = nesting>=2, or an \
                extension marker, or both OPTIONAL and DEFAULT components present; distinct by input text"
        .into();
    ctx.assumptions = vec![
        "hoisted names follow Parent+TitleCase(component) / Anonymous+Parent / Parent+ExtGroup+First (observed rule)".into(),
        "which member of a recursive cycle is boxed is not asserted; only that every cycle is broken".into(),
    ];
    // the TypeScript bindings have the same obligations (C18's clauses: members in order, `?`
    // exactly on OPTIONAL / DEFAULT members, arrays, CHOICE unions, object shapes)
    let e = |m: &ModuleSet| match eval(m, "C02") {
        Verdict::Pass { nontrivial, mut classes } => {
            if let Some((key, what)) = crate::props::c18::ts_clause_failure(m, &["optional", "order", "object", "array", "choice", "members"]) {
                return Verdict::Fail { key: format!("ts:{key}"), finding: None, what: format!("TypeScript backend: {what}"), observed: serde_json::json!(null), nontrivial: true };
            }
            classes.push("backend:typescript (shape clauses)".into());
            Verdict::Pass { nontrivial, classes }
        }
        other => other,
    };
    let run = GenericRun {
        gcfg: gen_cfg(),
        n: tier.pick(20000, 300000),
        stream_len: 4000,
        salt: 2,
        shrink_budget: 400,
        max_violations: 4,
        eval: &e,
    };
    if let Some(p) = replay {
        let r = replay_generic(&mut ctx, &run, "c02", &p);
        let code = ctx.finish();
        return if r == 2 { 2 } else { code };
    }
    run_generic(&mut ctx, &run, "c02");
    ctx.finish()
}
