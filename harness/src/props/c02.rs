//! C02 — constructed types keep every component, in order, with the right shape.
use crate::asn::*;
use crate::comp::{self, Cfg, Outcome};
use crate::ev::{Ctx, Tier};
use crate::gen::GenCfg;
use crate::props::common::*;
use crate::structure;
use serde_json::json;

pub fn gen_cfg() -> GenCfg {
    GenCfg {
        values: false,
        ..GenCfg::default()
    }
}

fn classify(_ms: &ModuleSet, _d: &structure::Disc) -> Option<&'static str> {
    None
}

pub fn eval(ms: &ModuleSet, prefix: &str) -> Verdict {
    let text = print(ms);
    let out = comp::compile_rasn1(&text, &Cfg::default());
    let c = match &out {
        Outcome::Ok(c) => c,
        Outcome::Err(_) => return Verdict::Skip("compile_err"),
        Outcome::Panic(_) => return Verdict::Skip("panic"),
    };
    if !c.warnings.is_empty() {
        return Verdict::Skip("warnings");
    }
    let rmods = match crate::proj::project(&c.generated) {
        Ok(r) => r,
        Err(e) => {
            return Verdict::Fail {
                key: "syn".into(),
                finding: None,
                what: format!("generated text does not parse: {e}"),
                observed: json!(e),
                nontrivial: true,
            }
        }
    };
    let feats = features(ms);
    let nontrivial = feats.contains("nesting>=2")
        || feats.contains("extension_marker")
        || (feats.contains("optional") && feats.contains("default"));
    let discs: Vec<structure::Disc> = structure::check_set(ms, &rmods)
        .into_iter()
        .filter(|d| d.clause.starts_with(prefix))
        .collect();
    match discs.first() {
        None => Verdict::Pass {
            nontrivial,
            classes: feats.iter().map(|s| s.to_string()).collect(),
        },
        Some(d) => Verdict::Fail {
            key: d.clause.to_string(),
            finding: classify(ms, d),
            what: format!("{} at {}: {}", d.clause, d.at, d.detail),
            observed: json!(discs.iter().take(5).map(|d| format!("{} at {}: {}", d.clause, d.at, d.detail)).collect::<Vec<_>>()),
            nontrivial,
        },
    }
}


// ---------------------------------------------------------------------------------------
// components typed by a class field (`ZC-CLASS.&id`): the linker rewrites the types that hold
// one (resolve_class_reference). The rewritten types must keep their shape: compared with the
// same module in which the field's type is written out (INTEGER), every struct / enum has the
// same kind marks (set, choice, delegate), the same members in the same order with the same
// Option / default shape, and the same hoisted types.

#[derive(Clone, Debug, serde::Serialize, serde::Deserialize)]
pub struct ClsShape {
    /// 0 top-level type holds the field; 1 an anonymous sibling of the field; 2 an anonymous
    /// alternative of a CHOICE holds it; 3 the element of SEQUENCE OF / SET OF holds it
    place: u8,
    /// the holder (or the sibling) is a SET
    set: bool,
    /// the outer type is a SET (places 1, 3: SET OF)
    outer_set: bool,
    field_at: usize,
    n: usize,
    optional_mask: u8,
}

fn cls_shape_text(c: &ClsShape, with_field: bool) -> String {
    let fty = if with_field { "ZC-CLASS.&id" } else { "INTEGER" };
    let kw = |set: bool| if set { "SET" } else { "SEQUENCE" };
    let comps = |field: bool| -> String {
        (0..c.n)
            .map(|k| {
                let ty = if field && k == c.field_at % c.n { fty } else { ["BOOLEAN", "NULL", "OCTET STRING", "IA5String"][k % 4] };
                format!("f{k} {ty}{}", if c.optional_mask >> k & 1 == 1 { " OPTIONAL" } else { "" })
            })
            .collect::<Vec<_>>()
            .join(", ")
    };
    match c.place % 4 {
        0 => format!("Holder ::= {} {{ {} }}", kw(c.set), comps(true)),
        1 => format!("Holder ::= {} {{ {}, sibling {} {{ {} }} }}", kw(c.outer_set), comps(true), kw(c.set), comps(false)),
        2 => format!("Holder ::= CHOICE {{ one {} {{ {} }}, two BOOLEAN }}", kw(c.set), comps(true)),
        _ => format!("Holder ::= {} OF {} {{ {} }}", kw(c.outer_set), kw(c.set), comps(true)),
    }
}

fn cls_shape_module(c: &ClsShape, with_field: bool) -> String {
    format!(
        "Cls-Mod DEFINITIONS AUTOMATIC TAGS ::= BEGIN\nZC-CLASS ::= CLASS {{ &id INTEGER UNIQUE, &Type }} WITH SYNTAX {{ ID &id TYPE &Type }}\n{}\nEND\n",
        cls_shape_text(c, with_field)
    )
}

fn cls_shape_eval(c: &ClsShape) -> Result<Option<String>, String> {
    let compile = |with_field: bool| -> Result<Vec<crate::proj::RModule>, String> {
        match comp::compile_rasn1(&cls_shape_module(c, with_field), &Cfg::default()) {
            Outcome::Ok(o) if o.warnings.is_empty() => crate::proj::project(&o.generated),
            Outcome::Ok(o) => Err(format!("warnings: {}", o.warnings[0])),
            Outcome::Err(e) => Err(e),
            Outcome::Panic(p) => Err(format!("panic: {p}")),
        }
    };
    let (w, p) = (compile(true)?, compile(false)?);
    let (w, p) = (w.first().ok_or("no module")?, p.first().ok_or("no module")?);
    // kind marks and member shapes, by item name; the type of the member that holds the field is
    // left out (a class field of a SET is rendered as an open type, of a SEQUENCE as its type)
    let shape = |m: &crate::proj::RModule| -> Vec<String> {
        let marks = |a: &crate::proj::Attrs| -> String { ["set", "choice", "delegate", "enumerated", "automatic_tags"].iter().filter(|k| a.flags.contains(**k)).cloned().collect::<Vec<_>>().join(",") };
        let mut v = vec![];
        for it in &m.items {
            match it {
                crate::proj::RItem::Struct(s) => {
                    let fields: Vec<String> = s
                        .fields
                        .iter()
                        .map(|f| {
                            let holds = f.name == format!("f{}", c.field_at % c.n);
                            format!("{}:{}{}", f.name, if holds { if f.ty.starts_with("Option<") { "Option<_>" } else { "_" } } else { f.ty.as_str() }, if f.attrs.default.is_some() { " default" } else { "" })
                        })
                        .collect();
                    v.push(format!("struct {} [{}] {{ {} }}", s.name, marks(&s.attrs), fields.join("; ")));
                }
                crate::proj::RItem::Enum(e) => v.push(format!("enum {} [{}] {{ {} }}", e.name, marks(&e.attrs), e.variants.iter().map(|x| format!("{}({})", x.name, x.payload.join(","))).collect::<Vec<_>>().join("; "))),
                _ => {}
            }
        }
        v
    };
    let (sw, sp) = (shape(w), shape(p));
    if sw != sp {
        let d = sw.iter().zip(sp.iter()).find(|(a, b)| a != b).map(|(a, b)| format!("with the class field: `{a}`; with the field's type written out: `{b}`")).unwrap_or_else(|| format!("{} items against {}", sw.len(), sp.len()));
        return Ok(Some(d));
    }
    Ok(None)
}

fn classfield_leg(ctx: &mut Ctx, tier: Tier) {
    use rayon::prelude::*;
    let mut cases: Vec<ClsShape> = vec![];
    for (_p, v) in crate::ev::replay_files("C02") {
        if v["kind"] == "c02-classfield" {
            if let Ok(c) = serde_json::from_value::<ClsShape>(v["case"].clone()) {
                cases.push(c);
            }
        }
    }
    for place in 0..4u8 {
        for set in [false, true] {
            for outer_set in [false, true] {
                if (place == 0 || place == 2) && outer_set {
                    continue;
                }
                for n in 1..=3usize {
                    for field_at in 0..n {
                        for optional_mask in 0..(1u8 << n) {
                            if tier == Tier::Quick && optional_mask.count_ones() > 1 && n == 3 && field_at == 1 {
                                continue;
                            }
                            cases.push(ClsShape { place, set, outer_set, field_at, n, optional_mask });
                        }
                    }
                }
            }
        }
    }
    let results: Vec<(ClsShape, Result<Option<String>, String>)> = cases.into_par_iter().map(|c| { let r = cls_shape_eval(&c); (c, r) }).collect();
    let mut reported = 0;
    for (c, r) in results {
        match r {
            Err(_) => ctx.class("classfield:skipped (rejected / warnings)"),
            Ok(res) => {
                ctx.case(&format!("classfield:{}", cls_shape_module(&c, true)), c.set || c.outer_set || c.place > 0);
                ctx.class("leg:class-field-component-keeps-the-shape");
                ctx.class(&format!("classfield:place-{}", c.place));
                if let Some(d) = res {
                    ctx.class("fails:classfield");
                    if reported < 3 {
                        reported += 1;
                        ctx.fail(crate::ev::Failure { finding: None, what: format!("a component typed by a class field changes the shape of a type: {d}"), replay: serde_json::json!({"kind": "c02-classfield", "case": c, "sources": [{"name": "cls.asn", "text": cls_shape_module(&c, true)}], "observed": d}) });
                    }
                }
            }
        }
    }
}

pub fn run(tier: Tier, seed: u64, replay: Option<String>) -> i32 {
    let mut ctx = Ctx::new("C02", tier, seed);
    ctx.rule = "module sets from the §3 generator (types only); each compiled set (Ok, no warnings) is projected with syn \
                and walked in parallel with the model: one field/variant per component in order, Option/default/Box/set \
                shape, hoisted anonymous types, nothing extra, by-value graph acyclic; non-trivial = nesting>=2, or an \
                extension marker, or both OPTIONAL and DEFAULT components present; distinct by input text"
        .into();
    ctx.assumptions = vec![
        "hoisted names follow Parent+TitleCase(component) / Anonymous+Parent / Parent+ExtGroup+First (observed rule)".into(),
        "which member of a recursive cycle is boxed is not asserted; only that every cycle is broken".into(),
        "class-field leg: the Rust type of the member that is typed by the class field is not compared (open type in a SET, the field's type in a SEQUENCE); everything else is".into(),
    ];
    // the TypeScript bindings have the same obligations (C18's clauses: members in order, `?`
    // exactly on OPTIONAL / DEFAULT members, arrays, CHOICE unions, object shapes)
    let e = |m: &ModuleSet| match eval(m, "C02") {
        Verdict::Pass { nontrivial, mut classes } => {
            if let Some((key, what)) = crate::props::c18::ts_clause_failure(m, &["optional", "order", "object", "array", "choice", "members"]) {
                return Verdict::Fail { key: format!("ts:{key}"), finding: None, what: format!("TypeScript backend: {what}"), observed: serde_json::json!(null), nontrivial: true };
            }
            classes.push("backend:typescript (shape clauses)".into());
            Verdict::Pass { nontrivial, classes }
        }
        other => other,
    };
    let run = GenericRun {
        gcfg: gen_cfg(),
        n: tier.pick(20000, 300000),
        stream_len: 4000,
        salt: 2,
        shrink_budget: 400,
        max_violations: 4,
        eval: &e,
    };
    if let Some(p) = &replay {
        let v: serde_json::Value = serde_json::from_str(&std::fs::read_to_string(p).unwrap_or_default()).unwrap_or_default();
        if v["kind"] == "c02-classfield" {
            if let Ok(c) = serde_json::from_value::<ClsShape>(v["case"].clone()) {
                match cls_shape_eval(&c) {
                    Err(e) => ctx.inconclusive.push(e),
                    Ok(res) => {
                        ctx.case(&cls_shape_module(&c, true), true);
                        if let Some(d) = res {
                            ctx.fail(crate::ev::Failure { finding: None, what: format!("a component typed by a class field changes the shape of a type: {d}"), replay: v.clone() });
                        }
                    }
                }
            }
            return ctx.finish();
        }
    }
    if let Some(p) = replay {
        let r = replay_generic(&mut ctx, &run, "c02", &p);
        let code = ctx.finish();
        return if r == 2 { 2 } else { code };
    }
    run_generic(&mut ctx, &run, "c02");
    classfield_leg(&mut ctx, tier);
    ctx.finish()
}
