use crate::ev::Tier;

pub mod common;
pub mod c01;
pub mod c02;
pub mod c03;
pub mod c04;
pub mod c05;
pub mod c06;
pub mod c07;
pub mod c08;
pub mod c09;
pub mod c10;
pub mod c11;
pub mod c12;
pub mod c13;
pub mod c14;
pub mod c15;
pub mod c16;
pub mod c17;
pub mod c18;
pub mod c19;
pub mod c20;

pub fn dispatch(pos: &[String], tier: Tier, seed: u64, replay: Option<String>) -> i32 {
    let id = pos.first().map(|s| s.as_str()).unwrap_or("");
    match id {
        "gen" => common::debug_gen(pos),
        "probe" => common::debug_probe(pos),
        "C01" => c01::run(tier, seed, replay),
        "C02" => c02::run(tier, seed, replay),
        "C03" => c03::run(tier, seed, replay),
        "C04" => c04::run(tier, seed, replay),
        "C05" => c05::run(tier, seed, replay),
        "C06" => c06::run(tier, seed, replay),
        "C07" => c07::run(tier, seed, replay),
        "C08" => c08::run(tier, seed, replay),
        "C09" => c09::run(tier, seed, replay),
        "worker" => crate::worker::worker_main(),
        "C10" => c10::run(tier, seed, replay),
        "C11" => c11::run(tier, seed, replay),
        "C12" => c12::run(tier, seed, replay),
        "C13" => c13::run(tier, seed, replay),
        "C14" => c14::run(tier, seed, replay),
        "C15" => c15::run(tier, seed, replay),
        "C16" => c16::run(tier, seed, replay),
        "C17" => c17::run(tier, seed, replay),
        "C18" => c18::run(tier, seed, replay),
        "C19" => c19::run(tier, seed, replay),
        "C20" => c20::run(tier, seed, replay),
        "c20-child" => c20::child_main(pos),
        _ => {
            eprintln!("unknown property {id}");
            2
        }
    }
}
