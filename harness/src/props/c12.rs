//! C12 — modules compile independently of their neighbours; IMPORTS become use lines.
use crate::asn::*;
use crate::comp::{self, Cfg, Outcome};
use crate::ev::{Ctx, Driver, Failure, Tier};
use crate::src::Src;
use rayon::prelude::*;
use crate::gen::{self, GenCfg};
use crate::proj::{self, RModule};
use crate::props::common::*;
use crate::structure::{const_case, snake_case, title_case};
use serde_json::json;
use std::collections::{BTreeMap, BTreeSet};

pub fn gen_cfg() -> GenCfg {
    GenCfg {
        max_modules: 5,
        max_types: 5,
        max_values: 2,
        max_comps: 4,
        max_depth: 2,
        ..GenCfg::default()
    }
}

/// add cross-module value usage and module-qualified references on top of a generated set
pub fn enrich(ms: &mut ModuleSet) {
    let n = ms.modules.len();
    if n < 2 {
        return;
    }
    // a small non-negative INTEGER value in every module but the last
    for j in 0..n - 1 {
        let vname = format!("lim-{}", (b'a' + j as u8) as char);
        ms.modules[j].items.push(Item::Value {
            name: vname,
            ty: Ty::Integer { named: vec![], cons: vec![] },
            val: Val::Int(5 + j as i128),
        });
    }
    for i in 1..n {
        let j = i - 1;
        let vname = format!("lim-{}", (b'a' + j as u8) as char);
        let from = ms.modules[j].name.clone();
        // imported value in a constraint and as a DEFAULT
        ms.modules[i].items.push(Item::Type {
            name: format!("Lim-User{i}"),
            tag: None,
            ty: Ty::Integer {
                named: vec![],
                cons: vec![Con {
                    root: ESet::atom(Atom::Range(End::Int(0), false, End::Ref(vname.clone()), false)),
                    ext: false,
                    add: None,
                }],
            },
        });
        ms.modules[i].items.push(Item::Type {
            name: format!("Dflt-User{i}"),
            tag: None,
            ty: Ty::Sequence(Fields {
                root: vec![Comp {
                    name: "f".into(),
                    tag: None,
                    ty: Ty::Integer { named: vec![], cons: vec![] },
                    opt: Opt::Default(Val::Ident(vname.clone())),
                }],
                ext: None,
            }),
        });
        // a module-qualified reference to a type that is also imported
        let first_type = ms.modules[j].items.iter().find_map(|it| match it {
            Item::Type { name, .. } => Some(name.clone()),
            _ => None,
        });
        let mut syms = vec![vname];
        if let Some(t) = first_type {
            ms.modules[i].items.push(Item::Type {
                name: format!("Qual-User{i}"),
                tag: None,
                ty: Ty::Sequence(Fields {
                    root: vec![Comp {
                        name: "q".into(),
                        tag: None,
                        ty: Ty::Ref { module: Some(from.clone()), name: t.clone(), cons: vec![] },
                        opt: Opt::Req,
                    }],
                    ext: None,
                }),
            });
            // the same module-qualified reference in the other positions a type can take
            let q = || Ty::Ref { module: Some(from.clone()), name: t.clone(), cons: vec![] };
            ms.modules[i].items.push(Item::Type { name: format!("Qual-Of{i}"), tag: None, ty: Ty::SeqOf(OfTy { size: None, size_paren: false, etag: None, elem: Box::new(q()) }) });
            ms.modules[i].items.push(Item::Type { name: format!("Qual-Set-Of{i}"), tag: None, ty: Ty::SetOf(OfTy { size: None, size_paren: false, etag: None, elem: Box::new(q()) }) });
            ms.modules[i].items.push(Item::Type {
                name: format!("Qual-Ch{i}"),
                tag: None,
                ty: Ty::Choice(Alts { root: vec![Comp { name: "q".into(), tag: None, ty: q(), opt: Opt::Req }, Comp { name: "r".into(), tag: None, ty: Ty::Null, opt: Opt::Req }], ext: None }),
            });
            ms.modules[i].items.push(Item::Type { name: format!("Qual-Al{i}"), tag: None, ty: q() });
            ms.modules[i].items.push(Item::Type {
                name: format!("Qual-Nest{i}"),
                tag: None,
                ty: Ty::Sequence(Fields {
                    root: vec![Comp { name: "n".into(), tag: None, ty: Ty::SeqOf(OfTy { size: None, size_paren: false, etag: None, elem: Box::new(q()) }), opt: Opt::Optional }],
                    ext: None,
                }),
            });
            syms.push(t);
        }
        match ms.modules[i].imports.iter_mut().find(|im| im.from == from) {
            Some(im) => {
                for s in syms {
                    if !im.symbols.contains(&s) {
                        im.symbols.push(s);
                    }
                }
            }
            None => ms.modules[i].imports.push(Import { symbols: syms, from }),
        }
    }
}

/// a bystander module that nobody imports from declares named numbers and enumerals spelled
/// like the imported values of `enrich`: an identifier in a constraint must not be resolved in a
/// module that is neither the user's own nor one it imports from (the bystander is in no
/// import closure, so "together" and "alone" differ exactly when it leaks). `n` = number of
/// modules `enrich` saw.
fn add_bystander(ms: &mut ModuleSet, n: usize) {
    if n < 2 {
        return;
    }
    let mut by = ms.modules[0].clone();
    by.name = "Zz-Bystander".into();
    by.items.clear();
    by.imports.clear();
    for j in 0..n - 1 {
        let vname = format!("lim-{}", (b'a' + j as u8) as char);
        by.items.push(Item::Type { name: format!("Aa-Clash{j}"), tag: None, ty: Ty::Integer { named: vec![(vname.clone(), 3)], cons: vec![] } });
        by.items.push(Item::Type {
            name: format!("Zz-Clash{j}"),
            tag: None,
            ty: Ty::Enumerated(EnumDef { root: vec![(format!("zz-first{j}"), None), (vname.clone(), None)], ext: None }),
        });
    }
    // dummy references of a parameterized type are local to it: a bystander's type and value
    // spelled like them must not be taken for the actual parameters
    let raw = |text: &str, kind: &str| {
        let toks: Vec<String> = text.split_whitespace().map(|t| t.to_string()).collect();
        Item::Raw { name: toks[0].clone(), toks, kind: kind.to_string() }
    };
    ms.modules[0].items.push(raw("Zp-Wrap { ElemType , INTEGER : upper-dummy } ::= SEQUENCE { item ElemType , more SET OF ElemType , count INTEGER ( 0 .. upper-dummy ) }", "template"));
    ms.modules[0].items.push(raw("Zp-Inst ::= Zp-Wrap { BOOLEAN , 7 }", "instance"));
    ms.modules[0].items.push(raw("Zp-Rng { INTEGER : upper-dummy } ::= INTEGER ( 0 .. upper-dummy )", "template"));
    ms.modules[0].items.push(raw("Zp-RngI ::= Zp-Rng { 5 }", "instance"));
    // an enumeral is looked up in its governing type: a bystander's ENUMERATED whose name is the
    // tail of the governing type's name and which has an enumeral of the same spelling is not it
    ms.modules[0].items.push(raw("Zq-SignalColor ::= ENUMERATED { zq-red , zq-green }", "enum"));
    ms.modules[0].items.push(raw("zq-stop Zq-SignalColor ::= zq-red", "enum-value"));
    by.items.push(raw("Color ::= ENUMERATED { zq-green , zq-amber , zq-red }", "clash-enum"));
    by.items.push(raw("SignalColor ::= ENUMERATED { zq-amber , zq-red }", "clash-enum"));
    by.items.push(raw("ElemType ::= OCTET STRING", "clash-type"));
    by.items.push(raw("upper-dummy INTEGER ::= 99", "clash-value"));
    // information objects live in their own module too: the types of a bystander's class fields
    // are nobody else's imports
    by.items.push(raw("Zb-ErrCode ::= INTEGER ( 0 .. 99 )", "field-type"));
    by.items.push(raw("ZB-ERR ::= CLASS { &code Zb-ErrCode UNIQUE , &Type } WITH SYNTAX { CODE &code TYPE &Type }", "class"));
    by.items.push(raw("zb-err-one ZB-ERR ::= { CODE 1 TYPE BOOLEAN }", "object"));
    by.items.push(raw("Zb-Errors ZB-ERR ::= { zb-err-one }", "object-set"));
    ms.modules.push(by);
}

/// a value whose governing type is defined in a third module: module j holds `typed-j Wide-k ::= 7`
/// (importing Wide-k from module k), module j+1 imports the value only
fn enrich_typed_values(ms: &mut ModuleSet) {
    let n = ms.modules.len();
    if n < 3 {
        return;
    }
    let add_import = |m: &mut Module, from: &str, sym: String| match m.imports.iter_mut().find(|im| im.from == from) {
        Some(im) => {
            if !im.symbols.contains(&sym) {
                im.symbols.push(sym);
            }
        }
        None => m.imports.push(Import { symbols: vec![sym], from: from.to_string() }),
    };
    for j in 0..n - 1 {
        let i = j + 1;
        let k = (j + 2) % n;
        let wide = format!("Wide-{}", (b'a' + k as u8) as char);
        if !ms.modules[k].items.iter().any(|it| it.name() == wide) {
            ms.modules[k].items.push(Item::Type {
                name: wide.clone(),
                tag: None,
                ty: Ty::Integer { named: vec![], cons: vec![Con { root: ESet::atom(Atom::Range(End::Int(0), false, End::Int(100000), false)), ext: false, add: None }] },
            });
        }
        let (kname, jname) = (ms.modules[k].name.clone(), ms.modules[j].name.clone());
        let vname = format!("typed-{}", (b'a' + j as u8) as char);
        add_import(&mut ms.modules[j], &kname, wide.clone());
        ms.modules[j].items.push(Item::Value { name: vname.clone(), ty: Ty::Ref { module: None, name: wide, cons: vec![] }, val: Val::Int(7 + j as i128) });
        add_import(&mut ms.modules[i], &jname, vname.clone());
        ms.modules[i].items.push(Item::Type {
            name: format!("Typed-User{i}"),
            tag: None,
            ty: Ty::Integer { named: vec![], cons: vec![Con { root: ESet::atom(Atom::Range(End::Int(0), false, End::Ref(vname), false)), ext: false, add: None }] },
        });
    }
}

fn closure(ms: &ModuleSet, start: usize) -> BTreeSet<usize> {
    let by_name: BTreeMap<&str, usize> = ms.modules.iter().enumerate().map(|(i, m)| (m.name.as_str(), i)).collect();
    let mut seen = BTreeSet::new();
    let mut stack = vec![start];
    while let Some(i) = stack.pop() {
        if !seen.insert(i) {
            continue;
        }
        for im in &ms.modules[i].imports {
            if let Some(j) = by_name.get(im.from.as_str()) {
                stack.push(*j);
            }
        }
    }
    seen
}

fn block_texts(m: &RModule) -> Vec<String> {
    m.items.iter().map(|i| i.text().to_string()).collect()
}

fn compile_blocks(sources: &[String], cfg: &Cfg) -> Result<BTreeMap<String, RModule>, String> {
    match comp::compile_rasn(sources, cfg) {
        Outcome::Ok(c) => {
            let mods = proj::project(&c.generated)?;
            Ok(mods.into_iter().map(|m| (m.name.clone(), m)).collect())
        }
        Outcome::Err(e) => Err(format!("Err: {e}")),
        Outcome::Panic(p) => Err(format!("panic: {p}")),
    }
}

/// per IMPORTS clause: (module path, required symbols, allowed extras = governing types of the
/// imported values that are defined in that same module); plus, per module without a clause, the
/// governing types defined there (the compiler imports the governing type of an imported value on
/// top: it must come from the module that defines it)
#[allow(clippy::type_complexity)]
fn expected_uses(ms: &ModuleSet, m: &Module, scope: &gen::Scope) -> (Vec<(String, Vec<String>, Vec<String>)>, BTreeMap<String, Vec<String>>) {
    // governing named types of all values this module imports: (type, defining module)
    let mut governing: Vec<(String, String)> = vec![];
    for im in &m.imports {
        for s in im.symbols.iter().filter(|s| !s.starts_with(|c: char| c.is_uppercase())) {
            for fm in &ms.modules {
                for it in &fm.items {
                    if let Item::Value { name, ty: Ty::Ref { name: tn, .. }, .. } = it {
                        if name == s {
                            if let Some(d) = scope.get(tn) {
                                governing.push((title_case(tn), ms.modules[d.module].name.clone()));
                            }
                        }
                    }
                }
            }
        }
    }
    let clauses: Vec<(String, Vec<String>, Vec<String>)> = m
        .imports
        .iter()
        .map(|im| {
            let path = format!("super::{}", snake_case(&im.from));
            let req: Vec<String> = im.symbols.iter().map(|s| if s.starts_with(|c: char| c.is_uppercase()) { title_case(s) } else { const_case(s) }).collect();
            let extras: Vec<String> = governing.iter().filter(|(_, dm)| *dm == im.from).map(|(t, _)| t.clone()).collect();
            (path, req, extras)
        })
        .collect();
    let mut assoc: BTreeMap<String, Vec<String>> = BTreeMap::new();
    for (t, dm) in &governing {
        if !m.imports.iter().any(|im| im.from == *dm) && *dm != m.name {
            assoc.entry(format!("super::{}", snake_case(dm))).or_default().push(t.clone());
        }
    }
    (clauses, assoc)
}

pub fn eval(ms0: &ModuleSet) -> Verdict {
    let mut ms = ms0.clone();
    let n_orig = ms.modules.len();
    enrich(&mut ms);
    enrich_typed_values(&mut ms);
    add_bystander(&mut ms, n_orig);
    let ms = &ms;
    let cfg = Cfg::default();
    let feats = features(ms);
    let differing_defaults = ms.modules.iter().map(|m| (m.tagging, m.ext_implied)).collect::<BTreeSet<_>>().len() > 1;
    let nontrivial = ms.modules.len() >= 2 && differing_defaults && feats.contains("import");
    let sources: Vec<String> = ms.modules.iter().map(|m| print(&ModuleSet { modules: vec![m.clone()] })).collect();
    if std::env::var("C12_DUMP").is_ok() && ms.modules.len() >= 3 {
        println!("DUMP\n{}", sources.join("\n"));
    }
    let full = match compile_blocks(&sources, &cfg) {
        Ok(f) => f,
        Err(e) => {
            if std::env::var("C12_DUMP").is_ok() {
                println!("FULLERR {e}");
            }
            return Verdict::Skip("full-set-did-not-compile");
        }
    };
    let scope = gen::Scope::from_set(ms);
    // (2) import rendering
    for m in &ms.modules {
        let rname = snake_case(&m.name);
        let Some(rm) = full.get(&rname) else {
            return Verdict::Fail { key: "missing-module".into(), finding: None, what: format!("no block for module {}", m.name), observed: json!(null), nontrivial };
        };
        let uses: Vec<&str> = rm.uses().into_iter().filter(|u| u.starts_with("super::")).collect();
        let (exp, assoc) = expected_uses(ms, m, &scope);
        // use lines that belong to no IMPORTS clause: only the governing type of an imported value,
        // from the module that defines it
        let mut clause_uses: Vec<&str> = vec![];
        for u in &uses {
            let path = u.split("::{").next().unwrap_or(u);
            if exp.iter().any(|(p, _, _)| p == path) {
                clause_uses.push(u);
                continue;
            }
            let list: Vec<String> = u.split("::{").nth(1).unwrap_or("").trim_end_matches('}').split(',').filter(|s| !s.is_empty()).map(|s| s.to_string()).collect();
            let allowed = assoc.get(path).cloned().unwrap_or_default();
            if list.is_empty() || list.iter().any(|s| !allowed.contains(s)) {
                return Verdict::Fail {
                    key: "use-extra-line".into(),
                    finding: None,
                    what: format!("module {}: `use {u}` belongs to no IMPORTS clause (governing types of imported values defined in that module: {allowed:?})", m.name),
                    observed: json!(uses),
                    nontrivial,
                };
            }
        }
        let uses = clause_uses;
        if uses.len() != exp.len() {
            return Verdict::Fail {
                key: "use-count".into(),
                finding: None,
                what: format!("module {}: {} `use super::` lines for {} IMPORTS clauses: {uses:?}", m.name, uses.len(), exp.len()),
                observed: json!(uses),
                nontrivial,
            };
        }
        for (u, (path, req, extras)) in uses.iter().zip(exp.iter()) {
            let Some(list) = u.strip_prefix(&format!("{path}::{{")).and_then(|r| r.strip_suffix('}')) else {
                return Verdict::Fail { key: "use-path".into(), finding: None, what: format!("module {}: `use {u}` does not import from {path}", m.name), observed: json!(uses), nontrivial };
            };
            let got: Vec<String> = list.split(',').filter(|s| !s.is_empty()).map(|s| s.to_string()).collect();
            let missing: Vec<&String> = req.iter().filter(|r| !got.contains(r)).collect();
            let unexpected: Vec<&String> = got.iter().filter(|g| !req.contains(g) && !extras.contains(g)).collect();
            if !missing.is_empty() || !unexpected.is_empty() {
                return Verdict::Fail {
                    key: "use-symbols".into(),
                    finding: None,
                    what: format!("module {}: `use {u}`: missing {missing:?}, unexpected {unexpected:?} (IMPORTS {req:?}; governing types defined in that module: {extras:?})", m.name),
                    observed: json!(uses),
                    nontrivial,
                };
            }
        }
        // module-qualified references resolve to the sibling module, in every position
        for it in &m.items {
            let Item::Type { name, ty, .. } = it else { continue };
            let rn = title_case(name);
            let path = |qm: &str, qn: &str| format!("super::{}::{}", snake_case(qm), title_case(qn));
            let strip = |t: &str| t.trim_start_matches("Option<").trim_start_matches("Box<").trim_end_matches('>').to_string();
            let (want, got): (Option<String>, Option<String>) = match ty {
                Ty::Sequence(f) => match f.root.first() {
                    Some(Comp { ty: Ty::Ref { module: Some(qm), name: qn, .. }, .. }) => (Some(path(qm, qn)), rm.find_struct(&rn).and_then(|s| s.fields.first().map(|fl| strip(&fl.ty)))),
                    Some(Comp { ty: Ty::SeqOf(o), .. }) => match &*o.elem {
                        Ty::Ref { module: Some(qm), name: qn, .. } => (Some(format!("SequenceOf<{}", path(qm, qn))), rm.find_struct(&rn).and_then(|s| s.fields.first().map(|fl| strip(&fl.ty)))),
                        _ => (None, None),
                    },
                    _ => (None, None),
                },
                Ty::Choice(a) => match a.root.first() {
                    Some(Comp { ty: Ty::Ref { module: Some(qm), name: qn, .. }, .. }) => (Some(path(qm, qn)), rm.find_enum(&rn).and_then(|e| e.variants.first().and_then(|v| v.payload.first().map(|p| strip(p))))),
                    _ => (None, None),
                },
                Ty::SeqOf(o) | Ty::SetOf(o) => match &*o.elem {
                    Ty::Ref { module: Some(qm), name: qn, .. } => {
                        let w = if matches!(ty, Ty::SeqOf(_)) { "SequenceOf" } else { "SetOf" };
                        (Some(format!("{w}<{}", path(qm, qn))), rm.find_struct(&rn).and_then(|s| s.fields.first().map(|fl| strip(&fl.ty))))
                    }
                    _ => (None, None),
                },
                Ty::Ref { module: Some(qm), name: qn, .. } => (Some(path(qm, qn)), rm.find_struct(&rn).and_then(|s| s.fields.first().map(|fl| strip(&fl.ty)))),
                _ => (None, None),
            };
            if let Some(want) = want {
                if got.as_deref() != Some(want.as_str()) {
                    return Verdict::Fail {
                        key: "qualified".into(),
                        finding: None,
                        what: format!("module {}: the module-qualified reference in {name} is rendered as {got:?}, expected `{want}` (modulo Option/Box)", m.name),
                        observed: json!(null),
                        nontrivial,
                    };
                }
            }
        }
    }
    // (1) every module alone with its import closure, in closure order and reversed, as
    //     separate literals and as one literal
    for (i, m) in ms.modules.iter().enumerate() {
        let cl: Vec<usize> = closure(ms, i).into_iter().collect();
        if cl.len() == ms.modules.len() && ms.modules.len() > 1 {
            // closure is the whole set: still exercise another order
        }
        let rname = snake_case(&m.name);
        let base = block_texts(&full[&rname]);
        let mut orders: Vec<Vec<usize>> = vec![cl.clone()];
        let mut r = cl.clone();
        r.reverse();
        orders.push(r);
        let mut rot = cl.clone();
        rot.rotate_left(cl.len() / 2);
        orders.push(rot);
        for ord in orders {
            let sep: Vec<String> = ord.iter().map(|k| sources[*k].clone()).collect();
            let one = vec![sep.join("\n")];
            for (how, srcs) in [("separate", sep), ("one-literal", one)] {
                match compile_blocks(&srcs, &cfg) {
                    Err(e) => {
                        return Verdict::Fail {
                            key: "closure-status".into(),
                            finding: None,
                            what: format!("module {} compiles in the full set but its import closure {ord:?} ({how}) gives {e}", m.name),
                            observed: json!({"order": ord, "how": how}),
                            nontrivial,
                        }
                    }
                    Ok(blocks) => {
                        let Some(b) = blocks.get(&rname) else {
                            return Verdict::Fail { key: "closure-missing".into(), finding: None, what: format!("module {} missing from closure compilation", m.name), observed: json!(ord), nontrivial };
                        };
                        let t = block_texts(b);
                        if t != base {
                            let d = base.iter().zip(t.iter()).find(|(x, y)| x != y);
                            return Verdict::Fail {
                                key: "block-differs".into(),
                                finding: None,
                                what: format!(
                                    "module {}: bindings differ between the full set and its import closure {ord:?} ({how}): {}",
                                    m.name,
                                    match d {
                                        Some((x, y)) => format!("\n  full   : {}\n  closure: {}", x.chars().take(300).collect::<String>(), y.chars().take(300).collect::<String>()),
                                        None => format!("{} vs {} items", base.len(), t.len()),
                                    }
                                ),
                                observed: json!({"order": ord, "how": how}),
                                nontrivial,
                            };
                        }
                    }
                }
            }
        }
    }
    // the TypeScript backend: every imported symbol becomes `import X = Sibling.X;` in the
    // importing namespace (C18's clause; also with an object class first / in the middle / last
    // in the IMPORTS list, which has no TypeScript counterpart and must not disturb the others)
    if let Some(what) = crate::props::c18::ts_import_failure(ms0) {
        return Verdict::Fail { key: "ts:import".into(), finding: None, what: format!("TypeScript backend: {what}"), observed: json!(null), nontrivial: true };
    }
    Verdict::Pass { nontrivial, classes: feats.iter().map(|s| s.to_string()).collect() }
}

// ---------------------------------------------------------------------------------------
// "tagging defaults never leak": components that are *copied* into a type of another module
// (COMPONENTS OF an imported type, an instance of an imported parameterized type) keep the
// tagging they have where they were written. Oracle: the copied fields carry the same tag
// attributes in the using module as in a type built the same way in their home module.

#[derive(Clone, Debug, serde::Serialize, serde::Deserialize)]
struct TagHome {
    d_home: usize,
    d_away: usize,
    /// (tag class 0 context / 1 application / 2 private, number, keyword 0 none / 1 IMPLICIT / 2 EXPLICIT, type index, OPTIONAL)
    members: Vec<(u8, u8, u8, u8, bool)>,
    /// the template's members carry no tags (automatic tagging, where it applies, is the
    /// template's module's business)
    #[serde(default)]
    untagged_template: bool,
    /// EXTENSIBILITY IMPLIED in the home / in the using module
    #[serde(default)]
    ext_home: bool,
    #[serde(default)]
    ext_away: bool,
}

const TAG_DEFAULTS: [&str; 4] = ["", "EXPLICIT TAGS", "IMPLICIT TAGS", "AUTOMATIC TAGS"];
const TH_TYPES: [&str; 5] = ["INTEGER", "BOOLEAN", "OCTET STRING", "CHOICE { c1 INTEGER, c2 BOOLEAN }", "SEQUENCE { s1 INTEGER }"];

fn th_text(c: &TagHome) -> Vec<String> {
    let comp = |i: usize, m: &(u8, u8, u8, u8, bool), ty: &str| {
        format!(
            "m{i} [{}{}] {}{ty}{}",
            ["", "APPLICATION ", "PRIVATE "][m.0 as usize % 3],
            m.1,
            ["", "IMPLICIT ", "EXPLICIT "][m.2 as usize % 3],
            if m.4 { " OPTIONAL" } else { "" }
        )
    };
    let base: Vec<String> = c.members.iter().enumerate().map(|(i, m)| comp(i, m, TH_TYPES[m.3 as usize % TH_TYPES.len()])).collect();
    // the template's members: the first is of the parameter type
    let tmpl: Vec<String> = c
        .members
        .iter()
        .enumerate()
        .map(|(i, m)| {
            let ty = if i == 0 { "Tp" } else { TH_TYPES[m.3 as usize % TH_TYPES.len()] };
            if c.untagged_template {
                format!("m{i} {ty}{}", if m.4 { " OPTIONAL" } else { "" })
            } else {
                comp(i, m, ty)
            }
        })
        .collect();
    let defs = format!(
        "Tg-Defs DEFINITIONS {}{} ::= BEGIN\nBase ::= SEQUENCE {{ {} }}\nTmpl {{Tp}} ::= SEQUENCE {{ {} }}\nHome-Comp ::= SEQUENCE {{ lead [30] NULL, COMPONENTS OF Base }}\nHome-Inst ::= Tmpl {{ INTEGER }}\nEND\n",
        TAG_DEFAULTS[c.d_home % 4],
        if c.ext_home { " EXTENSIBILITY IMPLIED" } else { "" },
        base.join(", "),
        tmpl.join(", ")
    );
    let user = format!(
        "Tg-User DEFINITIONS {}{} ::= BEGIN\nIMPORTS Base, Tmpl FROM Tg-Defs;\nAway-Comp ::= SEQUENCE {{ lead [30] NULL, COMPONENTS OF Base }}\nAway-Inst ::= Tmpl {{ INTEGER }}\nEND\n",
        TAG_DEFAULTS[c.d_away % 4],
        if c.ext_away { " EXTENSIBILITY IMPLIED" } else { "" }
    );
    vec![defs, user]
}

/// None = holds / outside the premise; Some(detail) = a copied field's tagging differs
fn th_eval(c: &TagHome) -> Result<Option<String>, String> {
    let srcs = th_text(c);
    let blocks = compile_blocks(&srcs, &Cfg::default())?;
    let home = blocks.get("tg_defs").ok_or("no tg_defs block")?;
    let away = blocks.get("tg_user").ok_or("no tg_user block")?;
    for (h, a) in [("HomeComp", "AwayComp"), ("HomeInst", "AwayInst")] {
        let (Some(hs), Some(as_)) = (home.find_struct(h), away.find_struct(a)) else {
            return Err(format!("{h} / {a} not generated"));
        };
        // an instance is the template's text with the arguments put in: the defaults of the
        // template's module decide whether it is tagged automatically and whether it is extensible
        if h == "HomeInst" {
            for flag in ["automatic_tags"] {
                if hs.attrs.flags.contains(flag) != as_.attrs.flags.contains(flag) {
                    return Ok(Some(format!(
                        "[instance-defaults] {a} (instantiated in a module with `{}`) has {flag} = {}, the same instance made in the template's module (`{}`) has {}",
                        TAG_DEFAULTS[c.d_away % 4],
                        as_.attrs.flags.contains(flag),
                        TAG_DEFAULTS[c.d_home % 4],
                        hs.attrs.flags.contains(flag)
                    )));
                }
            }
            if hs.attrs.non_exhaustive != as_.attrs.non_exhaustive {
                return Ok(Some(format!(
                    "[instance-defaults] {a} is {}extensible, the same instance made in the template's module (EXTENSIBILITY IMPLIED: {}, using module: {}) is {}extensible",
                    if as_.attrs.non_exhaustive { "" } else { "not " },
                    c.ext_home,
                    c.ext_away,
                    if hs.attrs.non_exhaustive { "" } else { "not " }
                )));
            }
        }
        for hf in &hs.fields {
            if hf.name == "lead" {
                continue;
            }
            let Some(af) = as_.fields.iter().find(|f| f.name == hf.name) else {
                return Ok(Some(format!("{a} lacks the copied field {} that {h} has", hf.name)));
            };
            if af.attrs.tag != hf.attrs.tag {
                return Ok(Some(format!(
                    "field {} copied into {a} (module default `{}`) carries {:?}, in its home module (default `{}`) the same copy in {h} carries {:?}",
                    hf.name,
                    TAG_DEFAULTS[c.d_away % 4],
                    af.attrs.tag,
                    TAG_DEFAULTS[c.d_home % 4],
                    hf.attrs.tag
                )));
            }
        }
    }
    Ok(None)
}

fn th_leg(ctx: &mut Ctx, tier: Tier, seed: u64) {
    let mut cases: Vec<TagHome> = vec![];
    for (_p, v) in crate::ev::replay_files("C12") {
        if v["kind"] == "c12-taghome" {
            if let Ok(c) = serde_json::from_value::<TagHome>(v["case"].clone()) {
                cases.push(c);
            }
        }
    }
    let n = tier.pick(600, 6000);
    let mut drv = Driver::new(seed, 1212, 40);
    for t in drv.draw(n) {
        let s = t.current();
        let mut src = Src::new(&s);
        let d_home = src.pick(4);
        let d_away = src.pick(4);
        let k = 1 + src.pick(4);
        let mut members = vec![];
        for i in 0..k {
            // distinct tag numbers so that the SEQUENCE is valid whatever the tagging
            members.push((src.pick(3) as u8, (i * 3 + src.pick(3)) as u8, src.weighted(&[6, 2, 2]) as u8, src.pick(TH_TYPES.len()) as u8, src.chance(25)));
        }
        let untagged_template = src.chance(35);
        let ext_home = src.chance(30);
        let ext_away = src.chance(30);
        cases.push(TagHome { d_home, d_away, members, untagged_template, ext_home, ext_away });
    }
    let results: Vec<(TagHome, Result<Option<String>, String>)> = cases.into_par_iter().map(|c| { let r = th_eval(&c); (c, r) }).collect();
    let mut reported = 0;
    for (c, r) in results {
        match r {
            Err(_) => ctx.class("taghome:skipped (did not compile / not generated)"),
            Ok(res) => {
                let text = th_text(&c).join("\n");
                ctx.case(&format!("taghome:{text}"), c.d_home % 4 != c.d_away % 4);
                ctx.class("leg:copied-components-keep-home-tagging");
                ctx.class(&format!("taghome:home={} away={}", TAG_DEFAULTS[c.d_home % 4], TAG_DEFAULTS[c.d_away % 4]));
                if let Some(d) = res {
                    ctx.class("fails:taghome");
                    let listed = d.starts_with("[instance-defaults]") && ctx.is_known("F-instance-defaults");
                    if listed || reported < 3 {
                        if !listed {
                            reported += 1;
                        }
                        // smallest failing prefix of the member list
                        let mut small = c.clone();
                        while !listed && small.members.len() > 1 {
                            let mut t2 = small.clone();
                            t2.members.pop();
                            if matches!(th_eval(&t2), Ok(Some(_))) {
                                small = t2;
                            } else {
                                break;
                            }
                        }
                        let d = match th_eval(&small) { Ok(Some(d2)) => d2, _ => d };
                        ctx.fail(Failure {
                            finding: if d.starts_with("[instance-defaults]") { Some("F-instance-defaults") } else { None },
                            what: format!("tagging default leaks into copied components: {d}"),
                            replay: json!({"kind": "c12-taghome", "case": small, "sources": th_text(&small).iter().enumerate().map(|(i, t)| json!({"name": format!("m{i}.asn"), "text": t})).collect::<Vec<_>>(), "observed": d}),
                        });
                    }
                }
            }
        }
    }
}

pub fn run(tier: Tier, seed: u64, replay: Option<String>) -> i32 {
    let mut ctx = Ctx::new("C12", tier, seed);
    ctx.rule = "sets of 1..5 generated modules with independent tagging/extensibility defaults and arbitrary (also cyclic) type import graphs, enriched with \
                imported values used in a constraint and a DEFAULT and with module-qualified references; each module is recompiled with only its import \
                closure in three orders, as separate literals and as one literal; oracle: its `pub mod` block is token-identical to the block from the full \
                compilation, each IMPORTS clause is one `use super::<module>::{..}` with exactly the imported symbols (types title case, values upper snake \
                case; governing types of imported values may be added), Module.Type renders as super::module::Type; non-trivial = >=2 modules with different \
                defaults and an import; distinct by input text"
        .into();
    ctx.assumptions = vec!["type names made only of capitals are not generated here (class-name heuristic: finding F-allcaps is C10's)".into()];
    let e = |m: &ModuleSet| eval(m);
    let run = GenericRun {
        gcfg: gen_cfg(),
        n: tier.pick(4000, 40000),
        stream_len: 3000,
        salt: 12,
        shrink_budget: 300,
        max_violations: 3,
        eval: &e,
    };
    if let Some(p) = &replay {
        let v: serde_json::Value = serde_json::from_str(&std::fs::read_to_string(p).unwrap_or_default()).unwrap_or_default();
        if v["kind"] == "c12-taghome" {
            if let Ok(c) = serde_json::from_value::<TagHome>(v["case"].clone()) {
                match th_eval(&c) {
                    Err(e) => ctx.inconclusive.push(e),
                    Ok(res) => {
                        ctx.case(&th_text(&c).join("\n"), true);
                        if let Some(d) = res {
                            ctx.fail(Failure { finding: if d.starts_with("[instance-defaults]") { Some("F-instance-defaults") } else { None }, what: format!("tagging default leaks into copied components: {d}"), replay: v.clone() });
                        }
                    }
                }
            }
            return ctx.finish();
        }
    }
    if let Some(p) = replay {
        let r = replay_generic(&mut ctx, &run, "c12", &p);
        let code = ctx.finish();
        return if r == 2 { 2 } else { code };
    }
    run_generic(&mut ctx, &run, "c12");
    th_leg(&mut ctx, tier, seed);
    ctx.finish()
}
