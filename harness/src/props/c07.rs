//! C07 — value assignments and DEFAULTs denote the source abstract value.
//!
//! Behavioural oracle: every case is a small module (a subject type, optionally reached through a
//! chain of type references, a literal value assignment, a chain of value references, and a holder
//! SEQUENCE with DEFAULTs). The bindings are compiled with rustc against rasn, every constant and
//! every `*_default()` function is DER-encoded by the compiled bindings, and the harness decodes the
//! bytes under the model's type back into an abstract value that must equal the model's value.
use crate::asn::StrKind;
use crate::comp::{self, Cfg, Outcome};
use crate::der::{self, Tlv};
use crate::ev::{Ctx, Driver, Failure, Tier};
use crate::host::Host;
use crate::src::Src;
use rayon::prelude::*;
use serde::{Deserialize, Serialize};
use serde_json::{json, Value};
use std::collections::BTreeMap;

// ------------------------------------------------------------------------------------------
// model

#[derive(Clone, Debug, Serialize, Deserialize, PartialEq)]
pub enum K {
    Int { named: Vec<(String, i128)>, range: Option<(i128, i128)> },
    Bool,
    Null,
    Str(StrKind),
    Bits { named: Vec<(String, u32)> },
    Octets,
    Oid,
    /// (identifier, explicit number) of root items, then of additions (None = no marker)
    Enum { root: Vec<(String, Option<i128>)>, ext: Option<Vec<(String, i128)>> },
    Choice(Vec<(String, usize)>),
    /// (identifier, type, OPTIONAL)
    Seq(Vec<(String, usize, bool)>),
    SeqOf(usize),
}

#[derive(Clone, Debug, Serialize, Deserialize, PartialEq)]
pub struct TyDef {
    pub name: String,
    pub k: K,
    /// written in place (builtin notation) instead of as a named assignment
    pub inline: bool,
    /// a `K::Seq` written as SET: its values may list the components in any order
    #[serde(default)]
    pub set: bool,
    /// DEFAULT values of the components of a `K::Seq` (parallel to the components; empty = none)
    #[serde(default)]
    pub defaults: Vec<Option<Lit>>,
}

#[derive(Clone, Debug, Serialize, Deserialize, PartialEq)]
pub enum AV {
    Int(i128),
    Bool(bool),
    Null,
    Str(String),
    Bits(Vec<bool>),
    Octets(Vec<u8>),
    Oid(Vec<u64>),
    Enum(i128),
    Choice(usize, Box<AV>),
    Seq(Vec<Option<AV>>),
    SeqOf(Vec<AV>),
}

#[derive(Clone, Debug, Serialize, Deserialize, PartialEq)]
pub struct Lit {
    pub av: AV,
    pub text: String,
    /// notation classes used inside the literal (for coverage classes / non-triviality)
    pub forms: Vec<String>,
}

#[derive(Clone, Debug, Serialize, Deserialize, PartialEq)]
pub struct AuxVal {
    pub name: String,
    pub ty: usize,
    pub lit: Lit,
}

#[derive(Clone, Debug, Serialize, Deserialize, PartialEq)]
pub struct Case {
    pub types: Vec<TyDef>,
    pub subject: usize,
    /// Al1 ::= <subject>, Al2 ::= Al1, ...
    pub alias_depth: usize,
    pub aux: Vec<AuxVal>,
    pub v0: Lit,
    /// v1 G ::= v0, v2 G ::= v1, ...
    pub chain: usize,
    /// Holder ::= SEQUENCE { f G DEFAULT <dflt>, g G DEFAULT v<chain> }
    pub holder: bool,
    pub dflt: Lit,
    #[serde(default)]
    pub excluded_nested_bmp: usize,
    /// decoy types that reuse the enumerals / named numbers / named bits of the case's types
    /// with other numbers: 1 = sorted before every other definition (`Aa-Decoy<i>`),
    /// 2 = after (`Zz-Decoy<i>`), 3 = both. Resolution must go by the governing type.
    #[serde(default)]
    pub decoys: u8,
}

struct G<'a, 'b> {
    src: &'a mut Src<'b>,
    types: Vec<TyDef>,
    aux: Vec<AuxVal>,
    n_ident: usize,
    shared_names: bool,
    /// a SEQUENCE subject is generated in the shape whose values the bindings can express
    /// today (>= 2 members, none OPTIONAL, governed directly; see the C01 findings on
    /// SEQUENCE values), so that SEQUENCE value denotation is observed and not only skipped
    seq_friendly: bool,
    cfg: GenOpts,
    depth_now: usize,
    excluded_nested_bmp: usize,
}

#[derive(Clone, Copy, Debug)]
pub struct GenOpts {
    /// `ccitt` and the letters a..z are valid X.660 name forms the compiler does not know (see findings)
    pub unknown_wellknown: bool,
    /// OCTET STRING literals whose bstring/hstring is not a whole number of octets
    pub octet_padding: bool,
    /// BMPString / TeletexString below the subject type (findings F-bmp-value, F-teletex-value are
    /// classified on the subject type only)
    pub nested_bmp_teletex: bool,
}

impl Default for GenOpts {
    fn default() -> Self {
        GenOpts { unknown_wellknown: false, octet_padding: false, nested_bmp_teletex: false }
    }
}

const SIMPLE_W: [u32; 8] = [18, 3, 2, 14, 14, 8, 12, 6];

fn pow2(k: u32) -> i128 {
    1i128 << k
}

impl<'a, 'b> G<'a, 'b> {
    fn ident(&mut self, prefix: &str) -> String {
        if self.shared_names && self.src.chance(60) {
            // names shared between types: resolution must go by the governing type
            return format!("{prefix}{}", self.src.pick(3));
        }
        self.n_ident += 1;
        let n = self.n_ident;
        match self.src.pick(4) {
            0 | 1 => format!("{prefix}{n}"),
            2 => format!("{prefix}-{n}x"),
            _ => format!("{prefix}{n}-up"),
        }
    }

    fn int_value(&mut self, lo: i128, hi: i128) -> i128 {
        let cands: Vec<i128> = {
            let mut c = vec![0, 1, -1, lo, hi, lo.saturating_add(1), hi.saturating_sub(1)];
            for k in [7u32, 8, 15, 16, 31, 32, 63, 64, 100, 126] {
                for d in [-1i128, 0, 1] {
                    c.push(pow2(k) + d);
                    c.push(-pow2(k) + d);
                }
            }
            c.push(i128::MAX);
            c.push(i128::MIN);
            c.into_iter().filter(|v| *v >= lo && *v <= hi).collect()
        };
        match self.src.weighted(&[3, 4, 3]) {
            0 => {
                let a = lo.max(-20);
                let b = hi.min(20);
                if a <= b {
                    self.src.range(a, b)
                } else {
                    self.src.range(lo, hi)
                }
            }
            1 if !cands.is_empty() => *self.src.choose(&cands),
            _ => {
                // random magnitude of random bit length
                let bits = self.src.pick(127) as u32 + 1;
                let m = self.src.range(0, pow2(bits.min(126)) - 1);
                let v = if self.src.chance(50) { -m - 1 } else { m };
                v.clamp(lo, hi)
            }
        }
    }

    fn simple_kind(&mut self, which: usize) -> K {
        match which {
            0 => {
                let range = match self.src.weighted(&[6, 2, 2, 1, 1, 1, 1, 1, 1, 2]) {
                    0 => None,
                    1 => Some((-128, 127)),
                    2 => Some((0, 255)),
                    3 => Some((-32768, 32767)),
                    4 => Some((0, 65535)),
                    5 => Some((-pow2(31), pow2(31) - 1)),
                    6 => Some((0, pow2(32) - 1)),
                    7 => Some((-pow2(63), pow2(63) - 1)),
                    8 => Some((0, pow2(64) - 1)),
                    _ => {
                        let a = self.int_value(i128::MIN / 2, i128::MAX / 2);
                        let w = self.int_value(0, i128::MAX / 4);
                        Some((a, a.saturating_add(w)))
                    }
                };
                let (lo, hi) = range.unwrap_or((i128::MIN, i128::MAX));
                let mut named = vec![];
                if self.src.chance(40) {
                    for _ in 0..self.src.pick(4) + 1 {
                        let id = self.ident("n");
                        let v = self.int_value(lo, hi);
                        if !named.iter().any(|(i, x): &(String, i128)| *i == id || *x == v) {
                            named.push((id, v));
                        }
                    }
                }
                K::Int { named, range }
            }
            1 => K::Bool,
            2 => K::Null,
            3 => {
                let mut kind = *self.src.choose(&StrKind::ALL);
                if self.depth_now > 0 && !self.cfg.nested_bmp_teletex && matches!(kind, StrKind::Bmp | StrKind::Teletex) {
                    self.excluded_nested_bmp += 1;
                    kind = StrKind::Utf8;
                }
                K::Str(kind)
            }
            4 => {
                let mut named = vec![];
                if self.src.chance(50) {
                    for _ in 0..self.src.pick(16) + 1 {
                        let id = self.ident("b");
                        let pos = if self.src.chance(70) { self.src.pick(12) as u32 } else { self.src.pick(48) as u32 };
                        if !named.iter().any(|(i, p): &(String, u32)| *i == id || *p == pos) {
                            named.push((id, pos));
                        }
                    }
                }
                K::Bits { named }
            }
            5 => K::Octets,
            6 => K::Oid,
            _ => {
                let mut root: Vec<(String, Option<i128>)> = vec![];
                let explicit = self.src.pick(3); // 0 none, 1 some, 2 all
                for _ in 0..self.src.pick(6) + 1 {
                    let id = self.ident("e");
                    if root.iter().any(|(i, _)| *i == id) {
                        continue;
                    }
                    let num = if explicit == 2 || (explicit == 1 && self.src.chance(50)) {
                        let v = if self.src.chance(80) { self.src.range(0, 12) } else { self.src.range(-1000, 100000) };
                        if root.iter().any(|(_, n)| *n == Some(v)) {
                            None
                        } else {
                            Some(v)
                        }
                    } else {
                        None
                    };
                    root.push((id, num));
                }
                let ext = if self.src.chance(30) {
                    let nums = enum_numbers(&root);
                    let mut next = nums.iter().copied().max().unwrap_or(0) + 1;
                    let mut adds = vec![];
                    for _ in 0..self.src.pick(3) {
                        let id = self.ident("e");
                        if root.iter().any(|(i, _)| *i == id) || adds.iter().any(|(i, _): &(String, i128)| *i == id) {
                            continue;
                        }
                        next += self.src.pick(3) as i128;
                        adds.push((id, next));
                        next += 1;
                    }
                    Some(adds)
                } else {
                    None
                };
                K::Enum { root, ext }
            }
        }
    }

    fn can_inline(k: &K) -> bool {
        match k {
            K::Int { named, .. } => named.is_empty(),
            K::Bool | K::Null | K::Str(_) | K::Octets | K::Oid => true,
            K::Bits { named } => named.is_empty(),
            _ => false,
        }
    }

    /// a new type definition; returns its index
    fn gen_type(&mut self, depth: usize, allow_inline: bool) -> usize {
        let ws: [u32; 11] = if depth >= 2 {
            [18, 3, 2, 14, 14, 8, 12, 6, 0, 0, 0]
        } else {
            [SIMPLE_W[0], SIMPLE_W[1], SIMPLE_W[2], SIMPLE_W[3], SIMPLE_W[4], SIMPLE_W[5], SIMPLE_W[6], SIMPLE_W[7], 9, 10, 7]
        };
        let which = self.src.weighted(&ws);
        self.depth_now = depth;
        let mut pending_defaults: Vec<Option<Lit>> = vec![];
        let mut pending_set = false;
        let k = match which {
            0..=7 => self.simple_kind(which),
            8 => {
                let n = self.src.pick(4) + 1;
                let mut alts = vec![];
                for _ in 0..n {
                    let id = self.ident("c");
                    if alts.iter().any(|(i, _): &(String, usize)| *i == id) {
                        continue;
                    }
                    let t = self.gen_type(depth + 1, true);
                    alts.push((id, t));
                }
                K::Choice(alts)
            }
            9 => {
                let friendly = depth == 0 && self.seq_friendly;
                let n = if friendly || self.src.chance(85) { 2 + self.src.pick(3) } else { self.src.pick(2) };
                let mut comps = vec![];
                for _ in 0..n {
                    let id = self.ident("f");
                    if comps.iter().any(|(i, _, _): &(String, usize, bool)| *i == id) {
                        continue;
                    }
                    let t = self.gen_type(depth + 1, true);
                    let optional = self.src.chance(12) && !friendly;
                    comps.push((id, t, optional));
                }
                // DEFAULT on members of simple types; SET instead of SEQUENCE
                let mut defaults: Vec<Option<Lit>> = vec![None; comps.len()];
                if self.src.chance(40) {
                    for (i, (_, t, optional)) in comps.iter().enumerate() {
                        let simple = matches!(
                            self.types[*t].k,
                            K::Int { .. } | K::Bool | K::Enum { .. } | K::Octets | K::Str(StrKind::Utf8 | StrKind::Ia5 | StrKind::Printable | StrKind::Numeric | StrKind::Visible)
                        );
                        if simple && !*optional && self.src.chance(45) {
                            defaults[i] = Some(self.gen_value(*t, depth + 1));
                        }
                    }
                }
                pending_defaults = defaults;
                // SET: not the shapes of C01's findings F-empty-set (no components) and
                // F-set-field-constraint (a member with a constraint written in place)
                let constrained_inline = comps.iter().any(|(_, t, _)| self.types[*t].inline && matches!(self.types[*t].k, K::Int { range: Some(_), .. }));
                pending_set = self.src.chance(35) && !comps.is_empty() && !constrained_inline;
                K::Seq(comps)
            }
            _ => {
                // element types are always named (an inline builtin element is C01 finding F-seqof-value)
                let t = self.gen_type(depth + 1, false);
                K::SeqOf(t)
            }
        };
        let inline = allow_inline && Self::can_inline(&k) && self.src.chance(45);
        let name = format!("Ty{}", self.types.len());
        if pending_defaults.iter().all(|d| d.is_none()) {
            pending_defaults.clear();
        }
        self.types.push(TyDef { name, k, inline, set: pending_set, defaults: pending_defaults });
        self.types.len() - 1
    }

    fn str_value(&mut self, kind: StrKind) -> (String, Vec<String>) {
        let ascii: Vec<char> = (0x20u8..0x7f).map(|b| b as char).collect();
        let alphabet: Vec<char> = match kind {
            StrKind::Numeric => "0123456789 ".chars().collect(),
            StrKind::Printable => "ABCXYZabcxyz0189 '()+,-./:=?".chars().collect(),
            StrKind::Utf8 | StrKind::Universal => ascii.iter().copied().chain("\u{e9}\u{fc}\u{df}\u{2603}\u{4e2d}\u{1f600}\u{10348}".chars()).collect(),
            StrKind::Bmp => ascii.iter().copied().chain("\u{e9}\u{fc}\u{2603}\u{4e2d}\u{ffee}".chars()).collect(),
            _ => ascii.clone(),
        };
        let len = match self.src.weighted(&[2, 5, 3]) {
            0 => 0,
            1 => self.src.pick(6) + 1,
            _ => self.src.pick(30) + 1,
        };
        let mut s = String::new();
        let mut forms = vec![];
        // strings made of the characters of a tstring only (X.680 12.17: digits and
        // `+-:.,/CDHMRPSTWYZ`): the lexer reads them as time values first
        if kind != StrKind::Numeric && len > 0 && self.src.chance(14) {
            let t: Vec<char> = "0123456789+-:.,/CDHMRPSTWYZ".chars().collect();
            for i in 0..len.min(8) {
                // digits around the punctuation, so that `1,5` and `10,000` come up
                let c = if i % 2 == 0 || self.src.chance(40) { t[self.src.pick(10)] } else if self.src.chance(35) { ',' } else { t[10 + self.src.pick(t.len() - 10)] };
                s.push(c);
            }
            forms.push("str:time-like".into());
            if s.contains(',') {
                forms.push("str:time-like with comma".into());
            }
            return (s, forms);
        }
        for _ in 0..len {
            let c = if alphabet.contains(&'"') && self.src.chance(12) {
                '"'
            } else if self.src.chance(30) && alphabet.len() > 95 {
                alphabet[95 + self.src.pick(alphabet.len() - 95)]
            } else {
                *self.src.choose(&alphabet)
            };
            s.push(c);
        }
        if s.is_empty() {
            forms.push("str:empty".into());
        }
        if s.contains('"') {
            forms.push("str:dquote".into());
        }
        if s.chars().any(|c| c.len_utf8() > 1) {
            forms.push("str:multibyte".into());
        }
        if s.contains("--") || s.contains("/*") || s.contains("*/") {
            forms.push("str:comment-like".into());
        }
        (s, forms)
    }

    fn bits_text(&mut self, bits: &[bool], forms: &mut Vec<String>) -> String {
        if bits.len() % 4 == 0 && self.src.chance(80) {
            forms.push("hstring".into());
            let lower = false; // X.680 §12.12: hstring uses A-F only
            let _ = lower;
            let digits: String = bits
                .chunks(4)
                .map(|c| {
                    let v = c.iter().fold(0u8, |a, b| (a << 1) | *b as u8);
                    char::from_digit(v as u32, 16).unwrap().to_ascii_uppercase()
                })
                .collect();
            format!("'{digits}'H")
        } else {
            forms.push("bstring".into());
            format!("'{}'B", bits.iter().map(|b| if *b { '1' } else { '0' }).collect::<String>())
        }
    }

    fn oid_value(&mut self, ti: usize) -> Lit {
        let mut forms = vec![];
        let n = self.src.pick(9) + 2;
        let first = self.src.pick(3) as u64;
        let second = if first < 2 && self.src.chance(50) { self.src.pick(6) as u64 } else if first < 2 { self.src.pick(40) as u64 } else if self.src.chance(70) { self.src.pick(40) as u64 } else { self.src.range(40, 100000) as u64 };
        let mut arcs = vec![first, second];
        for _ in 2..n {
            let a = match self.src.weighted(&[5, 3, 2]) {
                0 => self.src.pick(128) as u64,
                1 => self.src.range(128, 70000) as u64,
                _ => self.src.range(70000, u32::MAX as i128) as u64,
            };
            arcs.push(a);
        }
        // optional prefix by value reference: { x 3 4 }
        let mut parts: Vec<String> = vec![];
        let mut start = 0;
        if n >= 3 && self.src.chance(18) {
            let k = self.src.pick(n - 2) + 2; // prefix length 2..n-1
            let prefix = arcs[..k].to_vec();
            let name = format!("x{}", self.aux.len());
            let text = format!("{{ {} }}", prefix.iter().map(|a| a.to_string()).collect::<Vec<_>>().join(" "));
            self.aux.push(AuxVal { name: name.clone(), ty: ti, lit: Lit { av: AV::Oid(prefix), text, forms: vec![] } });
            parts.push(name);
            start = k;
            forms.push("oid:prefix-ref".into());
        }
        for i in start..n {
            let a = arcs[i];
            let wk: Option<Vec<&str>> = if i == 0 {
                Some(match a {
                    0 => {
                        if self.cfg.unknown_wellknown {
                            vec!["itu-t", "ccitt"]
                        } else {
                            vec!["itu-t"]
                        }
                    }
                    1 => vec!["iso"],
                    _ => vec!["joint-iso-itu-t", "joint-iso-ccitt"],
                })
            } else if i == 1 && start == 0 {
                match (arcs[0], a) {
                    (0, 0) => Some(vec!["recommendation"]),
                    (0, 1) => Some(vec!["question"]),
                    (0, 2) => Some(vec!["administration"]),
                    (0, 3) => Some(vec!["network-operator"]),
                    (0, 4) => Some(vec!["identified-organization"]),
                    (0, 5) => Some(vec!["r-recommendation"]),
                    (1, 0) => Some(vec!["standard"]),
                    (1, 1) => Some(vec!["registration-authority"]),
                    (1, 2) => Some(vec!["member-body"]),
                    (1, 3) => Some(vec!["identified-organization"]),
                    _ => None,
                }
            } else {
                None
            };
            // a bare name form is only meaningful when every arc before it was written so that the
            // position is known: X.680 allows it after number / name(number) forms as well
            let form = match (&wk, self.src.weighted(&[4, 3, 4])) {
                (Some(names), 2) => {
                    forms.push(format!("oid:wellknown:{}", names[0]));
                    self.src.choose(names).to_string()
                }
                (Some(names), 1) => {
                    forms.push("oid:name(number)".into());
                    // (not on the first arc: a label there that contradicts the number would make
                    // the meaning of a bare name on the second arc debatable)
                    if i > 0 && self.src.chance(20) {
                        forms.push("oid:wellknown-label-with-own-number".into());
                        format!("{}({a})", ["member-body", "standard", "question", "iso", "itu-t"][self.src.pick(5)])
                    } else {
                        format!("{}({a})", self.src.choose(names))
                    }
                }
                (None, 1) => {
                    forms.push("oid:name(number)".into());
                    // in the name(number) form the identifier carries no meaning: a label that
                    // happens to be a well-known arc name elsewhere must not change the number
                    let nm = if self.src.chance(35) {
                        forms.push("oid:wellknown-label-with-own-number".into());
                        ["iso", "itu-t", "joint-iso-itu-t", "member-body", "standard", "recommendation", "question", "identified-organization", "registration-authority"][self.src.pick(9)]
                    } else {
                        ["ds", "org", "dod", "internet", "my-arc", "x9-57"][self.src.pick(6)]
                    };
                    format!("{nm}({a})")
                }
                _ => {
                    forms.push("oid:number".into());
                    a.to_string()
                }
            };
            parts.push(form);
        }
        forms.sort();
        forms.dedup();
        Lit { av: AV::Oid(arcs), text: format!("{{ {} }}", parts.join(" ")), forms }
    }

    /// a value of types[ti] with its notation
    fn gen_value(&mut self, ti: usize, depth: usize) -> Lit {
        let k = self.types[ti].k.clone();
        // nested values of named types may be hoisted into their own value assignment
        if depth > 0 && !self.types[ti].inline && self.src.chance(12) {
            let lit = self.gen_value_direct(ti, &k, depth);
            let name = format!("x{}", self.aux.len());
            let mut forms = lit.forms.clone();
            forms.push("nested-valueref".into());
            let av = lit.av.clone();
            self.aux.push(AuxVal { name: name.clone(), ty: ti, lit });
            return Lit { av, text: name, forms };
        }
        self.gen_value_direct(ti, &k, depth)
    }

    fn gen_value_direct(&mut self, ti: usize, k: &K, depth: usize) -> Lit {
        match k {
            K::Int { named, range } => {
                let (lo, hi) = range.unwrap_or((i128::MIN, i128::MAX));
                if !named.is_empty() && self.src.chance(50) {
                    let (id, v) = self.src.choose(named).clone();
                    return Lit { av: AV::Int(v), text: id, forms: vec!["named-number".into()] };
                }
                let v = self.int_value(lo, hi);
                let mut forms = vec!["int-literal".to_string()];
                if v < 0 {
                    forms.push("int:negative".into());
                }
                if v.unsigned_abs() > u64::MAX as u128 {
                    forms.push("int:beyond-64-bit".into());
                } else if v.unsigned_abs() > u32::MAX as u128 {
                    forms.push("int:beyond-32-bit".into());
                }
                Lit { av: AV::Int(v), text: v.to_string(), forms }
            }
            K::Bool => {
                let b = self.src.chance(50);
                Lit { av: AV::Bool(b), text: if b { "TRUE" } else { "FALSE" }.into(), forms: vec!["bool".into()] }
            }
            K::Null => Lit { av: AV::Null, text: "NULL".into(), forms: vec!["null".into()] },
            K::Str(kind) => {
                let (s, mut forms) = self.str_value(*kind);
                forms.push(format!("cstring:{}", kind.asn()));
                let quoted = s.replace('"', "\"\"");
                // a cstring may run over several lines: the line break and the spacing characters
                // next to it are not part of the value (X.680 12.14.1). Written only where the
                // characters on both sides of the break are not blanks themselves.
                let cs: Vec<char> = s.chars().collect();
                if matches!(kind, StrKind::Utf8 | StrKind::Ia5) && cs.len() >= 2 && depth == 0 && self.src.chance(6) {
                    let at = 1 + self.src.pick(cs.len() - 1);
                    if cs[at - 1] != ' ' && cs[at] != ' ' && cs[at - 1] != '"' && cs[at] != '"' {
                        let head: String = cs[..at].iter().collect::<String>().replace('"', "\"\"");
                        let tail: String = cs[at..].iter().collect::<String>().replace('"', "\"\"");
                        forms.push("cstring:multi-line".into());
                        return Lit { av: AV::Str(s.clone()), text: format!("\"{head}  \n      {tail}\""), forms };
                    }
                }
                Lit { av: AV::Str(s.clone()), text: format!("\"{quoted}\""), forms }
            }
            K::Bits { named } => {
                let mut forms = vec![];
                if !named.is_empty() && self.src.chance(60) {
                    let mut chosen: Vec<(String, u32)> = named.iter().filter(|_| self.src.chance(45)).cloned().collect();
                    if self.src.chance(30) {
                        chosen.reverse();
                    }
                    let max = chosen.iter().map(|(_, p)| *p).max();
                    let mut bits = vec![false; max.map_or(0, |m| m as usize + 1)];
                    for (_, p) in &chosen {
                        bits[*p as usize] = true;
                    }
                    forms.push(if chosen.is_empty() { "named-bits:empty".to_string() } else { "named-bits".to_string() });
                    let text = if chosen.is_empty() { "{}".to_string() } else { format!("{{ {} }}", chosen.iter().map(|(i, _)| i.clone()).collect::<Vec<_>>().join(", ")) };
                    return Lit { av: AV::Bits(bits), text, forms };
                }
                let mut len = match self.src.weighted(&[1, 4, 3]) {
                    0 => 0,
                    1 => self.src.pick(17),
                    _ => self.src.pick(65),
                };
                if self.src.chance(45) {
                    len -= len % 4; // H form needs whole hex digits
                }
                let bits: Vec<bool> = (0..len).map(|_| self.src.chance(50)).collect();
                let text = self.bits_text(&bits, &mut forms);
                if bits.is_empty() {
                    forms.push("bits:empty".into());
                }
                if bits.len() > 8 {
                    forms.push("bits:>8".into());
                }
                Lit { av: AV::Bits(bits), text, forms }
            }
            K::Octets => {
                let len = match self.src.weighted(&[1, 5, 2]) {
                    0 => 0,
                    1 => self.src.pick(5) + 1,
                    _ => self.src.pick(16) + 1,
                };
                let bytes: Vec<u8> = (0..len).map(|_| self.src.pick(256) as u8).collect();
                let mut forms = vec![];
                if self.cfg.octet_padding && !bytes.is_empty() && self.src.chance(15) {
                    // drop trailing zero bits / a trailing zero digit: X.680 §23.3 pads with zeros
                    let last = *bytes.last().unwrap();
                    if last & 0x0f == 0 {
                        forms.push("octets:odd-hstring".into());
                        let mut h = der::hex(&bytes).to_uppercase();
                        h.pop();
                        return Lit { av: AV::Octets(bytes), text: format!("'{h}'H"), forms };
                    }
                }
                let text = if self.src.chance(75) {
                    forms.push("octets:hstring".into());
                    format!("'{}'H", der::hex(&bytes).to_uppercase())
                } else {
                    forms.push("octets:bstring".into());
                    format!("'{}'B", bytes.iter().map(|b| format!("{b:08b}")).collect::<String>())
                };
                if bytes.is_empty() {
                    forms.push("octets:empty".into());
                }
                Lit { av: AV::Octets(bytes), text, forms }
            }
            K::Oid => self.oid_value(ti),
            K::Enum { root, ext } => {
                let nums = enum_numbers(root);
                let mut all: Vec<(String, i128)> = root.iter().map(|(i, _)| i.clone()).zip(nums.into_iter()).collect();
                if let Some(e) = ext {
                    all.extend(e.iter().cloned());
                }
                let i = self.src.pick(all.len());
                let mut forms = vec!["enumeral".to_string()];
                if i >= root.len() {
                    forms.push("enumeral:addition".into());
                }
                Lit { av: AV::Enum(all[i].1), text: all[i].0.clone(), forms }
            }
            K::Choice(alts) => {
                let i = self.src.pick(alts.len());
                let inner = self.gen_value(alts[i].1, depth + 1);
                let mut forms = inner.forms.clone();
                forms.push("choice-value".into());
                // (`alt : value` with blanks around the colon is a syntax error for the pinned lexer: C13 territory)
                let sep = if self.src.chance(90) { ":" } else { " : " };
                Lit { av: AV::Choice(i, Box::new(inner.av)), text: format!("{}{sep}{}", alts[i].0, inner.text), forms }
            }
            K::Seq(comps) => {
                let is_set = self.types[ti].set;
                let defaults = self.types[ti].defaults.clone();
                let mut forms = vec![if is_set { "set-value".to_string() } else { "sequence-value".to_string() }];
                let mut vals = vec![];
                let mut parts = vec![];
                for (n, (id, t, optional)) in comps.iter().enumerate() {
                    if *optional && self.src.chance(45) {
                        vals.push(None);
                        forms.push("sequence-value:absent-optional".into());
                        continue;
                    }
                    if let Some(Some(d)) = defaults.get(n) {
                        if self.src.chance(40) {
                            // an omitted component with a DEFAULT denotes the default value
                            vals.push(Some(d.av.clone()));
                            forms.push("sequence-value:omitted-default".into());
                            continue;
                        }
                        forms.push("sequence-value:default-member-written".into());
                    }
                    let inner = self.gen_value(*t, depth + 1);
                    forms.extend(inner.forms.iter().cloned());
                    parts.push(format!("{id} {}", inner.text));
                    vals.push(Some(inner.av));
                }
                if is_set && parts.len() > 1 {
                    // the components of a SET value may be written in any order
                    let before = parts.clone();
                    for i in (1..parts.len()).rev() {
                        let j = self.src.pick(i + 1);
                        parts.swap(i, j);
                    }
                    if parts != before {
                        forms.push("set-value:permuted".into());
                    }
                }
                let text = if parts.is_empty() { "{}".to_string() } else { format!("{{ {} }}", parts.join(", ")) };
                Lit { av: AV::Seq(vals), text, forms }
            }
            K::SeqOf(t) => {
                let n = self.src.weighted(&[2, 3, 3, 2, 1]);
                let mut forms = vec!["sequence-of-value".to_string()];
                let mut vals = vec![];
                let mut parts = vec![];
                for _ in 0..n {
                    let inner = self.gen_value(*t, depth + 1);
                    forms.extend(inner.forms.iter().cloned());
                    parts.push(inner.text);
                    vals.push(inner.av);
                }
                if n == 0 {
                    forms.push("sequence-of-value:empty".into());
                }
                let text = if parts.is_empty() { "{}".to_string() } else { format!("{{ {} }}", parts.join(", ")) };
                Lit { av: AV::SeqOf(vals), text, forms }
            }
        }
    }
}

/// X.680 §20.4: identifier-only root items take successive integers from 0, skipping numbers
/// used explicitly in the root
pub fn enum_numbers(root: &[(String, Option<i128>)]) -> Vec<i128> {
    let used: Vec<i128> = root.iter().filter_map(|(_, n)| *n).collect();
    let mut next = 0i128;
    root.iter()
        .map(|(_, n)| match n {
            Some(v) => *v,
            None => {
                while used.contains(&next) {
                    next += 1;
                }
                next += 1;
                next - 1
            }
        })
        .collect()
}

pub fn gen_case(stream: &[u32], opts: GenOpts) -> Case {
    let mut src = Src::new(stream);
    let shared = src.chance(25);
    let seq_friendly = src.chance(70);
    let mut g = G { src: &mut src, types: vec![], aux: vec![], n_ident: 0, shared_names: shared, seq_friendly, cfg: opts, depth_now: 0, excluded_nested_bmp: 0 };
    let mut alias_depth = g.src.weighted(&[5, 3, 2, 1, 1]);
    let subject = g.gen_type(0, alias_depth == 0);
    let friendly_seq = seq_friendly && matches!(g.types[subject].k, K::Seq(_));
    if friendly_seq {
        alias_depth = 0;
    }
    let v0 = g.gen_value(subject, 0);
    let chain = g.src.weighted(&[4, 3, 2, 1, 1]);
    let holder = g.src.chance(80) && !friendly_seq;
    let dflt = g.gen_value(subject, 0);
    let excluded = g.excluded_nested_bmp;
    let decoys = if g.src.chance(25) { 1 + g.src.pick(7) as u8 } else { 0 };
    Case { types: g.types, subject, alias_depth, aux: g.aux, v0, chain, holder, dflt, excluded_nested_bmp: excluded, decoys }
}

/// the decoy definitions of a case (see `Case::decoys`)
fn decoy_text(c: &Case) -> String {
    let mut s = String::new();
    for (prefix, on) in [("Aa-Decoy", c.decoys & 1 != 0), ("Zz-Decoy", c.decoys & 2 != 0)] {
        if !on {
            continue;
        }
        for (i, t) in c.types.iter().enumerate() {
            if t.inline {
                continue;
            }
            match &t.k {
                K::Enum { root, ext } => {
                    // same enumerals, other numbers: reversed order behind a padding enumeral
                    let mut names: Vec<&String> = root.iter().map(|x| &x.0).collect();
                    if let Some(e) = ext {
                        names.extend(e.iter().map(|x| &x.0));
                    }
                    names.reverse();
                    s.push_str(&format!("{prefix}{i} ::= ENUMERATED {{ zz-pad, {} }}\n", names.iter().map(|n| n.to_string()).collect::<Vec<_>>().join(", ")));
                }
                K::Int { named, .. } if !named.is_empty() => {
                    s.push_str(&format!("{prefix}{i} ::= INTEGER {{ {} }}\n", named.iter().map(|(n, v)| format!("{n}({})", v.wrapping_add(7))).collect::<Vec<_>>().join(", ")));
                }
                K::Bits { named } if !named.is_empty() => {
                    s.push_str(&format!("{prefix}{i} ::= BIT STRING {{ {} }}\n", named.iter().map(|(n, p)| format!("{n}({})", p + 3)).collect::<Vec<_>>().join(", ")));
                }
                _ => {}
            }
        }
    }
    // value assignments spelled like the first named number / enumeral of the case's types:
    // inside the value notation of such a type the name denotes the named number (X.680 19.13)
    if c.decoys & 4 != 0 {
        let mut seen = std::collections::BTreeSet::new();
        for t in c.types.iter() {
            if t.inline {
                continue;
            }
            match &t.k {
                K::Int { named, .. } if !named.is_empty() => {
                    let (n, v) = &named[0];
                    if seen.insert(n.clone()) {
                        s.push_str(&format!("{n} INTEGER ::= {}\n", v.wrapping_add(100)));
                    }
                }
                K::Enum { root, .. } if root.len() >= 2 => {
                    if seen.insert(root[0].0.clone()) {
                        s.push_str(&format!("{} {} ::= {}\n", root[0].0, t.name, root[1].0));
                    }
                }
                _ => {}
            }
        }
    }
    s
}

// ------------------------------------------------------------------------------------------
// printing

fn kind_text(c: &Case, td: &TyDef) -> String {
    let k = &td.k;
    match k {
        K::Int { named, range } => {
            let mut s = "INTEGER".to_string();
            if !named.is_empty() {
                s.push_str(&format!(" {{ {} }}", named.iter().map(|(i, v)| format!("{i}({v})")).collect::<Vec<_>>().join(", ")));
            }
            if let Some((lo, hi)) = range {
                s.push_str(&format!(" ({lo}..{hi})"));
            }
            s
        }
        K::Bool => "BOOLEAN".into(),
        K::Null => "NULL".into(),
        K::Str(kind) => kind.asn().into(),
        K::Bits { named } => {
            if named.is_empty() {
                "BIT STRING".into()
            } else {
                format!("BIT STRING {{ {} }}", named.iter().map(|(i, p)| format!("{i}({p})")).collect::<Vec<_>>().join(", "))
            }
        }
        K::Octets => "OCTET STRING".into(),
        K::Oid => "OBJECT IDENTIFIER".into(),
        K::Enum { root, ext } => {
            let mut parts: Vec<String> = root.iter().map(|(i, n)| n.map_or(i.clone(), |v| format!("{i}({v})"))).collect();
            if let Some(e) = ext {
                parts.push("...".into());
                parts.extend(e.iter().map(|(i, v)| format!("{i}({v})")));
            }
            format!("ENUMERATED {{ {} }}", parts.join(", "))
        }
        K::Choice(alts) => format!("CHOICE {{ {} }}", alts.iter().map(|(i, t)| format!("{i} {}", ty_ref(c, *t))).collect::<Vec<_>>().join(", ")),
        K::Seq(comps) => {
            let kw = if td.set { "SET" } else { "SEQUENCE" };
            if comps.is_empty() {
                format!("{kw} {{}}")
            } else {
                format!(
                    "{kw} {{ {} }}",
                    comps
                        .iter()
                        .enumerate()
                        .map(|(n, (i, t, o))| {
                            let dflt = td.defaults.get(n).and_then(|d| d.as_ref()).map(|d| format!(" DEFAULT {}", d.text)).unwrap_or_default();
                            format!("{i} {}{}{dflt}", ty_ref(c, *t), if *o { " OPTIONAL" } else { "" })
                        })
                        .collect::<Vec<_>>()
                        .join(", ")
                )
            }
        }
        K::SeqOf(t) => format!("SEQUENCE OF {}", ty_ref(c, *t)),
    }
}

fn ty_ref(c: &Case, t: usize) -> String {
    if c.types[t].inline {
        kind_text(c, &c.types[t])
    } else {
        c.types[t].name.clone()
    }
}

/// governing type notation of the subject as seen by values
fn governing(c: &Case) -> String {
    if c.alias_depth > 0 {
        format!("Al{}", c.alias_depth)
    } else {
        ty_ref(c, c.subject)
    }
}

pub fn case_text(c: &Case, module: &str) -> String {
    let mut s = format!("{module} DEFINITIONS AUTOMATIC TAGS ::= BEGIN\n");
    for t in &c.types {
        if !t.inline {
            s.push_str(&format!("{} ::= {}\n", t.name, kind_text(c, t)));
        }
    }
    s.push_str(&decoy_text(c));
    for d in 1..=c.alias_depth {
        let target = if d == 1 { ty_ref(c, c.subject) } else { format!("Al{}", d - 1) };
        s.push_str(&format!("Al{d} ::= {target}\n"));
    }
    for a in &c.aux {
        s.push_str(&format!("{} {} ::= {}\n", a.name, ty_ref(c, a.ty), a.lit.text));
    }
    let g = governing(c);
    s.push_str(&format!("v0 {g} ::= {}\n", c.v0.text));
    for i in 1..=c.chain {
        s.push_str(&format!("v{i} {g} ::= v{}\n", i - 1));
    }
    if c.holder {
        s.push_str(&format!("Holder ::= SEQUENCE {{ f {g} DEFAULT {}, g {g} DEFAULT v{} }}\n", c.dflt.text, c.chain));
    }
    s.push_str("END\n");
    s
}

// ------------------------------------------------------------------------------------------
// DER -> abstract value under the model's type (AUTOMATIC TAGS, no tags in the source)

fn universal_of(td: &TyDef) -> (u64, bool) {
    match &td.k {
        K::Int { .. } => (2, false),
        K::Bool => (1, false),
        K::Null => (5, false),
        K::Str(kind) => (
            match kind {
                StrKind::Utf8 => 12,
                StrKind::Numeric => 18,
                StrKind::Printable => 19,
                StrKind::Teletex => 20,
                StrKind::Ia5 => 22,
                StrKind::Graphic => 25,
                StrKind::Visible => 26,
                StrKind::General => 27,
                StrKind::Universal => 28,
                StrKind::Bmp => 30,
            },
            false,
        ),
        K::Bits { .. } => (3, false),
        K::Octets => (4, false),
        K::Oid => (6, false),
        K::Enum { .. } => (10, false),
        K::Seq(_) if td.set => (17, true),
        K::Seq(_) | K::SeqOf(_) => (16, true),
        K::Choice(_) => (0, false),
    }
}

/// `t` is the type's own encoding (universal tag, or the alternative's tag for a CHOICE)
fn dec_plain(types: &[TyDef], ti: usize, t: &Tlv) -> Result<AV, String> {
    match &types[ti].k {
        K::Choice(alts) => {
            if t.class != 2 {
                return Err(format!("CHOICE value encoded with tag {} (expected a context tag)", der::tag_name(t.class, t.num)));
            }
            let i = t.num as usize;
            let (_, at) = alts.get(i).ok_or_else(|| format!("alternative index {i} out of range"))?;
            Ok(AV::Choice(i, Box::new(dec_member(types, *at, t)?)))
        }
        _ => {
            let (num, cons) = universal_of(&types[ti]);
            if t.class != 0 || t.num != num || t.cons != cons {
                return Err(format!("encoded as {}{} where {} is expected", der::tag_name(t.class, t.num), if t.cons { "(constructed)" } else { "" }, der::tag_name(0, num)));
            }
            dec_content(types, ti, t)
        }
    }
}

/// `t` carries an automatic context tag; the tagged type is types[ti]
fn dec_member(types: &[TyDef], ti: usize, t: &Tlv) -> Result<AV, String> {
    if let K::Choice(_) = &types[ti].k {
        // a tag on a CHOICE is always explicit
        if !t.cons || t.kids.len() != 1 {
            return Err("tagged CHOICE not encoded as an explicit wrapper".into());
        }
        dec_plain(types, ti, &t.kids[0])
    } else {
        let (_, cons) = universal_of(&types[ti]);
        if t.cons != cons {
            return Err("constructed bit does not match the implicitly tagged type".into());
        }
        dec_content(types, ti, t)
    }
}

fn dec_content(types: &[TyDef], ti: usize, t: &Tlv) -> Result<AV, String> {
    let c = &t.content;
    Ok(match &types[ti].k {
        K::Int { .. } => AV::Int(der::int_from(c)?),
        K::Enum { .. } => AV::Enum(der::int_from(c)?),
        K::Bool => {
            if c.len() != 1 {
                return Err("BOOLEAN content is not one octet".into());
            }
            AV::Bool(c[0] != 0)
        }
        K::Null => {
            if !c.is_empty() {
                return Err("NULL with content".into());
            }
            AV::Null
        }
        K::Str(kind) => AV::Str(match kind {
            StrKind::Bmp => {
                if c.len() % 2 != 0 {
                    return Err("BMPString of odd length".into());
                }
                let u: Vec<u16> = c.chunks(2).map(|p| u16::from_be_bytes([p[0], p[1]])).collect();
                String::from_utf16(&u).map_err(|e| e.to_string())?
            }
            _ => String::from_utf8(c.clone()).map_err(|e| e.to_string())?,
        }),
        K::Bits { .. } => {
            if c.is_empty() {
                return Err("BIT STRING without the unused-bits octet".into());
            }
            let unused = c[0] as usize;
            if unused > 7 || (c.len() == 1 && unused != 0) {
                return Err("bad unused-bits octet".into());
            }
            let mut bits: Vec<bool> = c[1..].iter().flat_map(|b| (0..8).rev().map(move |i| b >> i & 1 == 1)).collect();
            bits.truncate(bits.len() - unused);
            AV::Bits(bits)
        }
        K::Octets => AV::Octets(c.clone()),
        K::Oid => AV::Oid(der::oid_from(c)?),
        K::Choice(_) => return dec_plain(types, ti, t),
        K::Seq(comps) => {
            let mut vals = vec![];
            let mut ki = 0;
            for (i, (id, ct, optional)) in comps.iter().enumerate() {
                match t.kids.get(ki) {
                    Some(kid) if kid.class == 2 && kid.num == i as u64 => {
                        vals.push(Some(dec_member(types, *ct, kid)?));
                        ki += 1;
                    }
                    _ if *optional => vals.push(None),
                    // DER leaves out a component that equals its DEFAULT: absent = the default value
                    _ if types[ti].defaults.get(i).map_or(false, |d| d.is_some()) => vals.push(types[ti].defaults[i].as_ref().map(|d| d.av.clone())),
                    _ => return Err(format!("mandatory component {id} (automatic tag [{i}]) missing")),
                }
            }
            if ki != t.kids.len() {
                return Err(format!("{} unexpected component encodings", t.kids.len() - ki));
            }
            AV::Seq(vals)
        }
        K::SeqOf(et) => AV::SeqOf(t.kids.iter().map(|k| dec_plain(types, *et, k)).collect::<Result<Vec<_>, _>>()?),
    })
}

/// canonical form for comparison: trailing 0 bits of a BIT STRING with named bits carry no meaning (X.680 §22.7)
fn canon(types: &[TyDef], ti: usize, v: &AV) -> AV {
    match (&types[ti].k, v) {
        (K::Bits { named }, AV::Bits(b)) if !named.is_empty() => {
            let mut b = b.clone();
            while b.last() == Some(&false) {
                b.pop();
            }
            AV::Bits(b)
        }
        (K::Choice(alts), AV::Choice(i, inner)) if *i < alts.len() => AV::Choice(*i, Box::new(canon(types, alts[*i].1, inner))),
        (K::Seq(comps), AV::Seq(vals)) if comps.len() == vals.len() => AV::Seq(comps.iter().zip(vals.iter()).map(|((_, t, _), v)| v.as_ref().map(|v| canon(types, *t, v))).collect()),
        (K::SeqOf(t), AV::SeqOf(vals)) => AV::SeqOf(vals.iter().map(|v| canon(types, *t, v)).collect()),
        _ => v.clone(),
    }
}

pub fn show_av(v: &AV) -> String {
    match v {
        AV::Int(i) => format!("{i}"),
        AV::Bool(b) => format!("{}", if *b { "TRUE" } else { "FALSE" }),
        AV::Null => "NULL".into(),
        AV::Str(s) => format!("{s:?}"),
        AV::Bits(b) => format!("'{}'B", b.iter().map(|x| if *x { '1' } else { '0' }).collect::<String>()),
        AV::Octets(o) => format!("'{}'H", der::hex(o)),
        AV::Oid(a) => format!("{{{}}}", a.iter().map(|x| x.to_string()).collect::<Vec<_>>().join(" ")),
        AV::Enum(n) => format!("enumeral#{n}"),
        AV::Choice(i, inner) => format!("alt#{i}:{}", show_av(inner)),
        AV::Seq(vs) => format!("{{{}}}", vs.iter().map(|v| v.as_ref().map_or("-".to_string(), show_av)).collect::<Vec<_>>().join(", ")),
        AV::SeqOf(vs) => format!("[{}]", vs.iter().map(show_av).collect::<Vec<_>>().join(", ")),
    }
}

// ------------------------------------------------------------------------------------------
// observation points and the dump function injected into the generated module

#[derive(Clone, Debug)]
struct Point {
    label: String,
    expr: String,
    ty: usize,
    expect: AV,
    forms: Vec<String>,
    via_refs: usize,
}

/// (points, or the reason the bindings cannot be observed)
fn points(c: &Case, generated: &str) -> Result<(String, Vec<Point>), String> {
    let mods = crate::proj::project(generated).map_err(|e| format!("generated text does not parse: {e}"))?;
    let m = mods.first().ok_or("no module generated")?;
    let mut pts = vec![];
    let konst = |name: &str| -> Result<String, String> {
        let rn = crate::structure::const_case(name);
        let k = m.find_const(&rn).ok_or_else(|| format!("no constant {rn} generated for value `{name}`"))?;
        Ok(if k.kind == "const" { format!("&{rn}") } else { format!("&*{rn}") })
    };
    for a in &c.aux {
        pts.push(Point { label: a.name.clone(), expr: konst(&a.name)?, ty: a.ty, expect: a.lit.av.clone(), forms: a.lit.forms.clone(), via_refs: 0 });
    }
    for i in 0..=c.chain {
        pts.push(Point { label: format!("v{i}"), expr: konst(&format!("v{i}"))?, ty: c.subject, expect: c.v0.av.clone(), forms: c.v0.forms.clone(), via_refs: i });
    }
    if c.holder {
        let h = m.find_struct("Holder").ok_or("no struct Holder generated")?;
        for (fname, expect, forms, via) in [("f", &c.dflt, &c.dflt.forms, 0), ("g", &c.v0, &c.v0.forms, c.chain + 1)] {
            let f = h.fields.iter().find(|x| x.name == fname).ok_or_else(|| format!("Holder has no field {fname}"))?;
            let d = f.attrs.default.clone().ok_or_else(|| format!("Holder.{fname} carries no default attribute"))?;
            pts.push(Point { label: format!("DEFAULT {fname}"), expr: format!("&{d}()"), ty: c.subject, expect: expect.av.clone(), forms: forms.clone(), via_refs: via });
        }
    }
    Ok((m.name.clone(), pts))
}

fn inject_dump(generated: &str, case_id: usize, pts: &[Point]) -> String {
    let mut f = String::from(
        "\npub fn __vc_dump() {\n fn hx(b: &[u8]) -> String { b.iter().map(|x| format!(\"{x:02x}\")).collect() }\n",
    );
    for (i, p) in pts.iter().enumerate() {
        f.push_str(&format!(
            " match std::panic::catch_unwind(std::panic::AssertUnwindSafe(|| rasn::der::encode({}).map_err(|e| format!(\"{{e:?}}\")))) {{ Ok(Ok(b)) => println!(\"P {case_id} {i} {{}}\", hx(&b)), Ok(Err(e)) => println!(\"E {case_id} {i} {{}}\", e.replace('\\n', \" \")), Err(_) => println!(\"X {case_id} {i}\") }}\n",
            p.expr
        ));
    }
    f.push_str("}\n");
    let cut = generated.rfind('}').unwrap_or(generated.len());
    format!("{}{}{}", &generated[..cut], f, &generated[cut..])
}

// ------------------------------------------------------------------------------------------
// judging

#[derive(Clone, Debug)]
enum Status {
    /// compile Err or warnings: the notation is reported as unsupported, nothing to compare
    Rejected(String),
    /// bindings do not type-check (rustc stderr)
    Rustc(String),
    Observed(Vec<(Point, Result<Vec<u8>, String>)>),
    Unobservable(String),
}

struct Prepared {
    case: Case,
    text: String,
    status: Option<Status>,
    module: String,
    pts: Vec<Point>,
    dumped: String,
}

fn prepare(case: Case, id: usize) -> Prepared {
    let text = case_text(&case, &format!("Val-Mod{id}"));
    let mut p = Prepared { case, text, status: None, module: String::new(), pts: vec![], dumped: String::new() };
    match comp::compile_rasn1(&p.text, &Cfg::default()) {
        Outcome::Ok(c) => {
            if !c.warnings.is_empty() {
                p.status = Some(Status::Rejected(format!("warning: {}", c.warnings[0].chars().take(120).collect::<String>())));
            } else {
                match points(&p.case, &c.generated) {
                    Ok((m, pts)) => {
                        p.dumped = inject_dump(&c.generated, id, &pts);
                        p.module = m;
                        p.pts = pts;
                    }
                    Err(e) => p.status = Some(Status::Unobservable(e)),
                }
            }
        }
        Outcome::Err(e) => p.status = Some(Status::Rejected(format!("error: {}", e.chars().take(120).collect::<String>()))),
        Outcome::Panic(m) => p.status = Some(Status::Unobservable(format!("compiler panic: {m}"))),
    }
    p
}

/// compile, build and run all cases; fills `status`
fn observe_all(host: &Host, preps: &mut [Prepared], per_bin: usize, tagc: &str) -> Result<(), String> {
    let live: Vec<usize> = (0..preps.len()).filter(|i| preps[*i].status.is_none()).collect();
    let srcs: Vec<(String, bool)> = live.iter().map(|i| (preps[*i].dumped.clone(), false)).collect();
    let checked = host.check_all(&srcs, 24);
    let mut good: Vec<usize> = vec![];
    for (k, r) in checked.into_iter().enumerate() {
        match r {
            Ok(()) => good.push(live[k]),
            Err(e) => {
                if e.starts_with("INFRA") {
                    return Err(e);
                }
                preps[live[k]].status = Some(Status::Rustc(e));
            }
        }
    }
    let chunks: Vec<Vec<usize>> = good.chunks(per_bin.max(1)).map(|c| c.to_vec()).collect();
    let outs: Vec<Result<String, String>> = chunks
        .par_iter()
        .enumerate()
        .map(|(ci, ch)| {
            let mut prog = String::from("#![allow(warnings)]\n");
            let mut main = String::from("fn main() {\n std::panic::set_hook(Box::new(|_| {}));\n");
            for i in ch {
                prog.push_str(&format!("mod case_{i} {{\n{}\n}}\n", preps[*i].dumped));
                main.push_str(&format!(" case_{i}::{}::__vc_dump();\n", preps[*i].module));
            }
            main.push_str("}\n");
            prog.push_str(&main);
            host.build_and_run(&prog, false, &format!("{tagc}_{ci}"))
        })
        .collect();
    let mut lines: BTreeMap<(usize, usize), Result<Vec<u8>, String>> = BTreeMap::new();
    for (o, ch) in outs.into_iter().zip(chunks.iter()) {
        match o {
            Ok(stdout) => {
                for l in stdout.lines() {
                    let mut it = l.splitn(4, ' ');
                    let (k, c, i, rest) = (it.next().unwrap_or(""), it.next().unwrap_or(""), it.next().unwrap_or(""), it.next().unwrap_or(""));
                    let (Ok(c), Ok(i)) = (c.parse::<usize>(), i.parse::<usize>()) else { continue };
                    let v = match k {
                        "P" => der::unhex(rest).ok_or_else(|| "bad hex".to_string()),
                        "E" => Err(format!("rasn encode error: {rest}")),
                        "X" => Err("the initialiser panics".to_string()),
                        _ => continue,
                    };
                    lines.insert((c, i), v);
                }
            }
            Err(e) => {
                if e.starts_with("INFRA") {
                    return Err(e);
                }
                // the batch type-checked but did not build or run: attribute to every case of the chunk
                for i in ch {
                    preps[*i].status = Some(Status::Unobservable(format!("binary failed: {}", e.chars().take(300).collect::<String>())));
                }
            }
        }
    }
    for i in good {
        if preps[i].status.is_some() {
            continue;
        }
        let obs: Vec<(Point, Result<Vec<u8>, String>)> =
            preps[i].pts.iter().enumerate().map(|(pi, p)| (p.clone(), lines.get(&(i, pi)).cloned().unwrap_or_else(|| Err("no output line".into())))).collect();
        preps[i].status = Some(Status::Observed(obs));
    }
    Ok(())
}

/// signature of a rustc rejection: error code, first message and first `expected .. found ..` note, digits blurred
fn rustc_sig(stderr: &str) -> String {
    let l = crate::host::first_error(stderr);
    let detail = stderr.lines().find(|x| x.contains("expected `") || x.contains("help: ")).unwrap_or("");
    let detail = detail.trim_start_matches(|c: char| !c.is_alphabetic());
    let mut out = String::new();
    let mut prev_digit = false;
    for ch in format!("{l} / {detail}").chars() {
        if ch.is_ascii_digit() {
            if !prev_digit {
                out.push('N');
            }
            prev_digit = true;
        } else {
            prev_digit = false;
            out.push(ch);
        }
    }
    out.chars().take(160).collect()
}

struct Judged {
    fails: Vec<(String, String, Option<&'static str>)>, // (key, what, finding)
}

/// known findings: input class (the subject type) AND deviation shape must both match
fn classify(case: &Case, key: &str, p: Option<&Point>, got: Option<&AV>, err: Option<&str>) -> Option<&'static str> {
    let _ = key;
    let p = p?;
    let want = match &p.expect {
        AV::Str(s) => s,
        _ => return None,
    };
    match &case.types[case.subject].k {
        // rasn reads the UTF-8 bytes of the literal as big-endian 16-bit units
        K::Str(StrKind::Bmp) if p.ty == case.subject => {
            let bytes = want.as_bytes();
            if bytes.len() % 2 == 1 {
                return (err == Some("the initialiser panics")).then_some("F-bmp-value");
            }
            let units: Vec<u16> = bytes.chunks(2).map(|c| u16::from_be_bytes([c[0], c[1]])).collect();
            match got {
                Some(AV::Str(g)) if String::from_utf16(&units).ok().as_deref() == Some(g.as_str()) => Some("F-bmp-value"),
                // units that are no valid UTF-16 (or outside rasn's BMP table) fail on first use
                None if err == Some("the initialiser panics") || err.map_or(false, |e| e.contains("utf16") || e.contains("invalid utf-16")) => Some("F-bmp-value"),
                _ => None,
            }
        }
        // a cstring over several lines keeps the line break and the spacing next to it
        K::Str(StrKind::Utf8 | StrKind::Ia5) if p.ty == case.subject && case.v0.forms.iter().chain(case.dflt.forms.iter()).any(|f| f == "cstring:multi-line") => match got {
            Some(AV::Str(g)) if g.contains('\n') && g.chars().filter(|c| *c != '\n' && *c != ' ').eq(want.chars().filter(|c| *c != ' ')) => Some("F-multiline-cstring"),
            _ => None,
        },
        // ... and as big-endian 32-bit units for TeletexString: any length that is not a multiple of 4 panics
        K::Str(StrKind::Teletex) if p.ty == case.subject => (want.len() % 4 != 0 && err == Some("the initialiser panics")).then_some("F-teletex-value"),
        _ => None,
    }
}

fn judge(ctx: &mut Ctx, prep: &Prepared) -> Judged {
    let c = &prep.case;
    let mut fails = vec![];
    let subject_kind = match &c.types[c.subject].k {
        K::Int { .. } => "INTEGER",
        K::Bool => "BOOLEAN",
        K::Null => "NULL",
        K::Str(_) => "string",
        K::Bits { .. } => "BIT STRING",
        K::Octets => "OCTET STRING",
        K::Oid => "OBJECT IDENTIFIER",
        K::Enum { .. } => "ENUMERATED",
        K::Choice(_) => "CHOICE",
        K::Seq(_) if c.types[c.subject].set => "SET",
        K::Seq(_) => "SEQUENCE",
        K::SeqOf(_) => "SEQUENCE OF",
    };
    // how the cases of each subject kind end: evidence of what is observed and what is not
    ctx.class(&format!(
        "case:{subject_kind}:{}",
        match prep.status.as_ref().expect("status") {
            Status::Rejected(_) => "reported-unsupported",
            Status::Unobservable(_) => "unobservable",
            Status::Rustc(_) => "rustc-rejects",
            Status::Observed(_) => "observed",
        }
    ));
    match prep.status.as_ref().expect("status") {
        Status::Rejected(why) => {
            if std::env::var("C07_STATS").is_ok() {
                println!("REJ\t{}\t{}", why.replace('\n', " "), prep.text.replace('\n', " ; "));
            }
            ctx.class("skipped:reported-unsupported");
            ctx.class(&format!("skipped:{}", why.chars().take(60).collect::<String>()));
        }
        Status::Unobservable(why) => {
            // a value assignment of a warning-free compilation that has no constant in the bindings
            // (or bindings that cannot be read at all) denotes nothing: reported, once per shape
            ctx.case(&prep.text, true);
            ctx.class("unobservable");
            let key = format!("unobservable:{}", why.split('`').next().unwrap_or("").chars().take(40).collect::<String>());
            fails.push((key, format!("a warning-free compilation whose value bindings cannot be observed: {why}"), None));
        }
        Status::Rustc(e) => {
            // bindings that do not type-check are C01's subject: a rejection that C01 lists as a
            // known finding is counted and skipped; any other rejection of a value definition is
            // reported here as well (the constant or default denotes nothing)
            let listed = crate::props::c01::classify_each(&prep.text, &prep.dumped, e);
            match listed {
                Some(fs) => {
                    ctx.class("skipped:not-type-checking (listed C01 findings)");
                    for f in fs {
                        ctx.class(&format!("skipped:c01:{f}"));
                    }
                }
                None => {
                    ctx.case(&prep.text, true);
                    ctx.class(&format!("rustc-unlisted:{subject_kind}:{}", rustc_sig(e).chars().take(90).collect::<String>()));
                    let key = format!("rustc:{}", rustc_sig(e).chars().take(70).collect::<String>());
                    fails.push((key, format!("the bindings of the value definitions do not type-check (no listed C01 finding matches): {}", crate::host::first_error(e)), None));
                }
            }
        }
        Status::Observed(obs) => {
            for (p, r) in obs {
                let nontrivial = p.via_refs > 0 || c.alias_depth > 0 || nontrivial_lit(&p.expect);
                ctx.case(&format!("{}|{}", prep.text, p.label), nontrivial);
                ctx.class(&format!("kind:{subject_kind}"));
                ctx.class(if p.label.starts_with("DEFAULT") { "position:DEFAULT" } else { "position:value-assignment" });
                ctx.class(&format!("value-ref-chain:{}", p.via_refs.min(5)));
                ctx.class(&format!("type-ref-chain:{}", c.alias_depth));
                if !decoy_text(c).is_empty() {
                    ctx.class(&format!("decoy-types-sharing-names:{}", c.decoys));
                }
                for f in &p.forms {
                    ctx.class(&format!("form:{f}"));
                }
                let want = canon(&c.types, p.ty, &p.expect);
                let got = match r {
                    Ok(bytes) => der::parse_one(bytes).and_then(|t| dec_plain(&c.types, p.ty, &t).map_err(|e| format!("{e} (DER {})", der::show(&t)))),
                    Err(e) => Err(e.clone()),
                };
                match got {
                    Ok(av) => {
                        let av = canon(&c.types, p.ty, &av);
                        if av != want {
                            let key = format!("value:{subject_kind}");
                            let f = classify(c, &key, Some(p), Some(&av), None);
                            fails.push((key, format!("`{}` denotes {} but the source says {}", p.label, show_av(&av), show_av(&want)), f));
                        }
                    }
                    Err(e) => {
                        let key = format!("shape:{}", e.chars().take(30).collect::<String>());
                        let f = classify(c, &key, Some(p), None, Some(e.split(" (DER").next().unwrap_or("")));
                        fails.push((key, format!("`{}` (source value {}) is not an encoding of its type: {e}", p.label, show_av(&want)), f));
                    }
                }
            }
        }
    }
    Judged { fails }
}

fn nontrivial_lit(v: &AV) -> bool {
    match v {
        AV::Int(i) => i.unsigned_abs() > (1u128 << 31),
        AV::Bool(_) | AV::Null | AV::Enum(_) => false,
        AV::Str(s) => s.chars().count() >= 2,
        AV::Bits(b) => b.len() >= 9,
        AV::Octets(o) => o.len() >= 2,
        AV::Oid(a) => a.len() >= 3,
        AV::Choice(..) | AV::Seq(_) | AV::SeqOf(_) => true,
    }
}

fn payload(prep: &Prepared, key: &str) -> Value {
    json!({
        "kind": "c07",
        "key": key,
        "case_json": serde_json::to_string(&prep.case).unwrap(),
        "sources": [{"name": "values.asn", "text": prep.text}],
    })
}

/// structural shrinking: collapse the reference chains, drop the holder / keep only the holder literal
fn shrink_case(host: &Host, case: &Case, key: &str, finding: Option<&'static str>) -> Case {
    let mut best = case.clone();
    let mut budget = 10;
    loop {
        let mut cands: Vec<Case> = vec![];
        if best.alias_depth > 0 {
            cands.push(Case { alias_depth: 0, ..best.clone() });
            cands.push(Case { alias_depth: best.alias_depth - 1, ..best.clone() });
        }
        if best.chain > 0 {
            cands.push(Case { chain: 0, ..best.clone() });
            cands.push(Case { chain: best.chain - 1, ..best.clone() });
        }
        if best.decoys != 0 {
            cands.push(Case { decoys: 0, ..best.clone() });
            if best.decoys & 4 != 0 {
                cands.push(Case { decoys: 4, ..best.clone() });
                cands.push(Case { decoys: best.decoys & 3, ..best.clone() });
            }
            if best.decoys & 3 == 3 {
                cands.push(Case { decoys: 1, ..best.clone() });
                cands.push(Case { decoys: 2, ..best.clone() });
            }
        }
        for (i, t) in best.types.iter().enumerate() {
            // (the literals keep their component order: a SEQUENCE value in permuted order is
            // rejected, so this candidate only survives when the order did not matter)
            if t.set {
                let mut c2 = best.clone();
                c2.types[i].set = false;
                cands.push(c2);
            }
        }
        if best.holder {
            cands.push(Case { holder: false, ..best.clone() });
        }
        if best.v0 != best.dflt {
            cands.push(Case { v0: best.dflt.clone(), ..best.clone() });
            cands.push(Case { dflt: best.v0.clone(), ..best.clone() });
        }
        let mut progressed = false;
        for cand in cands {
            if budget == 0 {
                return best;
            }
            budget -= 1;
            let mut preps = vec![prepare(cand.clone(), 0)];
            if observe_all(host, &mut preps, 1, "shrink").is_err() {
                return best;
            }
            let mut scratch = Ctx::scratch("C07");
            let j = judge(&mut scratch, &preps[0]);
            if j.fails.iter().any(|(k, _, f)| k == key && *f == finding) {
                best = cand;
                progressed = true;
                break;
            }
        }
        if !progressed {
            return best;
        }
    }
}

fn run_cases(ctx: &mut Ctx, host: &Host, cases: Vec<Case>, tagc: &str, shrink: bool) -> Result<(), String> {
    let mut preps: Vec<Prepared> = cases.into_par_iter().enumerate().map(|(i, c)| prepare(c, i)).collect();
    observe_all(host, &mut preps, 24, tagc)?;
    let mut reported: std::collections::BTreeSet<String> = Default::default();
    for p in &preps {
        let j = judge(ctx, p);
        for (key, what, finding) in j.fails {
            if std::env::var("C07_STATS").is_ok() {
                println!("STAT\t{key}\t{}\t{}", what.replace('\n', " "), p.text.replace('\n', " ; "));
            }
            ctx.class(&format!("fails:{}", key.split(':').next().unwrap_or("")));
            let known = finding.map_or(false, |f| ctx.is_known(f));
            if !known && (!reported.insert(key.clone()) || ctx.violations.len() >= 8) {
                // one report per failure key; the rest is counted
                ctx.violations.push((String::new(), what));
                continue;
            }
            let rp = if shrink && !known {
                let small = shrink_case(host, &p.case, &key, finding);
                let mut sp = prepare(small, 0);
                let _ = observe_all(host, std::slice::from_mut(&mut sp), 1, "final");
                payload(&sp, &key)
            } else {
                payload(p, &key)
            };
            ctx.fail(Failure { finding, what: format!("{key}: {what}"), replay: rp });
        }
    }
    Ok(())
}

// ------------------------------------------------------------------------------------------
// TypeScript backend: `export const <name> = <JER value>;`. Judged for the value kinds whose
// JER form is unambiguous (INTEGER, BOOLEAN, NULL, BIT STRING, OCTET STRING, OBJECT IDENTIFIER,
// character strings without quotes or backslashes); value references are followed.

fn kind_name(k: &K) -> &'static str {
    match k {
        K::Int { .. } => "INTEGER",
        K::Bool => "BOOLEAN",
        K::Null => "NULL",
        K::Str(_) => "string",
        K::Bits { .. } => "BIT STRING",
        K::Octets => "OCTET STRING",
        K::Oid => "OBJECT IDENTIFIER",
        _ => "other",
    }
}

fn ts_consts(ts: &str) -> std::collections::BTreeMap<String, String> {
    let mut out = std::collections::BTreeMap::new();
    let mut rest = ts;
    while let Some(p) = rest.find("export const ") {
        let after = &rest[p + "export const ".len()..];
        let Some(eq) = after.find('=') else { break };
        let name = after[..eq].split(':').next().unwrap_or("").trim().to_string();
        // the initialiser ends at the first `;` outside quotes and braces
        let body = &after[eq + 1..];
        let (mut depth, mut in_str, mut end) = (0i32, false, body.len());
        let bytes: Vec<char> = body.chars().collect();
        let mut idx = 0usize;
        let mut byte_pos = 0usize;
        while idx < bytes.len() {
            let ch = bytes[idx];
            if in_str {
                if ch == '"' {
                    in_str = false;
                }
            } else if ch == '"' {
                in_str = true;
            } else if ch == '{' || ch == '[' {
                depth += 1;
            } else if ch == '}' || ch == ']' {
                depth -= 1;
            } else if ch == ';' && depth <= 0 {
                end = byte_pos;
                break;
            }
            byte_pos += ch.len_utf8();
            idx += 1;
        }
        let mut expr = String::new();
        let mut q = false;
        for ch in body[..end].chars() {
            if ch == '"' {
                q = !q;
            }
            if q || !ch.is_whitespace() {
                expr.push(ch);
            }
        }
        let expr = expr.replace(",}", "}").replace(",]", "]");
        out.insert(name, expr);
        rest = &after[eq + 1 + end.min(body.len())..];
    }
    out
}

/// Some(abstract value) when the expression is one of the recognised JER forms for the kind
fn ts_value(td: &TyDef, expr: &str) -> Option<AV> {
    match &td.k {
        K::Int { .. } => expr.parse::<i128>().ok().map(AV::Int),
        K::Bool => match expr {
            "true" => Some(AV::Bool(true)),
            "false" => Some(AV::Bool(false)),
            _ => None,
        },
        K::Null => (expr == "null").then_some(AV::Null),
        K::Str(_) => expr.strip_prefix('"').and_then(|r| r.strip_suffix('"')).map(|t| AV::Str(t.to_string())),
        K::Octets => {
            let t = expr.strip_prefix('"')?.strip_suffix('"')?;
            der::unhex(&t.to_lowercase()).map(AV::Octets)
        }
        K::Bits { .. } => {
            let r = expr.strip_prefix("{value:\"")?;
            let (hexs, r) = r.split_once("\",length:")?;
            let n: usize = r.strip_suffix('}')?.parse().ok()?;
            if hexs.len() % 2 != 0 {
                // not a whole number of octets: not a JER bit string value
                return Some(AV::Str(format!("<malformed: {} hex digits are not a whole number of octets>", hexs.len())));
            }
            let bytes = der::unhex(&hexs.to_lowercase())?;
            let mut bits: Vec<bool> = bytes.iter().flat_map(|b| (0..8).rev().map(move |i| b >> i & 1 == 1)).collect();
            if n > bits.len() {
                return Some(AV::Str(format!("<malformed: length {n} exceeds the {} bits given>", bits.len())));
            }
            bits.truncate(n);
            Some(AV::Bits(bits))
        }
        K::Oid => {
            let t = expr.strip_prefix('"')?.strip_suffix('"')?;
            t.split('.').map(|a| a.parse::<u64>().ok()).collect::<Option<Vec<u64>>>().map(AV::Oid)
        }
        _ => None,
    }
}

fn ts_leg(ctx: &mut Ctx, cases: &[Case]) {
    type Row = (String, String, Option<(String, String)>);
    let rows: Vec<Vec<Row>> = cases
        .par_iter()
        .map(|c| {
            let mut out: Vec<Row> = vec![];
            let td = &c.types[c.subject];
            if !matches!(td.k, K::Int { .. } | K::Bool | K::Null | K::Str(_) | K::Octets | K::Bits { .. } | K::Oid) {
                return out;
            }
            if let AV::Str(t) = &c.v0.av {
                if t.contains('"') || t.contains('\\') || t.contains('\n') {
                    return out;
                }
            }
            // (a cstring over several lines is the listed finding F-multiline-cstring in either backend)
            if c.v0.forms.iter().any(|f| f == "cstring:multi-line") {
                return out;
            }
            // BMPString / TeletexString: the listed findings concern the rasn constructor only; JER is plain text
            let text = case_text(c, "Val-Ts");
            let Outcome::Ok(o) = comp::compile_ts(&[text.clone()]) else { return out };
            if !o.warnings.is_empty() {
                return out;
            }
            let consts = ts_consts(&o.generated);
            for i in 0..=c.chain {
                let name = format!("v{i}");
                // follow value references
                let mut expr = consts.get(&name).cloned();
                let mut hops = 0;
                while let Some(e) = &expr {
                    if hops < 8 && e.chars().all(|ch| ch.is_alphanumeric() || ch == '_') && consts.contains_key(e) && e.parse::<i128>().is_err() && !["true", "false", "null"].contains(&e.as_str()) {
                        expr = consts.get(e).cloned();
                        hops += 1;
                    } else {
                        break;
                    }
                }
                let Some(expr) = expr else {
                    out.push((text.clone(), format!("{name}:missing"), Some(("ts-missing".into(), format!("the TypeScript bindings declare no constant `{name}` for a value assignment of a warning-free compilation")))));
                    continue;
                };
                match ts_value(td, &expr) {
                    None => out.push((text.clone(), format!("{name}:unrecognised"), None)),
                    Some(got) => {
                        let want = canon(&c.types, c.subject, &c.v0.av);
                        let got = canon(&c.types, c.subject, &got);
                        if got == want {
                            out.push((text.clone(), name, None));
                        } else {
                            out.push((text.clone(), name.clone(), Some((format!("ts-value:{}", kind_name(&td.k)), format!("TypeScript: `{name}` is `{}`, which denotes {} but the source says {}", expr.chars().take(120).collect::<String>(), show_av(&got), show_av(&want))))));
                        }
                    }
                }
            }
            out
        })
        .collect();
    let mut reported: std::collections::BTreeSet<String> = Default::default();
    for (ci, rs) in rows.into_iter().enumerate() {
        for (text, label, fail) in rs {
            if label.ends_with(":unrecognised") {
                ctx.class("ts:form-not-recognised");
                continue;
            }
            ctx.case(&format!("ts|{text}|{label}"), nontrivial_lit(&cases[ci].v0.av));
            ctx.class("backend:typescript");
            if let Some((key, what)) = fail {
                ctx.class(&format!("fails:{}", key.split(':').next().unwrap_or("")));
                if reported.insert(key.clone()) && ctx.violations.len() < 8 {
                    ctx.fail(Failure {
                        finding: None,
                        what: format!("{key}: {what}"),
                        replay: json!({"kind": "c07", "backend": "typescript", "key": key, "case_json": serde_json::to_string(&cases[ci]).unwrap_or_default(), "sources": [{"name": "value.asn", "text": text}]}),
                    });
                } else {
                    ctx.violations.push((String::new(), what));
                }
            }
        }
    }
}

pub fn run(tier: Tier, seed: u64, replay: Option<String>) -> i32 {
    // Ctx::new removes stale viol files; scratch contexts used while shrinking must not: see shrink_case
    let mut ctx = Ctx::new("C07", tier, seed);
    ctx.max_replays = 8;
    ctx.rule = "one case = a subject type (INTEGER with/without named numbers and ranges up to 128 bits, BOOLEAN, NULL, the ten character string \
                types, BIT STRING with/without named bits, OCTET STRING, OBJECT IDENTIFIER, ENUMERATED, CHOICE, SEQUENCE, SEQUENCE OF; nested two \
                levels) reached through 0..4 type references, a literal value assignment, 0..4 value-reference assignments, nested values \
                partly hoisted into value references, and a holder SEQUENCE whose members carry `DEFAULT <literal>` and `DEFAULT <value reference>`; \
                oracle: the bindings are built with rustc against rasn, each constant and each *_default() is DER-encoded by the built program \
                and decoded by the harness under the model's type into an abstract value that must equal the source value (trailing 0 bits are \
                insignificant only for BIT STRINGs with named bits); one evaluation = one constant or default; non-trivial = literal longer than \
                the shortest of its notation (>=2 chars, >=9 bits, >=2 octets, >=3 arcs, |n| > 2^31, any constructed value) or reached through a \
                value or type reference; distinct by module text and observation point"
        .into();
    ctx.assumptions = vec![
        "rasn 0.27's DER encoder is the observer: AUTOMATIC TAGS components are [i] IMPLICIT, a tag on a CHOICE is explicit; delegate newtypes are transparent".into(),
        "cases whose compilation reports an Err or any warning are skipped and counted (reported-unsupported is not a wrong value)".into(),
        "SEQUENCE OF element types are always named types (a value of SEQUENCE OF <builtin> does not type-check: C01 finding F-seqof-value)".into(),
    ];
    let host = match Host::new() {
        Ok(h) => h,
        Err(e) => {
            eprintln!("INFRA: {e}");
            return 2;
        }
    };
    if let Some(path) = replay {
        let v: Value = serde_json::from_str(&std::fs::read_to_string(&path).expect("replay")).expect("json");
        let case: Case = serde_json::from_str(v["case_json"].as_str().expect("case_json")).expect("case");
        ts_leg(&mut ctx, std::slice::from_ref(&case));
        if let Err(e) = run_cases(&mut ctx, &host, vec![case], "replay", false) {
            eprintln!("{e}");
            return 2;
        }
        return ctx.finish();
    }
    let mut corpus = vec![];
    for (_p, v) in crate::ev::replay_files("C07") {
        if let Some(cj) = v["case_json"].as_str() {
            if let Ok(case) = serde_json::from_str::<Case>(cj) {
                corpus.push(case);
            }
        }
    }
    if !corpus.is_empty() {
        ts_leg(&mut ctx, &corpus);
        if let Err(e) = run_cases(&mut ctx, &host, corpus, "corpus", false) {
            eprintln!("{e}");
            return 2;
        }
    }
    let n = tier.pick(3000, 60000);
    let mut drv = Driver::new(seed, 7, 400);
    let mut done = 0;
    let mut sampled = 0;
    while done < n {
        let take = (n - done).min(1200);
        let cases: Vec<Case> = drv.draw(take).iter().map(|t| gen_case(&t.current(), GenOpts::default())).collect();
        for c in cases.iter() {
            if sampled < 4 && (c.chain > 0 || c.alias_depth > 0) && matches!(c.types[c.subject].k, K::Bits { .. } | K::Oid | K::Choice(_) | K::Seq(_)) {
                ctx.sample_text("case", &case_text(c, "Val-Mod"));
                sampled += 1;
            }
        }
        ts_leg(&mut ctx, &cases);
        if let Err(e) = run_cases(&mut ctx, &host, cases, &format!("b{done}"), true) {
            eprintln!("{e}");
            return 2;
        }
        done += take;
    }
    ctx.extra.insert("cases".into(), json!(n));
    ctx.finish()
}
