//! C13 — whitespace, line endings and comments between tokens do not matter.
use crate::asn::*;
use crate::comp::{self, Cfg, Outcome};
use crate::ev::{Ctx, Driver, Failure, Tier};
use crate::gen::GenCfg;
use crate::props::common::*;
use rayon::prelude::*;
use serde_json::{json, Value};
use std::collections::BTreeMap;

pub fn gen_cfg() -> GenCfg {
    GenCfg { max_modules: 2, max_types: 5, max_values: 3, max_comps: 4, max_depth: 2, ..GenCfg::default() }
}

const COMMENT_BODIES: [&str; 8] = [
    "c",
    "a \"quoted\" word",
    "braces { } ( ) [ ]",
    "keywords END BEGIN SEQUENCE ::=",
    "non-ascii \u{e9}\u{2603}",
    "stars * and / slashes",
    "trailing space ",
    "'0101'B 'AF'H",
];

#[derive(Clone, Copy, Debug, PartialEq, Eq, Hash, PartialOrd, Ord)]
pub enum Form {
    Space,
    Tab,
    TwoSpaces,
    Lf,
    CrLf,
    Nothing,
    LineComment,
    InlineComment,
    BlockComment,
    NestedBlockComment,
    /// `----`: a complete comment without text (X.680 12.6.3)
    EmptyInlineComment,
    /// comments with no blank between them and the neighbouring tokens: `INTEGER--c--,`
    GluedInlineComment,
    GluedLineComment,
    GluedBlockComment,
}

/// bodies that are only legal in one comment style: `--` means nothing inside `/* */`
/// (X.680 12.6.4) and `/*`, `*/` mean nothing inside a `--` comment (12.6.3)
const BLOCK_ONLY_BODIES: [&str; 3] = ["range -- see clause 5", "-- dashes first", "a -- b -- c"];
const LINE_ONLY_BODIES: [&str; 2] = ["slash-star /* inside", "star-slash */ inside"];

fn body_for(form: Form, k: usize) -> &'static str {
    match form {
        Form::BlockComment | Form::NestedBlockComment if k % 3 == 0 => BLOCK_ONLY_BODIES[(k / 3) % BLOCK_ONLY_BODIES.len()],
        Form::LineComment | Form::InlineComment | Form::GluedLineComment if k % 4 == 0 => LINE_ONLY_BODIES[(k / 4) % LINE_ONLY_BODIES.len()],
        _ => COMMENT_BODIES[k % COMMENT_BODIES.len()],
    }
}

impl Form {
    pub const ALL: [Form; 14] = [
        Form::Space,
        Form::Tab,
        Form::TwoSpaces,
        Form::Lf,
        Form::CrLf,
        Form::Nothing,
        Form::LineComment,
        Form::InlineComment,
        Form::BlockComment,
        Form::NestedBlockComment,
        Form::EmptyInlineComment,
        Form::GluedInlineComment,
        Form::GluedLineComment,
        Form::GluedBlockComment,
    ];
    fn class(self) -> &'static str {
        match self {
            Form::Space | Form::Tab | Form::TwoSpaces => "space",
            Form::Lf | Form::CrLf => "linebreak",
            Form::Nothing => "nothing",
            _ => "comment",
        }
    }
    fn text(self, body: &str) -> String {
        match self {
            Form::Space => " ".into(),
            Form::Tab => "\t".into(),
            Form::TwoSpaces => "  ".into(),
            Form::Lf => "\n".into(),
            Form::CrLf => "\r\n".into(),
            Form::Nothing => String::new(),
            Form::LineComment => format!(" -- {body}\n"),
            Form::InlineComment => format!(" -- {body} -- "),
            Form::BlockComment => format!(" /* {body} */ "),
            Form::NestedBlockComment => format!(" /* outer /* {body} */ outer */ "),
            Form::EmptyInlineComment => " ---- ".to_string(),
            Form::GluedInlineComment => format!("--{}--", body.trim_end()),
            Form::GluedLineComment => format!("--{body}\n"),
            Form::GluedBlockComment => format!("/*{body}*/"),
        }
    }
}

fn kind_of(t: &str) -> String {
    let c = t.chars().next().unwrap_or(' ');
    if t.starts_with('"') {
        "cstr".into()
    } else if t.starts_with('\'') {
        "bhstr".into()
    } else if c.is_ascii_digit() || (c == '-' && t.len() > 1) {
        "num".into()
    } else if c.is_alphabetic() {
        if t.contains(':') {
            "alt:value".into()
        } else if t.contains('.') {
            "Module.Type".into()
        } else if t.contains('(') {
            "name(num)".into()
        } else if t.chars().all(|ch| ch.is_uppercase() || ch == '-' || ch.is_ascii_digit()) && t.len() > 1 {
            t.to_string() // keyword
        } else if c.is_uppercase() {
            "Typeref".into()
        } else {
            "ident".into()
        }
    } else {
        t.to_string()
    }
}

fn separable(a: &str, b: &str) -> bool {
    const P: [&str; 8] = ["{", "}", "(", ")", ",", ";", "|", "^"];
    (P.contains(&a) || P.contains(&b)) && !(a == "[" && b == "[") && !(a == "]" && b == "]")
}

/// canonical observation of one compilation: Ok(per-module item texts without docs, sorted warnings) / Err
fn observe(text: &str) -> Result<(Vec<(String, Vec<String>)>, Vec<String>), String> {
    match comp::compile_rasn1(text, &Cfg::default()) {
        Outcome::Ok(c) => {
            let mods = crate::proj::project(&c.generated).map_err(|e| format!("unparsable: {e}"))?;
            let mut w = c.warnings.clone();
            w.sort();
            Ok((mods.into_iter().map(|m| (m.name.clone(), m.items.iter().map(|i| i.text().to_string()).collect())).collect(), w))
        }
        Outcome::Err(e) => Err(format!("Err:{}", e.chars().take(10).collect::<String>())),
        Outcome::Panic(p) => Err(format!("panic:{p}")),
    }
}

#[derive(Clone, Debug, serde::Serialize, serde::Deserialize)]
pub struct Replay {
    pub base: String,
    pub variant: String,
    pub left: String,
    pub right: String,
    pub form_class: String,
}

fn compare(base: &Result<(Vec<(String, Vec<String>)>, Vec<String>), String>, var: &Result<(Vec<(String, Vec<String>)>, Vec<String>), String>) -> Option<(&'static str, String)> {
    match (base, var) {
        (Ok(_), Err(e)) => Some(("err", format!("compiles in the base layout, {e} after re-layout"))),
        (Err(e), Ok(_)) => Some(("ok", format!("{e} in the base layout, compiles after re-layout"))),
        (Err(_), Err(_)) => None,
        (Ok((bm, bw)), Ok((vm, vw))) => {
            if bm != vm {
                let d = bm
                    .iter()
                    .zip(vm.iter())
                    .flat_map(|(a, b)| a.1.iter().zip(b.1.iter()))
                    .find(|(x, y)| x != y)
                    .map(|(x, y)| format!("\n  base   : {}\n  variant: {}", x.chars().take(220).collect::<String>(), y.chars().take(220).collect::<String>()))
                    .unwrap_or_else(|| "item count differs".into());
                return Some(("bindings", format!("bindings differ: {d}")));
            }
            if bw != vw {
                return Some(("warnings", format!("warnings differ: {bw:?} vs {vw:?}")));
            }
            None
        }
    }
}

fn site_id(left: &str, right: &str, form_class: &str) -> String {
    format!("F-ws[{left} {right} {form_class}]")
}

pub fn run(tier: Tier, seed: u64, replay: Option<String>) -> i32 {
    let mut ctx = Ctx::new("C13", tier, seed);
    ctx.max_replays = 60;
    ctx.rule = "generator outputs (token lists known): every token boundary individually x layout forms (quick: tab, LF, `-- c` to end of line, `/* c */`, plus the \
                remaining forms on every 3rd boundary; thorough: all of space, tab, two spaces, LF, CRLF, nothing where the tokens stay separable, `-- c` EOL, \
                `-- c --`, `/* c */`, nested `/* /* c */ */`, the empty comment `----`), comment bodies with quotes, braces, keywords, END, non-ASCII, * and /, `--` inside block comments, `/*` and `*/` inside line comments; plus random subsets of \
                boundaries re-laid-out at once; oracle: same Ok/Err status, token-identical bindings with #[doc] removed, equal warning multisets; one evaluation = one \
                re-layout compared with the base layout; non-trivial = the boundary lies inside an assignment and the form differs from the base layout; distinct by variant text"
        .into();
    ctx.assumptions = vec![
        "tokens follow X.680 §12 (BIT STRING, SEQUENCE OF .. are two tokens each); `alt:value`, `Module.Type` and `name(number)` are emitted as units".into(),
        "the `nothing` form is only used next to one of { } ( ) , ; | ^".into(),
        "findings are keyed per lexer site: (left token kind, right token kind, layout class); a listed site attributes only failures at that site".into(),
    ];
    let mut known_sites: BTreeMap<String, &'static str> = BTreeMap::new();
    for f in &ctx.findings {
        if f.status == "known" {
            known_sites.insert(f.id.clone(), Box::leak(f.id.clone().into_boxed_str()));
        }
    }
    let judge = |ctx: &mut Ctx, base_text: &str, var_text: &str, left: &str, right: &str, form_class: &str, inside: bool, cmp: Option<(&'static str, String)>, seen: &mut std::collections::BTreeSet<String>| {
        ctx.case(var_text, inside);
        ctx.class(&format!("form:{form_class}"));
        if let Some((outcome, detail)) = cmp {
            let id = site_id(left, right, form_class);
            ctx.class(&format!("fails:{outcome}"));
            let fid = known_sites.get(&id).copied();
            if std::env::var("C13_SITES").is_ok() && !seen.contains(&id) {
                println!("SITE\t{id}\t{outcome}\t{}", var_text.lines().find(|l| !base_text.contains(*l)).unwrap_or("").chars().take(160).collect::<String>());
            }
            if fid.is_some() || (seen.insert(id.clone()) && ctx.violations.len() < 40) {
                ctx.fail(Failure {
                    finding: fid,
                    what: format!("{id}: {detail}"),
                    replay: json!({"kind": "c13", "site": id, "outcome": outcome, "case": Replay { base: base_text.to_string(), variant: var_text.to_string(), left: left.to_string(), right: right.to_string(), form_class: form_class.to_string() }, "sources": [{"name": "variant.asn", "text": var_text}]}),
                });
            }
        }
    };
    let mut seen = std::collections::BTreeSet::new();
    if let Some(path) = replay {
        let v: Value = serde_json::from_str(&std::fs::read_to_string(&path).expect("replay")).expect("json");
        let r: Replay = serde_json::from_value(v["case"].clone()).expect("case");
        let cmp = compare(&observe(&r.base), &observe(&r.variant));
        judge(&mut ctx, &r.base, &r.variant, &r.left, &r.right, &r.form_class, true, cmp, &mut seen);
        return ctx.finish();
    }
    for (_p, v) in crate::ev::replay_files("C13") {
        if let Ok(r) = serde_json::from_value::<Replay>(v["case"].clone()) {
            let cmp = compare(&observe(&r.base), &observe(&r.variant));
            judge(&mut ctx, &r.base, &r.variant, &r.left, &r.right, &r.form_class, true, cmp, &mut seen);
        }
    }
    let n_inputs = tier.pick(60, 1000);
    let mut drv = Driver::new(seed, 13, 2500);
    let streams: Vec<Vec<u32>> = drv.draw(n_inputs).iter().map(|t| t.current()).collect();
    let thorough = tier == Tier::Thorough;
    let multi_variants = tier.pick(6, 20);
    let known_ids: std::collections::BTreeSet<String> = known_sites.keys().cloned().collect();
    type Row = (String, String, String, String, &'static str, bool, Option<(&'static str, String)>);
    let rows: Vec<Vec<Row>> = streams
        .par_iter()
        .map(|s| {
            let ms = gen_set(s, &gen_cfg());
            let toks = tokens(&ms);
            let (base_text, _) = render_default(&toks, false);
            let base = observe(&base_text);
            let mut out: Vec<Row> = vec![];
            for i in 1..toks.len() {
                let (l, r) = (&toks[i - 1].text, &toks[i].text);
                let inside = toks[i - 1].module == toks[i].module && toks[i - 1].item == toks[i].item && toks[i].item != HEADER;
                let base_sep = default_sep(&toks, i, false);
                for (fi, form) in Form::ALL.iter().enumerate() {
                    let primary = matches!(form, Form::Tab | Form::Lf | Form::LineComment | Form::BlockComment | Form::GluedInlineComment);
                    if !thorough && !primary && (i + fi) % 3 != 0 {
                        continue;
                    }
                    if *form == Form::Nothing && !separable(l, r) {
                        continue;
                    }
                    let body = body_for(*form, i + fi);
                    let sep = form.text(body);
                    if sep == base_sep {
                        continue;
                    }
                    let (vt, _) = render_with(&toks, &|k| if k == i { sep.clone() } else { default_sep(&toks, k, false) }, "\n");
                    let cmp = compare(&base, &observe(&vt));
                    out.push((base_text.clone(), vt, kind_of(l), kind_of(r), form.class(), inside, cmp));
                }
            }
            // random subsets of boundaries at once: boundaries that are listed finding sites (for the
            // chosen layout class) keep the base layout, so a failure here is an interaction of
            // boundaries that are each fine on their own
            let mut src = crate::src::Src::new(&s[s.len() / 2..]);
            for _ in 0..multi_variants {
                let pct = [10u32, 30, 60][src.pick(3)];
                let mut seps: Vec<Option<String>> = vec![None; toks.len()];
                let mut changed = 0;
                for i in 1..toks.len() {
                    if !src.chance(pct) {
                        continue;
                    }
                    let form = Form::ALL[src.pick(Form::ALL.len())];
                    let (l, r) = (&toks[i - 1].text, &toks[i].text);
                    if form == Form::Nothing && !separable(l, r) {
                        continue;
                    }
                    if known_ids.contains(&site_id(&kind_of(l), &kind_of(r), form.class())) {
                        continue;
                    }
                    let body = body_for(form, src.pick(24));
                    seps[i] = Some(form.text(body));
                    changed += 1;
                }
                if changed < 2 {
                    continue;
                }
                let (vt, _) = render_with(&toks, &|k| seps[k].clone().unwrap_or_else(|| default_sep(&toks, k, false)), "\n");
                let cmp = compare(&base, &observe(&vt));
                out.push((base_text.clone(), vt, "many".to_string(), format!("{changed} boundaries"), "mixed", true, cmp));
            }
            out
        })
        .collect();
    let mut sampled = 0;
    for rs in rows {
        for (bt, vt, l, r, fc, inside, cmp) in rs {
            if sampled < 2 && fc == "comment" {
                ctx.sample_text("re-layout (comment form)", &vt);
                sampled += 1;
            }
            judge(&mut ctx, &bt, &vt, &l, &r, fc, inside, cmp, &mut seen);
        }
    }
    ctx.extra.insert("inputs".into(), json!(n_inputs));
    ctx.finish()
}
