//! C13 — whitespace, line endings and comments between tokens do not matter.
use crate::asn::*;
use crate::comp::{self, Cfg, Outcome};
use crate::ev::{Ctx, Driver, Failure, Tier};
use crate::gen::GenCfg;
use crate::props::common::*;
use rayon::prelude::*;
use serde_json::{json, Value};
use std::collections::BTreeMap;

pub fn gen_cfg() -> GenCfg {
    GenCfg { max_modules: 2, max_types: 5, max_values: 3, max_comps: 4, max_depth: 2, ..GenCfg::default() }
}

const COMMENT_BODIES: [&str; 10] = [
    // the two texts the rasn backend writes above the types it hoists, as a user's comment
    "Anonymous SEQUENCE OF member",
    "Inner type",
    "c",
    "a \"quoted\" word",
    "braces { } ( ) [ ]",
    "keywords END BEGIN SEQUENCE ::=",
    "non-ascii \u{e9}\u{2603}",
    "stars * and / slashes",
    "trailing space ",
    "'0101'B 'AF'H",
];

#[derive(Clone, Copy, Debug, PartialEq, Eq, Hash, PartialOrd, Ord)]
pub enum Form {
    Space,
    Tab,
    TwoSpaces,
    Lf,
    CrLf,
    Nothing,
    LineComment,
    InlineComment,
    BlockComment,
    NestedBlockComment,
    /// `----`: a complete comment without text (X.680 12.6.3)
    EmptyInlineComment,
    /// comments with no blank between them and the neighbouring tokens: `INTEGER--c--,`
    GluedInlineComment,
    GluedLineComment,
    GluedBlockComment,
    /// two `--` comments on two lines: in front of an assignment they are collected into
    /// documentation of more than one line
    TwoLineComments,
    /// a nested block comment that runs over three lines
    MultiLineNestedBlock,
}

/// bodies that are only legal in one comment style: `--` means nothing inside `/* */`
/// (X.680 12.6.4) and `/*`, `*/` mean nothing inside a `--` comment (12.6.3)
const BLOCK_ONLY_BODIES: [&str; 3] = ["range -- see clause 5", "-- dashes first", "a -- b -- c"];
const LINE_ONLY_BODIES: [&str; 2] = ["slash-star /* inside", "star-slash */ inside"];

fn body_for(form: Form, k: usize) -> &'static str {
    match form {
        Form::BlockComment | Form::NestedBlockComment | Form::MultiLineNestedBlock if k % 3 == 0 => BLOCK_ONLY_BODIES[(k / 3) % BLOCK_ONLY_BODIES.len()],
        Form::LineComment | Form::InlineComment | Form::GluedLineComment | Form::TwoLineComments if k % 4 == 0 => LINE_ONLY_BODIES[(k / 4) % LINE_ONLY_BODIES.len()],
        _ => COMMENT_BODIES[k % COMMENT_BODIES.len()],
    }
}

impl Form {
    pub const ALL: [Form; 16] = [
        Form::Space,
        Form::Tab,
        Form::TwoSpaces,
        Form::Lf,
        Form::CrLf,
        Form::Nothing,
        Form::LineComment,
        Form::InlineComment,
        Form::BlockComment,
        Form::NestedBlockComment,
        Form::EmptyInlineComment,
        Form::GluedInlineComment,
        Form::GluedLineComment,
        Form::GluedBlockComment,
        Form::TwoLineComments,
        Form::MultiLineNestedBlock,
    ];
    fn class(self) -> &'static str {
        match self {
            Form::Space | Form::Tab | Form::TwoSpaces => "space",
            Form::Lf | Form::CrLf => "linebreak",
            Form::Nothing => "nothing",
            _ => "comment",
        }
    }
    fn text(self, body: &str) -> String {
        match self {
            Form::Space => " ".into(),
            Form::Tab => "\t".into(),
            Form::TwoSpaces => "  ".into(),
            Form::Lf => "\n".into(),
            Form::CrLf => "\r\n".into(),
            Form::Nothing => String::new(),
            Form::LineComment => format!(" -- {body}\n"),
            Form::InlineComment => format!(" -- {body} -- "),
            Form::BlockComment => format!(" /* {body} */ "),
            Form::NestedBlockComment => format!(" /* outer /* {body} */ outer */ "),
            Form::EmptyInlineComment => " ---- ".to_string(),
            Form::GluedInlineComment => format!("--{}--", body.trim_end()),
            Form::GluedLineComment => format!("--{body}\n"),
            Form::GluedBlockComment => format!("/*{body}*/"),
            Form::TwoLineComments => format!(" -- {body}\n -- second line\n"),
            Form::MultiLineNestedBlock => format!(" /* outer\n /* {body} */\n outer */ "),
        }
    }
}

fn kind_of(t: &str) -> String {
    let c = t.chars().next().unwrap_or(' ');
    if t.starts_with('"') {
        "cstr".into()
    } else if t.starts_with('\'') {
        "bhstr".into()
    } else if c.is_ascii_digit() || (c == '-' && t.len() > 1) {
        "num".into()
    } else if c.is_alphabetic() {
        if t.contains(':') {
            "alt:value".into()
        } else if t.contains('.') {
            "Module.Type".into()
        } else if t.contains('(') {
            "name(num)".into()
        } else if t.chars().all(|ch| ch.is_uppercase() || ch == '-' || ch.is_ascii_digit()) && t.len() > 1 {
            t.to_string() // keyword
        } else if c.is_uppercase() {
            "Typeref".into()
        } else {
            "ident".into()
        }
    } else {
        t.to_string()
    }
}

fn separable(a: &str, b: &str) -> bool {
    const P: [&str; 8] = ["{", "}", "(", ")", ",", ";", "|", "^"];
    (P.contains(&a) || P.contains(&b)) && !(a == "[" && b == "[") && !(a == "]" && b == "]")
}

/// canonical observation of one compilation: Ok(per-module item texts without docs, sorted warnings) / Err
fn observe(text: &str) -> Result<(Vec<(String, Vec<String>)>, Vec<String>), String> {
    match comp::compile_rasn1(text, &Cfg::default()) {
        Outcome::Ok(c) => {
            let mods = crate::proj::project(&c.generated).map_err(|e| format!("unparsable: {e}"))?;
            let mut w = c.warnings.clone();
            w.sort();
            Ok((mods.into_iter().map(|m| (m.name.clone(), m.items.iter().map(|i| i.text().to_string()).collect())).collect(), w))
        }
        Outcome::Err(e) => Err(format!("Err:{}", e.chars().take(10).collect::<String>())),
        Outcome::Panic(p) => Err(format!("panic:{p}")),
    }
}

#[derive(Clone, Debug, serde::Serialize, serde::Deserialize)]
pub struct Replay {
    pub base: String,
    pub variant: String,
    pub left: String,
    pub right: String,
    pub form_class: String,
}

/// `text` without its `identifier = ".."` annotations
fn strip_identifier(text: &str) -> String {
    let mut out = String::new();
    let mut rest = text;
    while let Some(at) = rest.find("identifier = \"") {
        out.push_str(&rest[..at]);
        let tail = &rest[at + 14..];
        rest = tail.find('"').map_or("", |e| &tail[e + 1..]);
    }
    out.push_str(rest);
    out
}

/// the texts the rasn backend puts above hoisted types; it recognises a hoisted type by them
const MARKER_BODIES: [&str; 2] = ["Anonymous SEQUENCE OF member", "Inner type"];

fn compare(base: &Result<(Vec<(String, Vec<String>)>, Vec<String>), String>, var: &Result<(Vec<(String, Vec<String>)>, Vec<String>), String>) -> Option<(&'static str, String)> {
    match (base, var) {
        (Ok(_), Err(e)) => Some(("err", format!("compiles in the base layout, {e} after re-layout"))),
        (Err(e), Ok(_)) => Some(("ok", format!("{e} in the base layout, compiles after re-layout"))),
        (Err(_), Err(_)) => None,
        (Ok((bm, bw)), Ok((vm, vw))) => {
            if bm != vm {
                // do the bindings differ in nothing but `identifier = ".."` annotations?
                let strip = |m: &Vec<(String, Vec<String>)>| -> Vec<(String, Vec<String>)> { m.iter().map(|(n, items)| (n.clone(), items.iter().map(|i| strip_identifier(i)).collect())).collect() };
                let ident_only = strip(bm) == strip(vm);
                let d = bm
                    .iter()
                    .zip(vm.iter())
                    .flat_map(|(a, b)| a.1.iter().zip(b.1.iter()))
                    .find(|(x, y)| x != y)
                    .map(|(x, y)| format!("\n  base   : {}\n  variant: {}", x.chars().take(220).collect::<String>(), y.chars().take(220).collect::<String>()))
                    .unwrap_or_else(|| "item count differs".into());
                return Some((if ident_only { "identifier-only" } else { "bindings" }, format!("bindings differ: {d}")));
            }
            if bw != vw {
                return Some(("warnings", format!("warnings differ: {bw:?} vs {vw:?}")));
            }
            None
        }
    }
}


/// notation the model generator does not write (parameter lists, choice values, classes and
/// their syntax, table constraints, inner type constraints, version brackets, ...): each entry
/// is a group of assignments whose blanks are exactly the boundaries between lexical items
const LIBRARY: [&[&str]; 24] = [
    &["Zp { Ta , Ub } ::= SEQUENCE { a Ta , b Ub OPTIONAL }", "Zpi ::= Zp { INTEGER , BOOLEAN }"],
    &["Zv { INTEGER : lo , INTEGER : hi } ::= INTEGER ( lo .. hi )", "Zvi ::= Zv { 1 , 2 }"],
    &["Zc ::= CHOICE { a INTEGER , b NULL }", "zcv Zc ::= a : 5", "zcw Zc ::= b : NULL"],
    &["Zn ::= INTEGER { one ( 1 ) , two ( 2 ) }", "znv Zn ::= two"],
    &["Zb ::= BIT STRING { first ( 0 ) , third ( 2 ) }", "zbv Zb ::= { first , third }"],
    &["Ze ::= ENUMERATED { red ( 0 ) , green ( 1 ) , ... , blue ( 5 ) }"],
    &["Zt ::= [ APPLICATION 5 ] IMPLICIT SEQUENCE { a [ 0 ] EXPLICIT INTEGER , b [ PRIVATE 1 ] BOOLEAN }"],
    &["Zr ::= INTEGER ( MIN .. 5 | 7 .. MAX )"],
    &["Zs ::= IA5String ( SIZE ( 1 .. 5 ) ^ FROM ( \"a\" .. \"z\" ) )"],
    &["Zs2 ::= SEQUENCE ( SIZE ( 1 .. 5 , ... ) ) OF INTEGER ( 0 .. 9 )"],
    &["Zx ::= INTEGER ( 1 .. 5 , ... , 7 .. 9 )"],
    &["Zw ::= SEQUENCE { a INTEGER OPTIONAL , b BOOLEAN OPTIONAL }", "Zw2 ::= Zw ( WITH COMPONENTS { ... , a PRESENT , b ABSENT } )"],
    &["Zo ::= SEQUENCE OF INTEGER", "Zo2 ::= Zo ( WITH COMPONENT ( 1 .. 5 ) )"],
    &["Zg ::= SEQUENCE { a INTEGER , ... , [[ 2 : b INTEGER , c BOOLEAN OPTIONAL ]] , d NULL OPTIONAL }"],
    &["Zd ::= SEQUENCE { a INTEGER DEFAULT 5 , b BOOLEAN DEFAULT TRUE , c IA5String DEFAULT \"x\" }"],
    &["Zk ::= SEQUENCE { a INTEGER }", "Zk2 ::= SEQUENCE { COMPONENTS OF Zk , z BOOLEAN }"],
    &["zoid OBJECT IDENTIFIER ::= { iso standard 8571 }", "zoid2 OBJECT IDENTIFIER ::= { iso ( 1 ) member-body ( 2 ) 5 }", "zoid3 OBJECT IDENTIFIER ::= { zoid 5 }"],
    &[
        "ZCLS ::= CLASS { &id INTEGER UNIQUE , &Type OPTIONAL } WITH SYNTAX { ID &id [ TYPE &Type ] }",
        "zobj ZCLS ::= { ID 1 TYPE INTEGER }",
        "Zset ZCLS ::= { zobj | { ID 2 TYPE BOOLEAN } , ... }",
        "Zh ::= SEQUENCE { id ZCLS.&id ( { Zset } ) , val ZCLS.&Type ( { Zset } { @id } ) }",
    ],
    &["Zoc ::= OCTET STRING ( CONTAINING INTEGER )", "Zoc2 ::= OCTET STRING ( SIZE ( 4 ) )"],
    &["Zsel ::= CHOICE { a INTEGER , b BOOLEAN }", "Zsel2 ::= a < Zsel"],
    &["Zq ::= SEQUENCE { a INTEGER , b BOOLEAN }", "zqv Zq ::= { a 1 , b TRUE }", "zsov SEQUENCE OF INTEGER ::= { 1 , 2 , 3 }"],
    &["zbs BIT STRING ::= '0101'B", "zos OCTET STRING ::= 'AF'H", "zneg INTEGER ::= -5", "Zpat ::= IA5String ( PATTERN \"a*\" )"],
    &["Zu ::= SET { a [ 1 ] INTEGER , b [ 2 ] SET OF BOOLEAN , ... }", "Zany ::= SEQUENCE { a INTEGER , b ANY DEFINED BY a }"],
    &["Zall ::= INTEGER ( ALL EXCEPT 5 )", "Zinc ::= INTEGER ( INCLUDES Zall )", "Zopt ::= SEQUENCE { a SEQUENCE { b INTEGER } OPTIONAL , c CHOICE { d NULL , e BOOLEAN } , f ENUMERATED { g , h } }"],
];

/// three more modules: the last one imports from the other two, the second clause of its
/// IMPORTS starts with a value reference (after a module that is named without an identifier,
/// a lower-case word could be that identifier: the lexer has to look ahead)
fn add_import_modules(ms: &mut ModuleSet) {
    let Some(first) = ms.modules.first().cloned() else { return };
    let raw = |text: &str| {
        let toks: Vec<String> = text.split_whitespace().map(|t| t.to_string()).collect();
        Item::Raw { name: toks[0].clone(), toks, kind: "import-leg".to_string() }
    };
    let mk = |name: &str, items: Vec<Item>, imports: Vec<Import>| {
        let mut m = first.clone();
        m.name = name.to_string();
        m.items = items;
        m.imports = imports;
        m
    };
    ms.modules.push(mk("Zi-One", vec![raw("Zi-T ::= INTEGER"), raw("zi-val INTEGER ::= 1")], vec![]));
    ms.modules.push(mk("Zi-Two", vec![raw("Zi-U ::= BOOLEAN"), raw("zi-two INTEGER ::= 2"), raw("zi-three INTEGER ::= 3")], vec![]));
    ms.modules.push(mk(
        "Zi-User",
        vec![raw("Zi-S ::= SEQUENCE { a Zi-T DEFAULT zi-val , b Zi-U , c INTEGER DEFAULT zi-two , d INTEGER DEFAULT zi-three }")],
        vec![Import { symbols: vec!["Zi-T".into(), "zi-val".into()], from: "Zi-One".into() }, Import { symbols: vec!["zi-two".into(), "Zi-U".into(), "zi-three".into()], from: "Zi-Two".into() }],
    ));
}

/// append two or three library groups to the first module
fn add_library(ms: &mut ModuleSet, src: &mut crate::src::Src) {
    let k = 2 + src.pick(2);
    let mut used = std::collections::BTreeSet::new();
    for _ in 0..k {
        let g = src.pick(LIBRARY.len());
        if !used.insert(g) {
            continue;
        }
        for a in LIBRARY[g] {
            let toks: Vec<String> = a.split_whitespace().map(|t| t.to_string()).collect();
            ms.modules[0].items.push(Item::Raw { name: toks[0].clone(), toks, kind: format!("library-{g}") });
        }
    }
}

/// the TypeScript backend on the same text: what a TypeScript compiler sees of the output (its
/// own comments removed) and the warnings
fn observe_ts(text: &str) -> Result<(Vec<crate::tsparse::Tok>, Vec<String>), String> {
    match comp::compile_ts(&[text.to_string()]) {
        Outcome::Ok(c) => {
            let toks = crate::tsparse::lex(&c.generated).map_err(|e| format!("unreadable: {e}"))?;
            let mut w = c.warnings.clone();
            w.sort();
            Ok((toks, w))
        }
        Outcome::Err(e) => Err(format!("Err:{}", e.chars().take(10).collect::<String>())),
        Outcome::Panic(p) => Err(format!("panic:{p}")),
    }
}

fn compare_ts(base: &Result<(Vec<crate::tsparse::Tok>, Vec<String>), String>, var: &Result<(Vec<crate::tsparse::Tok>, Vec<String>), String>) -> Option<(&'static str, String)> {
    match (base, var) {
        (Ok(_), Err(e)) => Some(("ts-err", format!("TypeScript backend: compiles in the base layout, {e} after re-layout"))),
        (Err(e), Ok(_)) => Some(("ts-ok", format!("TypeScript backend: {e} in the base layout, compiles after re-layout"))),
        (Err(_), Err(_)) => None,
        (Ok((bt, bw)), Ok((vt, vw))) => {
            if bt != vt {
                let at = bt.iter().zip(vt.iter()).position(|(a, b)| a != b).unwrap_or(bt.len().min(vt.len()));
                let show = |t: &[crate::tsparse::Tok]| format!("{:?}", &t[at.saturating_sub(3).min(t.len())..(at + 6).min(t.len())]);
                return Some(("ts-bindings", format!("TypeScript bindings differ (comments of the output removed) at token {at}:\n  base   : {}\n  variant: {}", show(bt), show(vt))));
            }
            if bw != vw {
                return Some(("ts-warnings", format!("TypeScript backend: warnings differ: {bw:?} vs {vw:?}")));
            }
            None
        }
    }
}

// ---------------------------------------------------------------------------------------
// real-world modules: the harness owns no token list for them, so a light scanner finds the
// whitespace runs that lie between tokens (outside character strings, bstrings / hstrings and
// comments) and only those are re-laid-out

#[derive(Clone, Copy, Debug, PartialEq)]
enum SegKind {
    Code,
    Ws,
    /// comment, cstring, bstring / hstring: never touched
    Opaque,
    /// a `--` comment that ran to the end of its line: the next run must not get a `--` form
    LineComment,
}

fn segments(text: &str) -> Vec<(SegKind, usize, usize)> {
    let b = text.as_bytes();
    let mut out: Vec<(SegKind, usize, usize)> = vec![];
    let mut i = 0;
    let mut push = |k: SegKind, a: usize, e: usize, out: &mut Vec<(SegKind, usize, usize)>| {
        if e > a {
            if let Some(last) = out.last_mut() {
                if last.0 == k && k != SegKind::Opaque && k != SegKind::LineComment && last.2 == a {
                    last.2 = e;
                    return;
                }
            }
            out.push((k, a, e));
        }
    };
    while i < b.len() {
        let c = b[i];
        if c == b'"' {
            let a = i;
            i += 1;
            while i < b.len() {
                if b[i] == b'"' {
                    if i + 1 < b.len() && b[i + 1] == b'"' {
                        i += 2;
                        continue;
                    }
                    i += 1;
                    break;
                }
                i += 1;
            }
            push(SegKind::Opaque, a, i, &mut out);
        } else if c == b'\'' {
            let a = i;
            i += 1;
            while i < b.len() && b[i] != b'\'' {
                i += 1;
            }
            i = (i + 1).min(b.len());
            // the B / H suffix belongs to the literal
            if i < b.len() && (b[i] == b'B' || b[i] == b'H') {
                i += 1;
            }
            push(SegKind::Opaque, a, i, &mut out);
        } else if c == b'-' && i + 1 < b.len() && b[i + 1] == b'-' {
            let a = i;
            i += 2;
            let mut to_eol = true;
            while i < b.len() && b[i] != b'\n' && b[i] != b'\r' {
                if b[i] == b'-' && i + 1 < b.len() && b[i + 1] == b'-' {
                    i += 2;
                    to_eol = false;
                    break;
                }
                i += 1;
            }
            push(if to_eol { SegKind::LineComment } else { SegKind::Opaque }, a, i, &mut out);
        } else if c == b'/' && i + 1 < b.len() && b[i + 1] == b'*' {
            let a = i;
            let mut depth = 0;
            while i < b.len() {
                if b[i] == b'/' && i + 1 < b.len() && b[i + 1] == b'*' {
                    depth += 1;
                    i += 2;
                } else if b[i] == b'*' && i + 1 < b.len() && b[i + 1] == b'/' {
                    depth -= 1;
                    i += 2;
                    if depth == 0 {
                        break;
                    }
                } else {
                    i += 1;
                }
            }
            push(SegKind::Opaque, a, i, &mut out);
        } else if c == b' ' || c == b'\t' || c == b'\n' || c == b'\r' {
            let a = i;
            while i < b.len() && (b[i] == b' ' || b[i] == b'\t' || b[i] == b'\n' || b[i] == b'\r') {
                i += 1;
            }
            push(SegKind::Ws, a, i, &mut out);
        } else {
            let a = i;
            i += 1;
            while i < b.len() && !(b[i] == b' ' || b[i] == b'\t' || b[i] == b'\n' || b[i] == b'\r' || b[i] == b'"' || b[i] == b'\'' || (b[i] == b'-' && i + 1 < b.len() && b[i + 1] == b'-') || (b[i] == b'/' && i + 1 < b.len() && b[i + 1] == b'*')) {
                i += 1;
            }
            push(SegKind::Code, a, i, &mut out);
        }
    }
    out
}

/// the token at the end / start of a chunk of code (a word of letters, digits and hyphens, `...`, `::=`, or one punctuation character)
fn edge_token(chunk: &str, last: bool) -> String {
    let cs: Vec<char> = chunk.chars().collect();
    if cs.is_empty() {
        return String::new();
    }
    let word = |c: char| c.is_alphanumeric() || c == '-' || c == '&';
    if last {
        let e = cs.len();
        if word(cs[e - 1]) {
            let mut a = e;
            while a > 0 && word(cs[a - 1]) {
                a -= 1;
            }
            return cs[a..e].iter().collect();
        }
        for t in ["...", "::=", "..", "[[", "]]"] {
            if chunk.ends_with(t) {
                return t.to_string();
            }
        }
        cs[e - 1].to_string()
    } else {
        if word(cs[0]) {
            let mut e = 0;
            while e < cs.len() && word(cs[e]) {
                e += 1;
            }
            return cs[..e].iter().collect();
        }
        for t in ["...", "::=", "..", "[[", "]]"] {
            if chunk.starts_with(t) {
                return t.to_string();
            }
        }
        cs[0].to_string()
    }
}

/// one re-layout of a real module: every eligible whitespace run gets `f(run index, run text)`
fn relayout(text: &str, segs: &[(SegKind, usize, usize)], f: &dyn Fn(usize, &str, bool) -> Option<String>) -> (String, Vec<(String, String)>) {
    let mut out = String::with_capacity(text.len() + 64);
    let mut sites = vec![];
    // an encoding control section (X.680 54) holds encoding instructions, not ASN.1 notation:
    // nothing behind its keyword is touched
    let stop = segs.iter().position(|(k, a, e)| *k == SegKind::Code && text[*a..*e].contains("ENCODING-CONTROL")).unwrap_or(segs.len());
    for (n, (k, a, e)) in segs.iter().enumerate() {
        let t = &text[*a..*e];
        if n < stop && *k == SegKind::Ws && n > 0 && n + 1 < segs.len() && segs[n + 1].0 == SegKind::Code && matches!(segs[n - 1].0, SegKind::Code | SegKind::LineComment) {
            let after_line_comment = segs[n - 1].0 == SegKind::LineComment;
            if let Some(r) = f(n, t, after_line_comment) {
                if !after_line_comment {
                    sites.push((kind_of(&edge_token(&text[segs[n - 1].1..segs[n - 1].2], true)), kind_of(&edge_token(&text[segs[n + 1].1..segs[n + 1].2], false))));
                }
                out.push_str(&r);
                continue;
            }
        }
        out.push_str(t);
    }
    (out, sites)
}

fn site_id(left: &str, right: &str, form_class: &str) -> String {
    format!("F-ws[{left} {right} {form_class}]")
}

/// one-off enumeration of the lexer sites at which real modules do not survive a re-layout
/// (`C13_COLLECT=1 vcheck C13`): every eligible whitespace run is re-laid-out at once, a
/// failure is bisected down to one run, its site is recorded and excluded, until the file
/// passes. The output is the material for the F-ws[..] entries of known_findings.json.
fn collect_sites() {
    let reals = crate::props::c11::real_modules(100000, 0);
    let results: Vec<Vec<(String, String, usize, String)>> = reals
        .par_iter()
        .map(|(name, text)| {
            let mut found: Vec<(String, String, usize, String)> = vec![];
            if text.len() > 60_000 {
                return found;
            }
            let base = observe(text);
            if base.is_err() {
                return found;
            }
            let segs = segments(text);
            if segs.iter().map(|(_, a, e)| &text[*a..*e]).collect::<String>() != *text {
                return found;
            }
            let forms: Vec<(&'static str, Box<dyn Fn(&str) -> Option<String> + Sync>)> = vec![
                ("linebreak", Box::new(|t: &str| if t.contains('\n') && !t.contains('\r') { Some(t.replace('\n', "\r\n")) } else { None })),
                ("linebreak", Box::new(|t: &str| if !t.contains('\n') { Some("\n".to_string()) } else { None })),
                ("space", Box::new(|t: &str| if !t.contains('\n') { Some("\t".to_string()) } else { None })),
                ("space", Box::new(|t: &str| if !t.contains('\n') { Some(format!("{t} ")) } else { None })),
                ("comment", Box::new(|t: &str| Some(format!(" /* c */{t}")))),
                ("comment", Box::new(|t: &str| if t.contains('\n') { Some(format!(" -- c{t}")) } else { None })),
                ("comment", Box::new(|t: &str| Some(format!(" -- c --{t}")))),
            ];
            for (class, f) in &forms {
                let mut excluded: std::collections::BTreeSet<String> = Default::default();
                for _round in 0..40 {
                    let eligible: Vec<usize> = {
                        let (_, _) = (0, 0);
                        let mut v = vec![];
                        let _ = relayout(text, &segs, &|n, t, alc| {
                            let _ = (n, t, alc);
                            None
                        });
                        for (n, (k, a, e)) in segs.iter().enumerate() {
                            if *k == SegKind::Ws && n > 0 && n + 1 < segs.len() && segs[n + 1].0 == SegKind::Code && segs[n - 1].0 == SegKind::Code && f(&text[*a..*e]).is_some() {
                                let l = kind_of(&edge_token(&text[segs[n - 1].1..segs[n - 1].2], true));
                                let r = kind_of(&edge_token(&text[segs[n + 1].1..segs[n + 1].2], false));
                                if !excluded.contains(&site_id(&l, &r, class)) {
                                    v.push(n);
                                }
                            }
                        }
                        v
                    };
                    let fails = |set: &[usize]| -> bool {
                        let (vt, _) = relayout(text, &segs, &|n, t, alc| if !alc && set.contains(&n) { f(t) } else { None });
                        compare(&base, &observe(&vt)).is_some()
                    };
                    if eligible.is_empty() || !fails(&eligible) {
                        break;
                    }
                    let mut set = eligible.clone();
                    let mut ok = true;
                    while set.len() > 1 {
                        let (a, b) = set.split_at(set.len() / 2);
                        if fails(a) {
                            set = a.to_vec();
                        } else if fails(b) {
                            set = b.to_vec();
                        } else {
                            ok = false;
                            break;
                        }
                    }
                    if !ok {
                        found.push(("INTERACTION".into(), class.to_string(), text.len(), name.clone()));
                        break;
                    }
                    let n = set[0];
                    let l = kind_of(&edge_token(&text[segs[n - 1].1..segs[n - 1].2], true));
                    let r = kind_of(&edge_token(&text[segs[n + 1].1..segs[n + 1].2], false));
                    let id = site_id(&l, &r, class);
                    let line: String = text[..segs[n].1].lines().last().unwrap_or("").chars().rev().take(50).collect::<String>().chars().rev().collect::<String>() + " <<>> " + &text[segs[n].2..].lines().next().unwrap_or("").chars().take(40).collect::<String>();
                    found.push((id.clone(), line, text.len(), name.clone()));
                    excluded.insert(id);
                }
            }
            found
        })
        .collect();
    let mut by_site: BTreeMap<String, Vec<(usize, String, String)>> = BTreeMap::new();
    for r in results {
        for (id, line, len, name) in r {
            by_site.entry(id).or_default().push((len, name, line));
        }
    }
    for (id, mut v) in by_site {
        v.sort();
        println!("SITE\t{id}\t{}\t{}\t{}\t{}", v.len(), v[0].0, v[0].1, v[0].2);
    }
}

pub fn run(tier: Tier, seed: u64, replay: Option<String>) -> i32 {
    if std::env::var("C13_COLLECT").is_ok() {
        collect_sites();
        return 0;
    }
    let mut ctx = Ctx::new("C13", tier, seed);
    ctx.max_replays = 60;
    ctx.rule = "generator outputs (token lists known): every token boundary individually x layout forms (quick: tab, LF, `-- c` to end of line, `/* c */`, plus the \
                remaining forms on every 3rd boundary; thorough: all of space, tab, two spaces, LF, CRLF, nothing where the tokens stay separable, `-- c` EOL, \
                `-- c --`, `/* c */`, nested `/* /* c */ */` on one line and over three, two `--` comments on two lines, the empty comment `----`), comment bodies with quotes, braces, keywords, END, non-ASCII, * and /, `--` inside block comments, `/*` and `*/` inside line comments; plus random subsets of \
                boundaries re-laid-out at once; oracle: same Ok/Err status, token-identical bindings with #[doc] removed, equal warning multisets; one evaluation = one \
                re-layout compared with the base layout; non-trivial = the boundary lies inside an assignment and the form differs from the base layout; distinct by variant text"
        .into();
    ctx.assumptions = vec![
        "tokens follow X.680 §12 (BIT STRING, SEQUENCE OF .. are two tokens each); `alt:value`, `Module.Type` and `name(number)` are emitted as units".into(),
        "the `nothing` form is only used next to one of { } ( ) , ; | ^".into(),
        "findings are keyed per lexer site: (left token kind, right token kind, layout class); a listed site attributes only failures at that site".into(),
    ];
    let mut known_sites: BTreeMap<String, &'static str> = BTreeMap::new();
    for f in &ctx.findings {
        if f.status == "known" {
            known_sites.insert(f.id.clone(), Box::leak(f.id.clone().into_boxed_str()));
        }
    }
    let judge = |ctx: &mut Ctx, base_text: &str, var_text: &str, left: &str, right: &str, form_class: &str, inside: bool, cmp: Option<(&'static str, String)>, seen: &mut std::collections::BTreeSet<String>| {
        ctx.case(var_text, inside);
        ctx.class(&format!("form:{form_class}"));
        if let Some((outcome, detail)) = cmp {
            let id = site_id(left, right, form_class);
            ctx.class(&format!("fails:{outcome}"));
            let mut fid = known_sites.get(&id).copied();
            // F-comment-marker: only the identifier annotation differs and the comment is one of
            // the generator's own marker texts
            if outcome == "identifier-only" && MARKER_BODIES.iter().any(|b| var_text.contains(b)) && !MARKER_BODIES.iter().any(|b| base_text.contains(b)) {
                fid = known_sites.get("F-comment-marker").copied().or(fid);
            }
            if std::env::var("C13_SITES").is_ok() && !seen.contains(&id) {
                println!("SITE\t{id}\t{outcome}\t{}", var_text.lines().find(|l| !base_text.contains(*l)).unwrap_or("").chars().take(160).collect::<String>());
            }
            if fid.is_some() || (seen.insert(id.clone()) && ctx.violations.len() < 40) {
                ctx.fail(Failure {
                    finding: fid,
                    what: format!("{id}: {detail}"),
                    replay: json!({"kind": "c13", "site": id, "outcome": outcome, "case": Replay { base: base_text.to_string(), variant: var_text.to_string(), left: left.to_string(), right: right.to_string(), form_class: form_class.to_string() }, "sources": [{"name": "variant.asn", "text": var_text}]}),
                });
            }
        }
    };
    let mut seen = std::collections::BTreeSet::new();
    if let Some(path) = replay {
        let v: Value = serde_json::from_str(&std::fs::read_to_string(&path).expect("replay")).expect("json");
        let r: Replay = serde_json::from_value(v["case"].clone()).expect("case");
        let cmp = if r.form_class == "ts-comment" { compare_ts(&observe_ts(&r.base), &observe_ts(&r.variant)) } else { compare(&observe(&r.base), &observe(&r.variant)) };
        judge(&mut ctx, &r.base, &r.variant, &r.left, &r.right, &r.form_class, true, cmp, &mut seen);
        return ctx.finish();
    }
    for (_p, v) in crate::ev::replay_files("C13") {
        if let Ok(r) = serde_json::from_value::<Replay>(v["case"].clone()) {
            let cmp = if r.form_class == "ts-comment" { compare_ts(&observe_ts(&r.base), &observe_ts(&r.variant)) } else { compare(&observe(&r.base), &observe(&r.variant)) };
            judge(&mut ctx, &r.base, &r.variant, &r.left, &r.right, &r.form_class, true, cmp, &mut seen);
        }
    }
    let n_inputs = tier.pick(60, 1000);
    let mut drv = Driver::new(seed, 13, 2500);
    let streams: Vec<Vec<u32>> = drv.draw(n_inputs).iter().map(|t| t.current()).collect();
    let thorough = tier == Tier::Thorough;
    let multi_variants = tier.pick(6, 20);
    let known_ids: std::collections::BTreeSet<String> = known_sites.keys().cloned().collect();
    type Row = (String, String, String, String, &'static str, bool, Option<(&'static str, String)>);
    let rows: Vec<Vec<Row>> = streams
        .par_iter()
        .map(|s| {
            let mut ms = gen_set(s, &gen_cfg());
            add_library(&mut ms, &mut crate::src::Src::new(&s[s.len() / 3..]));
            if s.first().map_or(false, |x| x % 2 == 0) {
                add_import_modules(&mut ms);
            }
            let toks = tokens(&ms);
            let (base_text, _) = render_default(&toks, false);
            let base = observe(&base_text);
            let base_ts = observe_ts(&base_text);
            let mut out: Vec<Row> = vec![];
            for i in 1..toks.len() {
                let (l, r) = (&toks[i - 1].text, &toks[i].text);
                let inside = toks[i - 1].module == toks[i].module && toks[i - 1].item == toks[i].item && toks[i].item != HEADER;
                let base_sep = default_sep(&toks, i, false);
                for (fi, form) in Form::ALL.iter().enumerate() {
                    let primary = matches!(form, Form::Tab | Form::Lf | Form::LineComment | Form::BlockComment | Form::GluedInlineComment | Form::TwoLineComments);
                    if !thorough && !primary && (i + fi) % 3 != 0 {
                        continue;
                    }
                    if *form == Form::Nothing && !separable(l, r) {
                        continue;
                    }
                    let body = body_for(*form, i + fi);
                    let sep = form.text(body);
                    if sep == base_sep {
                        continue;
                    }
                    let (vt, _) = render_with(&toks, &|k| if k == i { sep.clone() } else { default_sep(&toks, k, false) }, "\n");
                    let cmp = compare(&base, &observe(&vt));
                    // the TypeScript backend copies comments into its output as well: the same
                    // re-layout through it when the form is a comment
                    if cmp.is_none() && form.class() == "comment" {
                        let tcmp = compare_ts(&base_ts, &observe_ts(&vt));
                        out.push((base_text.clone(), vt.clone(), kind_of(l), kind_of(r), "ts-comment", inside, tcmp));
                    }
                    out.push((base_text.clone(), vt, kind_of(l), kind_of(r), form.class(), inside, cmp));
                }
            }
            // random subsets of boundaries at once: boundaries that are listed finding sites (for the
            // chosen layout class) keep the base layout, so a failure here is an interaction of
            // boundaries that are each fine on their own
            let mut src = crate::src::Src::new(&s[s.len() / 2..]);
            for _ in 0..multi_variants {
                let pct = [10u32, 30, 60][src.pick(3)];
                let mut seps: Vec<Option<String>> = vec![None; toks.len()];
                let mut changed = 0;
                for i in 1..toks.len() {
                    if !src.chance(pct) {
                        continue;
                    }
                    let form = Form::ALL[src.pick(Form::ALL.len())];
                    let (l, r) = (&toks[i - 1].text, &toks[i].text);
                    if form == Form::Nothing && !separable(l, r) {
                        continue;
                    }
                    if known_ids.contains(&site_id(&kind_of(l), &kind_of(r), form.class())) {
                        continue;
                    }
                    // (the marker texts are left to the single-boundary variants: finding
                    // F-comment-marker would colour the whole variant)
                    let body = body_for(form, src.pick(24));
                    let body = if MARKER_BODIES.contains(&body) { "c" } else { body };
                    seps[i] = Some(form.text(body));
                    changed += 1;
                }
                if changed < 2 {
                    continue;
                }
                let (vt, _) = render_with(&toks, &|k| seps[k].clone().unwrap_or_else(|| default_sep(&toks, k, false)), "\n");
                let cmp = compare(&base, &observe(&vt));
                out.push((base_text.clone(), vt, "many".to_string(), format!("{changed} boundaries"), "mixed", true, cmp));
            }
            out
        })
        .collect();
    let mut sampled = 0;
    for rs in rows {
        for (bt, vt, l, r, fc, inside, cmp) in rs {
            if sampled < 2 && fc == "comment" {
                ctx.sample_text("re-layout (comment form)", &vt);
                sampled += 1;
            }
            judge(&mut ctx, &bt, &vt, &l, &r, fc, inside, cmp, &mut seen);
        }
    }
    // ---- real-world modules of the repository that compile: whole-file re-layouts
    {
        let reals = crate::props::c11::real_modules(tier.pick(150, 900), seed);
        type RRow = (String, String, String, String, &'static str, Option<(&'static str, String)>);
        let rrows: Vec<Vec<RRow>> = reals
            .par_iter()
            .map(|(name, text)| {
                let mut out: Vec<RRow> = vec![];
                if text.len() > 60_000 {
                    return out;
                }
                let base = observe(text);
                if base.is_err() {
                    return out;
                }
                let segs = segments(text);
                // the scanner must reproduce the text (guards the leg against its own mistakes)
                if segs.iter().map(|(_, a, e)| &text[*a..*e]).collect::<String>() != *text {
                    return out;
                }
                let h = crate::ev::hash_str(name) ^ seed;
                let pick = |n: usize, m: u64| (h.rotate_left((n % 61) as u32) ^ (n as u64).wrapping_mul(0x9e3779b97f4a7c15)) % m;
                let listed = |l: &str, r: &str, class: &str| known_ids.contains(&site_id(l, r, class));
                let edge = |n: usize| (kind_of(&edge_token(&text[segs[n - 1].1..segs[n - 1].2], true)), kind_of(&edge_token(&text[segs[n + 1].1..segs[n + 1].2], false)));
                let variants: Vec<(&'static str, &'static str, Box<dyn Fn(usize, &str, bool) -> Option<String> + Sync>)> = vec![
                    // every line break becomes CRLF
                    ("real:crlf", "linebreak", Box::new(|n, t: &str, alc| {
                        if !t.contains('\n') || t.contains('\r') {
                            return None;
                        }
                        if !alc {
                            let (l, r) = edge(n);
                            if listed(&l, &r, "linebreak") {
                                return None;
                            }
                        }
                        Some(t.replace('\n', "\r\n"))
                    })),
                    // blanks inside a line become a tab / two blanks
                    ("real:blanks", "space", Box::new(|n, t: &str, alc| {
                        if alc || t.contains('\n') {
                            return None;
                        }
                        let (l, r) = edge(n);
                        if listed(&l, &r, "space") {
                            return None;
                        }
                        Some(if pick(n, 2) == 0 { "\t".to_string() } else { format!("{t} ") })
                    })),
                    // a third of the line ends get a `/* c */` in front of the line break
                    ("real:block-comments", "comment", Box::new(|n, t: &str, alc| {
                        if alc || !t.contains('\n') || pick(n, 3) != 0 {
                            return None;
                        }
                        let (l, r) = edge(n);
                        if listed(&l, &r, "comment") {
                            return None;
                        }
                        Some(format!(" /* {} */{t}", COMMENT_BODIES[n % COMMENT_BODIES.len()]))
                    })),
                    // ... or a `-- c` up to the line break
                    ("real:line-comments", "comment", Box::new(|n, t: &str, alc| {
                        if alc || !t.contains('\n') || pick(n, 3) != 1 {
                            return None;
                        }
                        let (l, r) = edge(n);
                        if listed(&l, &r, "comment") {
                            return None;
                        }
                        Some(format!(" -- {}{t}", COMMENT_BODIES[n % COMMENT_BODIES.len()].trim_end()))
                    })),
                    // one boundary in ten, anywhere in a line, gets an inline comment
                    ("real:inline-comments", "comment", Box::new(|n, t: &str, alc| {
                        if alc || pick(n, 10) != 0 {
                            return None;
                        }
                        let (l, r) = edge(n);
                        if listed(&l, &r, "comment") {
                            return None;
                        }
                        Some(format!(" -- c --{t}"))
                    })),
                ];
                for (leg, class, f) in &variants {
                    let (vt, sites) = relayout(text, &segs, &**f);
                    if sites.is_empty() || vt == *text {
                        continue;
                    }
                    let cmp = compare(&base, &observe(&vt));
                    // a failure is narrowed to one boundary: the first whose re-layout alone fails
                    let (mut l, mut r) = ("many".to_string(), format!("{} boundaries of {name}", sites.len()));
                    let mut vt_final = vt.clone();
                    let mut cmp_final = cmp.clone();
                    if cmp.is_some() {
                        for (n, (k, _, _)) in segs.iter().enumerate() {
                            if *k != SegKind::Ws {
                                continue;
                            }
                            let (one, s1) = relayout(text, &segs, &|m, t, alc| if m == n { f(m, t, alc) } else { None });
                            if s1.is_empty() {
                                continue;
                            }
                            let c1 = compare(&base, &observe(&one));
                            if c1.is_some() {
                                l = s1[0].0.clone();
                                r = s1[0].1.clone();
                                vt_final = one;
                                cmp_final = c1;
                                break;
                            }
                        }
                    }
                    let fc: &'static str = if cmp_final.is_some() && l != "many" { class } else { leg };
                    out.push((text.clone(), vt_final, l, r, fc, cmp_final));
                }
                out
            })
            .collect();
        let mut n_real = 0;
        for rs in rrows {
            if !rs.is_empty() {
                n_real += 1;
            }
            for (bt, vt, l, r, fc, cmp) in rs {
                ctx.class(&format!("leg:real-module:{}", if fc.starts_with("real:") { fc } else { "narrowed-to-one-boundary" }));
                judge(&mut ctx, &bt, &vt, &l, &r, fc, true, cmp, &mut seen);
            }
        }
        ctx.extra.insert("real_modules_relaid".into(), json!(n_real));
    }
    ctx.extra.insert("inputs".into(), json!(n_inputs));
    ctx.finish()
}
