//! C01 — warning-free compilations yield Rust bindings that type-check against rasn.
use crate::asn::*;
use crate::comp::{self, Cfg, Outcome};
use crate::ev::{self, Ctx, Driver, Failure, Tier};
use crate::gen::GenCfg;
use crate::host::{self, Host};
use crate::props::common::*;
use rayon::prelude::*;
use serde_json::{json, Value};

pub fn gen_cfg() -> GenCfg {
    GenCfg {
        // excluded by construction (counted): see known_findings.json
        set_value_cons: false,
        ext_explicit_optional: false,
        groups_nonauto: false,
        empty_set: false,
        cross_module_alias_values: false,
        tagged_auto_choice: false,
        seqof_values: false,
        reloid_distinct: false,
        explicit_tagged_enum: false,
        explicit_struct_default: false,
        set_untagged_choice: false,
        enum_default_via_alias: false,
        refs_in_groups: false,
        explicit_empty_struct: false,
        untagged_choice_ref: false,
        explicit_tagged_constructed: false,
        ..GenCfg::default()
    }
}

const ANNOTATIONS: [&[&str]; 4] = [
    &[],
    &[
        "#[derive(AsnType, Debug, Clone, Decode, Encode, PartialEq, Eq, Hash)]",
        "#[derive(AsnType, Debug, Clone, Decode, Encode, PartialEq, Eq, Hash)]",
    ],
    &[
        "#[derive(AsnType, Debug, Clone, Decode, Encode, PartialEq, Eq, Hash)]",
        "#[allow(dead_code)]",
    ],
    &["#[derive(Eq, Hash)]"],
];
const CUSTOM_IMPORTS: [&[&str]; 3] = [&[], &["core::fmt::*"], &["core::fmt::*", "core::convert::TryFrom"]];

pub fn config_for(i: usize, thorough: bool) -> Cfg {
    let bits = i % 16;
    let mut c = Cfg::from_bits(bits & 7);
    c.opaque_open_types = bits & 8 == 0;
    let (a, ci) = if thorough {
        ((i / 16) % 4, (i / 64) % 3)
    } else {
        // quick: annotations and imports vary with a slower period
        ((i / 16) % 4, (i / 7) % 3)
    };
    if a > 0 {
        c.type_annotations = Some(ANNOTATIONS[a].iter().map(|s| s.to_string()).collect());
    }
    c.custom_imports = CUSTOM_IMPORTS[ci].iter().map(|s| s.to_string()).collect();
    c
}

struct Case {
    ms: ModuleSet,
    text: String,
    cfg: Cfg,
    feats: Vec<&'static str>,
    out: Outcome,
    excluded: std::collections::BTreeMap<&'static str, u64>,
}

fn eval_compile(stream: &[u32], cfg: Cfg) -> Case {
    let (ms, excluded) = gen_set_x(stream, &gen_cfg());
    let text = print(&ms);
    let feats: Vec<&'static str> = features(&ms).into_iter().collect();
    let out = comp::compile_rasn1(&text, &cfg);
    Case { ms, text, cfg, feats, out, excluded }
}

fn ms_count(text: &str) -> usize {
    text.matches(" DEFINITIONS ").count()
}

fn error_lines(stderr: &str) -> Vec<&str> {
    stderr
        .lines()
        .filter(|l| l.starts_with("error") && !l.starts_with("error: aborting"))
        .collect()
}

/// input class of F-set-field-constraint: a SET with a direct member that carries a value
/// or permitted-alphabet constraint (text-level test so that it also works on replays)
fn has_set_member_value_con(text: &str) -> bool {
    // conservative textual predicate: the word SET followed by `{` (not SET OF / SET SIZE)
    let toks: Vec<&str> = text.split_whitespace().collect();
    toks.windows(2).any(|w| w[0] == "SET" && w[1].starts_with('{'))
}

/// classify a rustc failure into a finding signature (input class AND deviation shape)
/// every rustc error of the output on its own: Some(findings) when each error matches a listed
/// finding (used by C07, whose cases can hit several value-notation findings at once)
pub(crate) fn classify_each(text: &str, generated: &str, stderr: &str) -> Option<Vec<&'static str>> {
    let mut blocks: Vec<String> = vec![];
    for l in stderr.lines() {
        if l.starts_with("error: aborting") {
            break;
        }
        if l.starts_with("error") {
            blocks.push(String::new());
        }
        if let Some(b) = blocks.last_mut() {
            b.push_str(l);
            b.push('\n');
        }
    }
    if blocks.is_empty() {
        return None;
    }
    let mut out = vec![];
    for b in &blocks {
        out.push(classify(text, generated, b)?);
    }
    out.sort();
    out.dedup();
    Some(out)
}

/// input class of F-member-name-collision: one SEQUENCE / SET / CHOICE body lists two identifiers
/// whose Rust forms (snake case, hyphens to underscores, keyword escape) coincide
fn has_colliding_members(text: &str) -> bool {
    let snake = |id: &str| -> String {
        let mut o = String::new();
        for (i, c) in id.chars().enumerate() {
            if c == '-' {
                o.push('_');
            } else if c.is_uppercase() {
                if i > 0 && !o.ends_with('_') {
                    o.push('_');
                }
                o.extend(c.to_lowercase());
            } else {
                o.push(c);
            }
        }
        o.trim_start_matches("r_").to_string()
    };
    for body in text.split('{').skip(1) {
        let body = body.split('}').next().unwrap_or("");
        let mut seen = std::collections::BTreeSet::new();
        for comp in body.split(',') {
            if let Some(id) = comp.split_whitespace().next() {
                if id.starts_with(|c: char| c.is_lowercase()) && !seen.insert(snake(id)) {
                    return true;
                }
            }
        }
    }
    false
}

pub(crate) fn classify(text: &str, generated: &str, stderr: &str) -> Option<&'static str> {
    let errs = error_lines(stderr);
    if !errs.is_empty()
        && has_colliding_members(text)
        && errs.iter().any(|l| l.starts_with("error[E0124]") || l.starts_with("error[E0415]"))
        // (E0308: the second of the two parameters shadows the first, of another type)
        && errs.iter().all(|l| ["E0124", "E0428", "E0415", "E0416", "E0119", "E0062", "E0308"].iter().any(|c| l.starts_with(&format!("error[{c}]"))))
    {
        return Some("F-member-name-collision");
    }
    if !errs.is_empty()
        && has_set_member_value_con(text)
        && errs.iter().any(|l| l.contains("Unsupported meta item"))
        && errs.iter().all(|l| {
            l.contains("Unsupported meta item") || (l.contains("the trait bound `Field") && l.contains("is not satisfied"))
        })
    {
        return Some("F-set-field-constraint");
    }
    // F-supertype-import: a value whose governing type is an alias chain that leaves the
    // module is rendered through every supertype constructor, but only the imported symbol
    // is in scope
    if ms_count(text) > 1
        && !errs.is_empty()
        && errs.iter().all(|l| {
            l.starts_with("error[E0425]: cannot find function, tuple struct or tuple variant `")
        })
    {
        let all_foreign = errs.iter().all(|l| {
            let name = l.split('`').nth(1).unwrap_or("?");
            // the missing constructor is a type item of another generated module
            generated.matches(&format!("pub struct {name} (")).count() >= 1
        });
        if all_foreign {
            return Some("F-supertype-import");
        }
    }
    // F-tagged-choice-automatic
    if !errs.is_empty()
        && errs.iter().all(|l| l.starts_with("error[E0080]") && l.contains("'s variants is not unique"))
    {
        let ok = errs.iter().all(|l| {
            let inner = l
                .split("evaluation panicked: ")
                .nth(1)
                .and_then(|r| r.split("'s variants").next())
                .unwrap_or("?");
            match inner.strip_prefix("Inner") {
                Some(name) => generated.split("# [rasn (choice , tag (explicit (").skip(1).any(|seg| {
                    let attr = seg.split(")]").next().unwrap_or("");
                    let after: String = seg.chars().skip(attr.len()).take(200).collect();
                    attr.contains("automatic_tags") && after.contains(&format!("pub enum {name} {{"))
                }),
                None => false,
            }
        });
        if ok {
            return Some("F-tagged-choice-automatic");
        }
    }
    // F-seqof-value: elements of a value of a named SEQUENCE OF type are not wrapped in the
    // hoisted Anonymous<Name> element type
    if !errs.is_empty()
        && errs.iter().all(|l| l.starts_with("error[E0308]: mismatched types"))
        && stderr.contains("expected `Anonymous")
        && generated.contains("(alloc :: vec ! [")
    {
        return Some("F-seqof-value");
    }
    // F-reloid-as-oid: RELATIVE-OID is rendered as ObjectIdentifier (UNIVERSAL 6 instead of 13)
    if !errs.is_empty()
        && text.contains("RELATIVE-OID")
        && text.contains("OBJECT IDENTIFIER")
        && errs.iter().all(|l| {
            l.starts_with("error[E0080]")
                && (l.contains("'s variants is not unique") || l.contains("fields is not a valid order of ASN.1 tags"))
        })
    {
        // the offending item has at least two untagged ObjectIdentifier members
        let ok = errs.iter().all(|l| {
            let name = l
                .split("evaluation panicked: ")
                .nth(1)
                .and_then(|r| r.split("'s ").next())
                .unwrap_or("?");
            let body = generated
                .split(&format!(" {name} {{"))
                .nth(1)
                .and_then(|r| r.split('}').next())
                .unwrap_or("");
            body.matches("ObjectIdentifier").count() >= 2
        });
        if ok {
            return Some("F-reloid-as-oid");
        }
    }
    // F-explicit-enum
    if !errs.is_empty()
        && errs.iter().all(|l| l.starts_with("error[E0080]") && l.contains("'s variants is not unique"))
    {
        let ok = errs.iter().all(|l| {
            let inner = l
                .split("evaluation panicked: ")
                .nth(1)
                .and_then(|r| r.split("'s variants").next())
                .unwrap_or("?");
            match inner.strip_prefix("Inner") {
                Some(name) => generated.split("# [rasn (enumerated , tag (explicit (").skip(1).any(|seg| {
                    let attr = seg.split(")]").next().unwrap_or("");
                    let after: String = seg.chars().skip(attr.len()).take(200).collect();
                    after.contains(&format!("pub enum {name} {{"))
                }),
                None => false,
            }
        });
        if ok {
            return Some("F-explicit-enum");
        }
    }
    // F-explicit-struct-default
    if !errs.is_empty()
        && errs.iter().all(|l| l.starts_with("error[E0271]: expected `") && l.contains("_default` to return `&"))
        && generated.split("# [rasn (").skip(1).any(|seg| {
            let attr = seg.split(")]").next().unwrap_or("");
            let after: String = seg.chars().skip(attr.len()).take(80).collect();
            attr.contains("tag (explicit (") && after.contains("pub struct ")
        })
    {
        return Some("F-explicit-struct-default");
    }
    // F-set-choice-members
    if !errs.is_empty()
        && errs.iter().all(|l| l.starts_with("error[E0080]") && l.contains("Fields's variants is not unique"))
    {
        let ok = errs.iter().all(|l| {
            let name = l
                .split("evaluation panicked: ")
                .nth(1)
                .and_then(|r| r.split("Fields's variants").next())
                .unwrap_or("?");
            generated.split("# [rasn (set").skip(1).any(|seg| {
                let attr = seg.split(")]").next().unwrap_or("");
                let after: String = seg.chars().skip(attr.len()).take(120).collect();
                after.contains(&format!("pub struct {name} {{"))
            })
        });
        if ok {
            return Some("F-set-choice-members");
        }
    }
    // F-enum-default-alias
    if !errs.is_empty()
        && errs.iter().all(|l| l.starts_with("error[E0308]: mismatched types"))
        && generated.split("_default () -> ").skip(1).any(|seg| {
            // fn x_default() -> Alias { Enum :: item }
            let mut it = seg.split_whitespace();
            let ret = it.next().unwrap_or("");
            let body: Vec<&str> = seg.split('{').nth(1).unwrap_or("").split('}').next().unwrap_or("").split_whitespace().collect();
            body.len() == 3 && body[1] == "::" && body[0] != ret && stderr.contains(&format!("expected `{ret}`, found `{}`", body[0]))
        })
    {
        return Some("F-enum-default-alias");
    }
    // F-recursive-choice-cycle
    if !errs.is_empty()
        && errs.iter().all(|l| l.starts_with("error[E0391]: cycle detected when") && l.contains("TAG_TREE"))
        && generated.contains("# [rasn (choice")
        && generated.contains("(Box <")
    {
        return Some("F-recursive-choice-cycle");
    }
    // F-recursive-group
    if !errs.is_empty()
        && errs.iter().all(|l| l.starts_with("error[E0277]: the trait bound `Box<") && l.contains("ExtGroup") && l.contains(": Constructed<"))
    {
        return Some("F-recursive-group");
    }
    // F-explicit-empty-struct
    if !errs.is_empty()
        && errs.iter().all(|l| l.starts_with("error[E0392]: lifetime parameter `'inner"))
        && generated.split("# [rasn (").skip(1).any(|seg| {
            let attr = seg.split(")]").next().unwrap_or("");
            let after: String = seg.chars().skip(attr.len()).take(120).collect();
            attr.contains("tag (explicit (") && after.contains("pub struct ") && after.contains("{ }")
        })
    {
        return Some("F-explicit-empty-struct");
    }
    // F-explicit-struct-automatic
    if !errs.is_empty()
        && errs.iter().all(|l| l.starts_with("error[E0080]") && l.contains("evaluation panicked: Inner") && l.contains("'s fields is not a valid order of ASN.1 tags"))
    {
        let ok = errs.iter().all(|l| {
            let name = l
                .split("evaluation panicked: Inner")
                .nth(1)
                .and_then(|r| r.split("'s fields").next())
                .unwrap_or("?");
            generated.split("# [rasn (").skip(1).any(|seg| {
                let attr = seg.split(")]").next().unwrap_or("");
                let after: String = seg.chars().skip(attr.len()).take(160).collect();
                attr.contains("tag (explicit (") && attr.contains("automatic_tags") && after.contains(&format!("pub struct {name} {{"))
            })
        });
        if ok {
            return Some("F-explicit-struct-automatic");
        }
    }
    // --- value notation (found by C07's value generator; the §3 generator of this check stays
    // inside the notation whose bindings type-check) -------------------------------------
    // F-struct-value-ctor: a SEQUENCE value that is not the direct value of an assignment
    // governed by the SEQUENCE type itself (DEFAULT, governed through a type reference) is
    // wrapped once more in the struct's name, or built with `new` on the delegate
    if !errs.is_empty()
        && generated.contains(":: new (")
        && errs.iter().all(|l| {
            l.starts_with("error[E0423]: expected function, tuple struct or tuple variant, found struct `")
                || (l.starts_with("error[E0599]: no function or associated item named `new` found for struct `"))
        })
    {
        let ok = errs.iter().all(|l| {
            let name = l.split('`').rev().nth(1).unwrap_or("?");
            let name = if l.contains("E0599") { l.split("found for struct `").nth(1).and_then(|r| r.split('`').next()).unwrap_or("?") } else { name };
            generated.contains(&format!("{name} ({name} :: new ("))
                || generated.contains(&format!("{name} :: new (")) && generated.contains(&format!("pub struct {name} (pub "))
                // a struct with named fields called like a tuple struct around a nested value
                || l.contains("E0423") && generated.contains(&format!("pub struct {name} {{")) && generated.contains(&format!(" {name} ("))
        });
        if ok {
            return Some("F-struct-value-ctor");
        }
    }
    // F-brace-value-as-oid: a braces value governed by a SEQUENCE OF type, or by a SEQUENCE with a
    // single member, that is a DEFAULT or governed through a type reference is read as an OBJECT
    // IDENTIFIER value: its identifiers become undefined constants spliced with `&***X`, and the
    // value has type ObjectIdentifier
    if !errs.is_empty() && generated.contains("Oid :: ") {
        let ok = errs.iter().all(|l| {
            if l.starts_with("error[E0308]") {
                stderr.contains("found `ObjectIdentifier`")
            } else if l.starts_with("error[E0425]: cannot find value `") {
                let n = l.split('`').nth(1).unwrap_or("?");
                generated.contains(&format!("& * * * {n} ,")) || generated.contains(&format!("& * * * {n}]"))
            } else if l.starts_with("error[E0423]: expected function, tuple struct or tuple variant, found struct `") {
                let n = l.split('`').nth(1).unwrap_or("?");
                generated.contains(&format!("{n} (Oid :: "))
            } else {
                false
            }
        });
        if ok {
            return Some("F-brace-value-as-oid");
        }
    }
    // F-struct-value-optional: a present OPTIONAL member of a SEQUENCE value is passed to
    // `new` without `Some(..)`
    if !errs.is_empty()
        && text.contains("OPTIONAL")
        && generated.contains(":: new (")
        && errs.iter().all(|l| l.starts_with("error[E0308]: mismatched types") || l.starts_with("error[E0308]: arguments to this function are incorrect"))
        && stderr.lines().filter(|l| l.contains("expected `")).all(|l| l.contains("expected `Option<") || l.contains("found `LazyLock<"))
        && stderr.contains("expected `Option<")
    {
        return Some("F-struct-value-optional");
    }
    // (same finding, other shape: the member value is a `collect()` whose target becomes Option<_>)
    if !errs.is_empty()
        && text.contains("OPTIONAL")
        && generated.contains(":: new (")
        && errs.iter().all(|l| l.starts_with("error[E0277]: a value of type `Option<") && l.contains("cannot be built from an iterator"))
    {
        return Some("F-struct-value-optional");
    }
    // F-oid-prefix-alias: an OID value whose first component is a value of a *referenced*
    // OBJECT IDENTIFIER type is spliced with `&***X`, one dereference too many for a delegate
    if !errs.is_empty()
        && generated.contains("& * * * ")
        && errs.iter().all(|l| l.starts_with("error[E0614]: type `") && l.ends_with("` cannot be dereferenced"))
    {
        return Some("F-oid-prefix-alias");
    }
    // F-nested-valueref-lazy: a value reference nested in a SEQUENCE / SEQUENCE OF / CHOICE value
    // names a lazily initialised static where the value itself is needed
    if !errs.is_empty()
        && errs.iter().all(|l| l.starts_with("error[E0308]: mismatched types") || l.starts_with("error[E0308]: arguments to this function are incorrect"))
        && stderr.contains("found `LazyLock<")
        && stderr.lines().filter(|l| l.contains("expected `") && l.contains("found `")).all(|l| l.contains("found `LazyLock<"))
    {
        return Some("F-nested-valueref-lazy");
    }
    // F-oid-unknown-name: the X.660 name forms `ccitt` and `a`..`z` are not in the table of
    // well-known arcs and are taken for value references
    if !errs.is_empty() && errs.iter().all(|l| l.starts_with("error[E0425]: cannot find value `")) {
        let names: Vec<String> = errs.iter().map(|l| l.split('`').nth(1).unwrap_or("?").to_lowercase().replace('_', "-")).collect();
        let x660 = ["ccitt", "question", "recommendation", "administration", "network-operator", "identified-organization", "r-recommendation"];
        let in_oid_value = |n: &str| text.split('{').skip(1).any(|seg| seg.split('}').next().unwrap_or("").split_whitespace().any(|w| w == n));
        if names.iter().any(|n| n == "ccitt" || (n.len() == 1 && n.chars().all(|c| c.is_ascii_lowercase())))
            && names.iter().all(|n| (x660.contains(&n.as_str()) || n.len() == 1) && in_oid_value(n))
        {
            return Some("F-oid-unknown-name");
        }
    }
    // F-empty-set
    if !errs.is_empty()
        && errs.iter().all(|l| l.starts_with("error: struct without fields not allowed to be a `set`"))
        && generated.contains("{ }")
        && generated.contains("# [rasn (set")
    {
        return Some("F-empty-set");
    }
    // F-group-tags: a struct that has an extension_addition_group member and is not
    // automatically tagged fails rasn's compile-time tag-order check (the hoisted group struct
    // takes part with UNIVERSAL 16 instead of its members' tags)
    if !errs.is_empty()
        && errs.iter().all(|l| l.starts_with("error[E0080]") && l.contains("fields is not a valid order of ASN.1 tags"))
    {
        let all_grouped = errs.iter().all(|l| {
            let name = l
                .split("evaluation panicked: ")
                .nth(1)
                .and_then(|r| r.split("'s fields").next())
                .unwrap_or("?");
            match generated.split(&format!("pub struct {name} {{")).nth(1) {
                Some(rest) => {
                    let body = rest.split("} impl").next().unwrap_or("");
                    let head: String = generated
                        .split(&format!("pub struct {name} {{"))
                        .next()
                        .unwrap_or("")
                        .chars()
                        .rev()
                        .take(260)
                        .collect::<String>()
                        .chars()
                        .rev()
                        .collect();
                    body.contains("extension_addition_group") && !head.contains("automatic_tags")
                }
                None => false,
            }
        });
        if all_grouped {
            return Some("F-group-tags");
        }
    }
    // F-ext-addition-attrs: input class read off the rendered field (an extension addition
    // that carries a constraint annotation or an explicit tag); deviation: one of the four
    // error shapes rasn 0.27's derive produces for such fields
    let has_class = generated.split("# [rasn (").skip(1).any(|seg| {
        let attr = seg.split(")]").next().unwrap_or("");
        attr.starts_with("extension_addition ,")
            && (attr.contains("tag (explicit (")
                || attr.contains("value (")
                || attr.contains("size (")
                || attr.contains("from ("))
    });
    let shape = |l: &str| {
        l.starts_with("error[E0308]: mismatched types")
            || l.starts_with("error[E0308]: `?` operator has incompatible types")
            || (l.starts_with("error[E0271]") && l.contains("_default` to return `Option<_>`"))
            || l.starts_with("error: expected expression, found keyword `const`")
            || l.starts_with("error: expected identifier, found `")
            || l.starts_with("error: expected one of `,`, `:`, or `}`, found `)`")
    };
    if has_class
        && !errs.is_empty()
        && errs.iter().all(|l| shape(l))
        && (stderr.contains("found `Option<Option<_>>`")
            || stderr.contains("to return `Option<_>`")
            || stderr.contains("found keyword `const`")
            || stderr.contains("found `Option<_>`"))
    {
        return Some("F-ext-addition-attrs");
    }
    None
}

fn replay_payload(text: &str, cfg: &Cfg, observed: &str) -> Value {
    json!({
        "kind": "c01",
        "sources": [{"name": "input.asn", "text": text}],
        "config": cfg,
        "observed": observed.chars().take(3000).collect::<String>(),
    })
}

/// judge one premise-satisfying case; None = holds
fn judge_one(host: &Host, text: &str, cfg: &Cfg, generated: &str, tagc: &str) -> Option<Failure> {
    if let Err(e) = crate::proj::project(generated) {
        return Some(Failure {
            finding: None,
            what: format!("generated text does not parse as Rust items: {e}"),
            replay: replay_payload(text, cfg, &e),
        });
    }
    match host.check_one(generated, cfg.no_std_compliant_bindings, tagc) {
        Ok(()) => None,
        Err(e) if e.starts_with("INFRA") => None,
        Err(e) => Some(Failure {
            finding: classify(text, generated, &e),
            what: format!("rustc rejects warning-free bindings: {}", host::first_error(&e)),
            replay: replay_payload(text, cfg, &e),
        }),
    }
}

/// modules with definitive identifiers in their headers and IMPORTS clauses that name the
/// exporting module with the same identifier, with another spelling of it, or without one:
/// the imports of a value, of its governing type, of both and of a type that uses them
fn module_identifier_leg(ctx: &mut Ctx, host: &Host) {
    let header_ids = ["", "{ iso(1) standard(0) 9999 }", "{ iso standard 9999 }"];
    let clause_ids = ["", " { iso(1) standard(0) 9999 }", " { iso standard 9999 }", " { 1 0 9999 }"];
    let symbol_sets = ["Foo, v", "v", "Foo", "v, Bar", "Bar, Foo, v", "v, Foo"];
    let mut k = 0usize;
    let mut reported = 0;
    for h in header_ids {
        for c in clause_ids {
            for syms in symbol_sets {
                let uses = format!(
                    "S ::= SEQUENCE {{ {}{}{}z NULL }}",
                    if syms.contains("Foo") { "a Foo OPTIONAL, " } else { "" },
                    if syms.contains('v') { "b INTEGER DEFAULT v, " } else { "" },
                    if syms.contains("Bar") { "c Bar OPTIONAL, " } else { "" }
                );
                let text = format!(
                    "Oid-A {h} DEFINITIONS AUTOMATIC TAGS ::= BEGIN\nFoo ::= INTEGER (0..7)\nv Foo ::= 5\nBar ::= SEQUENCE {{ a Foo, e ENUMERATED {{ x, y }} }}\nEND\nOid-B DEFINITIONS AUTOMATIC TAGS ::= BEGIN\nIMPORTS {syms} FROM Oid-A{c};\n{uses}\nEND\n"
                );
                for bits in [0usize, 1] {
                    k += 1;
                    let cfg = Cfg::from_bits(bits);
                    let Outcome::Ok(o) = comp::compile_rasn1(&text, &cfg) else {
                        ctx.class("module-identifier:rejected");
                        continue;
                    };
                    if !o.warnings.is_empty() {
                        ctx.class("module-identifier:warnings");
                        continue;
                    }
                    ctx.case(&format!("{text}{bits}"), true);
                    ctx.class("leg:module-identifiers-in-header-and-imports");
                    if let Some(f) = judge_one(host, &text, &cfg, &o.generated, &format!("mid{k}")) {
                        let known = f.finding.map_or(false, |id| ctx.is_known(id));
                        ctx.class("fails:module-identifier");
                        if known || reported < 3 {
                            if !known {
                                reported += 1;
                            }
                            ctx.fail(f);
                        }
                    }
                }
            }
        }
    }
}


/// runs a list of written-out inputs through the premise filter and the rustc judge
fn text_leg(ctx: &mut Ctx, host: &Host, label: &str, texts: &[String], cfg_bits: &[usize]) {
    let mut reported = 0;
    let mut k = 0usize;
    for text in texts {
        for &bits in cfg_bits {
            k += 1;
            let cfg = Cfg::from_bits(bits);
            let Outcome::Ok(o) = comp::compile_rasn1(text, &cfg) else {
                ctx.class(&format!("{label}:rejected"));
                continue;
            };
            if !o.warnings.is_empty() {
                ctx.class(&format!("{label}:warnings"));
                continue;
            }
            ctx.case(&format!("{text}{bits}"), true);
            ctx.class(&format!("leg:{label}"));
            if let Some(f) = judge_one(host, text, &cfg, &o.generated, &format!("{}{k}", &label[..3])) {
                let known = f.finding.map_or(false, |id| ctx.is_known(id));
                ctx.class(&format!("fails:{label}"));
                if known || reported < 3 {
                    if !known {
                        reported += 1;
                    }
                    ctx.fail(f);
                }
            }
        }
    }
}

/// DEFAULTs (and component values) given by a *reference* to a value assignment of a
/// structured type: the governing type is a SEQUENCE / SET of in-place scalar members (what
/// the linker calls constant) or has a member that is not; same module and imported
fn default_by_reference_leg(ctx: &mut Ctx, host: &Host) {
    let shapes: [(&str, &str); 9] = [
        ("SEQUENCE { x INTEGER (0..100), y INTEGER (0..100) }", "{ x 0, y 0 }"),
        ("SET { b BOOLEAN, n NULL }", "{ b TRUE, n NULL }"),
        ("SEQUENCE { e ENUMERATED { p, q }, b BOOLEAN }", "{ e q, b FALSE }"),
        ("SEQUENCE { inner SEQUENCE { k INTEGER (1..5), l BOOLEAN }, f BOOLEAN }", "{ inner { k 2, l TRUE }, f TRUE }"),
        ("SEQUENCE { s UTF8String, b BOOLEAN }", "{ s \"a\", b TRUE }"),
        ("SEQUENCE { i INTEGER, b BOOLEAN }", "{ i 70000, b TRUE }"),
        ("SEQUENCE { i INTEGER (0..10, ...), b BOOLEAN }", "{ i 3, b TRUE }"),
        ("SET { o OCTET STRING, n NULL }", "{ o '00FF'H, n NULL }"),
        ("SEQUENCE { x INTEGER (-5..5), y BOOLEAN, z NULL }", "{ x -1, y FALSE, z NULL }"),
    ];
    let mut texts = vec![];
    for (ty, val) in shapes {
        for host_kind in ["SEQUENCE", "SET"] {
            texts.push(format!(
                "Dbr-A DEFINITIONS AUTOMATIC TAGS ::= BEGIN\nPoint ::= {ty}\norigin Point ::= {val}\nShape ::= {host_kind} {{ anchor Point DEFAULT origin, name UTF8String }}\nEND\n"
            ));
        }
        texts.push(format!(
            "Dbr-A DEFINITIONS EXPLICIT TAGS ::= BEGIN\nPoint ::= {ty}\norigin Point ::= {val}\nEND\nDbr-B DEFINITIONS AUTOMATIC TAGS ::= BEGIN\nIMPORTS Point, origin FROM Dbr-A;\nShape ::= SEQUENCE {{ name UTF8String, anchor Point DEFAULT origin, other [5] Point DEFAULT origin }}\nEND\n"
        ));
        texts.push(format!(
            "Dbr-A DEFINITIONS IMPLICIT TAGS ::= BEGIN\nPoint ::= {ty}\nAlias ::= Point\norigin Point ::= {val}\nsecond Point ::= origin\nShape ::= SEQUENCE {{ anchor Point DEFAULT second, name UTF8String OPTIONAL }}\nEND\n"
        ));
    }
    text_leg(ctx, host, "default-by-reference-to-structured-value", &texts, &[0, 1, 5]);
}

/// the one type reference that is a Rust keyword as written, `Self` (every other keyword starts
/// with a small letter): each kind of type under that name, used by another type and governing
/// a value
fn keyword_type_name_leg(ctx: &mut Ctx, host: &Host) {
    let kinds = [
        "SEQUENCE OF INTEGER (0..5)",
        "SET OF BOOLEAN",
        "SEQUENCE OF SEQUENCE { a INTEGER }",
        "SEQUENCE { a INTEGER, next Self OPTIONAL }",
        "CHOICE { a NULL, b SEQUENCE OF Self }",
        "ENUMERATED { x, y }",
        "INTEGER (0..7)",
        "SET { a BOOLEAN }",
        "BIT STRING { first(0) }",
    ];
    let mut texts = vec![];
    for k in kinds {
        for tagging in ["AUTOMATIC", "EXPLICIT", "IMPLICIT"] {
            texts.push(format!("Kw-Mod DEFINITIONS {tagging} TAGS ::= BEGIN\nSelf ::= {k}\nUser ::= SEQUENCE {{ s [0] Self, l [1] SEQUENCE OF Self, o [2] Self OPTIONAL }}\nAlias ::= Self\nEND\n"));
        }
    }
    text_leg(ctx, host, "type-reference-spelled-like-a-keyword", &texts, &[0, 3]);
}

/// identifiers that are distinct in ASN.1 and coincide after the documented conversion
/// (`fooBar` / `foo-bar`, `type` / `r-type`) as components, alternatives and enumerals
fn member_name_collision_leg(ctx: &mut Ctx, host: &Host) {
    let pairs = [("fooBar", "foo-bar"), ("type", "r-type"), ("aB", "a-b"), ("x1Y", "x1-y")];
    let mut texts = vec![];
    for (a, b) in pairs {
        texts.push(format!("Kc-Mod DEFINITIONS AUTOMATIC TAGS ::= BEGIN\nS ::= SEQUENCE {{ {a} INTEGER, {b} BOOLEAN }}\nEND\n"));
        texts.push(format!("Kc-Mod DEFINITIONS AUTOMATIC TAGS ::= BEGIN\nT ::= SET {{ {a} INTEGER, mid NULL, {b} BOOLEAN OPTIONAL }}\nEND\n"));
        texts.push(format!("Kc-Mod DEFINITIONS AUTOMATIC TAGS ::= BEGIN\nC ::= CHOICE {{ {a} INTEGER, {b} BOOLEAN }}\nEND\n"));
    }
    text_leg(ctx, host, "member-names-that-coincide-after-conversion", &texts, &[0]);
}

pub fn run(tier: Tier, seed: u64, replay: Option<String>) -> i32 {
    let mut ctx = Ctx::new("C01", tier, seed);
    ctx.rule = "module sets from the §3 grammar generator (proptest choice streams) x RasnConfig round-robin; \
                counted = compile Ok with no warnings (the premise); non-trivial = premise holds and the set shows \
                >=2 feature classes of {recursion, nesting>=2, default, explicit_tag, import, extension_group, \
                constrained_reference, value_assignment}; distinct by input text + config"
        .into();
    ctx.assumptions = vec![
        "rustc (the toolchain in PATH) and the rasn version of /repo/Cargo.lock are the judges".into(),
        "generator emits only valid ASN.1 of the supported notation (DESIGN.md §3)".into(),
    ];
    let host = match Host::new() {
        Ok(h) => h,
        Err(e) => {
            eprintln!("INFRA: {e}");
            return 2;
        }
    };
    if let Some(path) = replay {
        let v: Value = serde_json::from_str(&std::fs::read_to_string(&path).expect("replay file")).expect("json");
        replay_one(&mut ctx, &host, &v, true);
        // exit status and KNOWN-FINDING / VIOLATION lines as for a full run
        return ctx.finish();
    }
    // replay tier
    for (_p, v) in ev::replay_files("C01") {
        replay_one(&mut ctx, &host, &v, false);
    }

    let n = if std::env::var("VERIF_LEGS_ONLY").is_ok() { 0 } else { tier.pick(1600, 30000) };
    let chunk = 800;
    let mut drv = Driver::new(seed, 1, 5000);
    let mut done = 0usize;
    let mut premise = 0u64;
    let mut outcomes = std::collections::BTreeMap::<&'static str, u64>::new();
    let mut seen_heads: std::collections::BTreeSet<String> = Default::default();
    while done < n && seen_heads.len() < 6 {
        let k = chunk.min(n - done);
        let mut trees = drv.draw(k);
        let streams: Vec<Vec<u32>> = trees.iter().map(|t| t.current()).collect();
        let cases: Vec<Case> = streams
            .par_iter()
            .enumerate()
            .map(|(i, s)| eval_compile(s, config_for(done + i, tier == Tier::Thorough)))
            .collect();
        // premise filter
        let mut idx = vec![];
        let mut to_check = vec![];
        for (i, c) in cases.iter().enumerate() {
            *outcomes.entry(c.out.kind()).or_insert(0) += 1;
            if let Outcome::Ok(o) = &c.out {
                if o.warnings.is_empty() {
                    idx.push(i);
                    to_check.push((o.generated.clone(), c.cfg.no_std_compliant_bindings));
                } else {
                    *outcomes.entry("ok_with_warnings").or_insert(0) += 1;
                }
            }
        }
        let results = host.check_all(&to_check, 6);
        for (j, r) in results.iter().enumerate() {
            let i = idx[j];
            let c = &cases[i];
            premise += 1;
            let interesting = c
                .feats
                .iter()
                .filter(|f| {
                    [
                        "recursion",
                        "nesting>=2",
                        "default",
                        "explicit_tag",
                        "import",
                        "extension_group",
                        "constrained_reference",
                        "value_assignment",
                    ]
                    .contains(f)
                })
                .count();
            ctx.case(&format!("{}{:?}", c.text, c.cfg), interesting >= 2);
            for f in &c.feats {
                ctx.class(f);
            }
            for (k, v) in &c.excluded {
                ctx.class_n(&format!("excluded_by_finding[{k}]"), *v);
            }
            if j < 2 && done == 0 {
                ctx.sample(json!({"input": c.text.chars().take(1200).collect::<String>(), "config": c.cfg}));
            }
            let generated = &c.out.ok().unwrap().generated;
            let bad = match r {
                Ok(()) => crate::proj::project(generated).err().map(|e| format!("syn: {e}")),
                Err(e) if e.starts_with("INFRA") => {
                    ctx.inconclusive.push(e.clone());
                    None
                }
                Err(e) => Some(e.clone()),
            };
            if let Some(err) = bad {
                let fid = classify(&c.text, generated, &err);
                if fid.map_or(false, |f| ctx.is_known(f)) {
                    ctx.fail(Failure {
                        finding: fid,
                        what: String::new(),
                        replay: Value::Null,
                    });
                    continue;
                }
                // shrink on the model with the same oracle and the same first error
                let head = host::first_error(&err);
                let head_key: String = head.split(':').take(2).collect::<Vec<_>>().join(":").chars().take(60).collect();
                if !seen_heads.insert(head_key.clone()) {
                    continue;
                }
                let cfg = c.cfg.clone();
                let mut iters = 0;
                let small = shrink_model(
                    &c.ms,
                    &mut |m: &ModuleSet| {
                        iters += 1;
                        let text = print(m);
                        match comp::compile_rasn1(&text, &cfg) {
                            Outcome::Ok(o) if o.warnings.is_empty() => {
                                match host.check_one(&o.generated, cfg.no_std_compliant_bindings, &format!("shr{iters}")) {
                                    Err(e) => {
                                        classify(&text, &o.generated, &e) == fid
                                            && !e.starts_with("INFRA")
                                            && host::first_error(&e).split(':').take(2).collect::<Vec<_>>().join(":").chars().take(60).collect::<String>() == head_key
                                    }
                                    Ok(()) => false,
                                }
                            }
                            _ => false,
                        }
                    },
                    150,
                );
                let text2 = print(&small);
                let gen2 = comp::compile_rasn1(&text2, &cfg).ok().map(|o| o.generated.clone()).unwrap_or_default();
                let f = judge_one(&host, &text2, &cfg, &gen2, "final").unwrap_or(Failure {
                    finding: fid,
                    what: format!("rustc rejects warning-free bindings: {head}"),
                    replay: replay_payload(&c.text, &cfg, &err),
                });
                let mut f = f;
                if let Value::Object(m) = &mut f.replay {
                    m.insert("unshrunk_input".into(), json!(c.text));
                }
                ctx.fail(f);
            }
        }
        done += k;
    }
    module_identifier_leg(&mut ctx, &host);
    default_by_reference_leg(&mut ctx, &host);
    keyword_type_name_leg(&mut ctx, &host);
    member_name_collision_leg(&mut ctx, &host);
    ctx.extra.insert("premise_satisfied".into(), json!(premise));
    ctx.extra.insert("compile_outcomes".into(), json!(outcomes));
    ctx.extra.insert("generated_inputs".into(), json!(done));
    ctx.finish()
}

fn replay_one(ctx: &mut Ctx, host: &Host, v: &Value, verbose: bool) -> i32 {
    let text = v["sources"][0]["text"].as_str().unwrap_or("").to_string();
    let cfg: Cfg = serde_json::from_value::<CfgDe>(v["config"].clone()).map(|c| c.into()).unwrap_or_default();
    let out = comp::compile_rasn1(&text, &cfg);
    ctx.case(&format!("replay{text}{cfg:?}"), true);
    match &out {
        Outcome::Ok(o) if o.warnings.is_empty() => match judge_one(host, &text, &cfg, &o.generated, "replay") {
            Some(f) => {
                if verbose {
                    println!("replay: FAILS: {}", f.what);
                }
                ctx.fail(f);
                1
            }
            None => {
                if verbose {
                    println!("replay: holds");
                }
                0
            }
        },
        other => {
            if verbose {
                println!("replay: premise not satisfied ({})", other.kind());
            }
            0
        }
    }
}

#[derive(serde::Deserialize)]
pub struct CfgDe {
    opaque_open_types: bool,
    default_wildcard_imports: bool,
    generate_from_impls: bool,
    no_std_compliant_bindings: bool,
    custom_imports: Vec<String>,
    type_annotations: Option<Vec<String>>,
}

impl From<CfgDe> for Cfg {
    fn from(c: CfgDe) -> Cfg {
        Cfg {
            opaque_open_types: c.opaque_open_types,
            default_wildcard_imports: c.default_wildcard_imports,
            generate_from_impls: c.generate_from_impls,
            no_std_compliant_bindings: c.no_std_compliant_bindings,
            custom_imports: c.custom_imports,
            type_annotations: c.type_annotations,
        }
    }
}
