//! C20 — compile() delivers exactly the compiled text, and nothing on failure.
use crate::asn::*;
use crate::comp;
use crate::ev::{Ctx, Driver, Failure, Tier};
use crate::gen::GenCfg;
use crate::props::common::*;
use crate::src::Src;
use rasn_compiler::prelude::*;
use rasn_compiler::OutputMode;
use serde_json::json;
use std::collections::BTreeMap;
use std::path::{Path, PathBuf};
use std::process::Command;

pub fn gen_cfg() -> GenCfg {
    GenCfg { max_modules: 3, max_types: 5, max_values: 2, max_comps: 4, max_depth: 2, ..GenCfg::default() }
}

#[derive(Clone, Copy, Debug, PartialEq)]
enum Backend {
    Rasn,
    Ts,
}

impl Backend {
    fn ext(self) -> &'static str {
        match self {
            Backend::Rasn => ".rs",
            Backend::Ts => ".ts",
        }
    }
}

#[derive(Clone, Debug)]
enum Sources {
    Literals(Vec<String>),
    Paths(Vec<PathBuf>),
    PathIter(Vec<PathBuf>),
}

fn expected(backend: Backend, sources: &Sources) -> Result<(String, Vec<String>), String> {
    let r = comp::guarded(|| match backend {
        Backend::Rasn => run_to_string::<RasnBackend>(sources),
        Backend::Ts => run_to_string::<TypescriptBackend>(sources),
    })
    .map_err(|p| format!("panic: {p}"))?;
    r.map(|c| (c.generated, c.warnings.iter().map(|w| w.to_string()).collect())).map_err(|e| e.to_string())
}

fn run_to_string<B: Backend_>(sources: &Sources) -> Result<CompileResult, CompilerError> {
    match sources {
        Sources::Literals(l) => {
            let mut c = Compiler::<B, _>::new().add_asn_literal(l[0].clone());
            for s in &l[1..] {
                c = c.add_asn_literal(s.clone());
            }
            c.compile_to_string()
        }
        Sources::Paths(p) => {
            let mut c = Compiler::<B, _>::new().add_asn_by_path(p[0].clone());
            for s in &p[1..] {
                c = c.add_asn_by_path(s.clone());
            }
            c.compile_to_string()
        }
        Sources::PathIter(p) => Compiler::<B, _>::new().add_asn_sources_by_path(p.iter().cloned()).compile_to_string(),
    }
}

fn run_compile<B: Backend_>(sources: &Sources, mode: OutputMode) -> Result<Vec<CompilerError>, CompilerError> {
    match sources {
        Sources::Literals(l) => {
            let mut c = Compiler::<B, _>::new().add_asn_literal(l[0].clone());
            for s in &l[1..] {
                c = c.add_asn_literal(s.clone());
            }
            c.set_output_mode(mode).compile()
        }
        Sources::Paths(p) => {
            let mut c = Compiler::<B, _>::new().add_asn_by_path(p[0].clone());
            for s in &p[1..] {
                c = c.add_asn_by_path(s.clone());
            }
            c.set_output_mode(mode).compile()
        }
        Sources::PathIter(p) => Compiler::<B, _>::new().set_output_mode(mode).add_asn_sources_by_path(p.iter().cloned()).compile(),
    }
}

use rasn_compiler::prelude::Backend as Backend_;

fn compile_with(backend: Backend, sources: &Sources, mode: OutputMode) -> Result<Result<Vec<String>, String>, String> {
    comp::guarded(|| {
        let r = match backend {
            Backend::Rasn => run_compile::<RasnBackend>(sources, mode),
            Backend::Ts => run_compile::<TypescriptBackend>(sources, mode),
        };
        r.map(|w| w.iter().map(|x| x.to_string()).collect::<Vec<String>>()).map_err(|e| e.to_string())
    })
}

type Snapshot = BTreeMap<String, (u64, u64, Option<std::time::SystemTime>)>;

fn snapshot(dir: &Path) -> Snapshot {
    let mut m = BTreeMap::new();
    fn walk(base: &Path, p: &Path, m: &mut Snapshot) {
        if let Ok(rd) = std::fs::read_dir(p) {
            for e in rd.flatten() {
                let path = e.path();
                let rel = path.strip_prefix(base).unwrap().to_string_lossy().to_string();
                if let Ok(md) = std::fs::symlink_metadata(&path) {
                    if md.is_dir() {
                        m.insert(format!("{rel}/"), (0, 0, md.modified().ok()));
                        walk(base, &path, m);
                    } else {
                        let content = std::fs::read(&path).unwrap_or_default();
                        m.insert(rel, (content.len() as u64, crate::ev::hash_str(&String::from_utf8_lossy(&content)), md.modified().ok()));
                    }
                }
            }
        }
    }
    walk(dir, dir, &mut m);
    m
}

#[derive(Clone, Copy, Debug, PartialEq)]
enum Dest {
    AbsentFile,
    ExistingFile,
    DevFull,
    ParentIsFile,
    MissingParent,
    ExistingDir,
    DirWithOccupiedName,
    NoOutput,
}

const DESTS: [Dest; 8] = [
    Dest::AbsentFile,
    Dest::ExistingFile,
    Dest::DevFull,
    Dest::ParentIsFile,
    Dest::MissingParent,
    Dest::ExistingDir,
    Dest::DirWithOccupiedName,
    Dest::NoOutput,
];

/// one library case; returns (clause, detail) on violation
fn library_case(backend: Backend, sources: &Sources, dest: Dest, work: &Path, exp: &Result<(String, Vec<String>), String>) -> Option<(&'static str, String)> {
    let out_dir = work.join("out");
    let _ = std::fs::remove_dir_all(&out_dir);
    std::fs::create_dir_all(&out_dir).ok()?;
    std::fs::write(out_dir.join("bystander.txt"), "bystander").ok()?;
    let gen_name = format!("generated{}", backend.ext());
    let (mode, target, writable): (OutputMode, Option<PathBuf>, bool) = match dest {
        Dest::AbsentFile => {
            let p = out_dir.join(format!("bindings{}", backend.ext()));
            (OutputMode::SingleFile(p.clone()), Some(p), true)
        }
        Dest::ExistingFile => {
            let p = out_dir.join(format!("bindings{}", backend.ext()));
            std::fs::write(&p, "previous content that is longer than nothing\n".repeat(50)).ok()?;
            (OutputMode::SingleFile(p.clone()), Some(p), true)
        }
        Dest::DevFull => (OutputMode::SingleFile(PathBuf::from("/dev/full")), None, false),
        Dest::ParentIsFile => (OutputMode::SingleFile(out_dir.join("bystander.txt").join("x.rs")), None, false),
        Dest::MissingParent => (OutputMode::SingleFile(out_dir.join("no-such-dir").join("x.rs")), None, false),
        Dest::ExistingDir => {
            let d = out_dir.join("dest");
            std::fs::create_dir_all(&d).ok()?;
            (OutputMode::SingleFile(d.clone()), Some(d.join(&gen_name)), true)
        }
        Dest::DirWithOccupiedName => {
            let d = out_dir.join("dest");
            std::fs::create_dir_all(d.join(&gen_name)).ok()?;
            (OutputMode::SingleFile(d), None, false)
        }
        Dest::NoOutput => (OutputMode::NoOutput, None, true),
    };
    let before = snapshot(&out_dir);
    let res = match compile_with(backend, sources, mode) {
        Ok(r) => r,
        Err(p) => return Some(("panic", format!("compile() panicked for destination {dest:?}: {p}"))),
    };
    let after = snapshot(&out_dir);
    match (exp, res) {
        (Err(_), Ok(_)) => Some(("status", "compile_to_string() fails but compile() returned Ok".into())),
        (Err(_), Err(_)) => {
            if before != after {
                Some(("write-on-failure", format!("compilation failed but the destination changed ({dest:?}): before {:?} after {:?}", before.keys().collect::<Vec<_>>(), after.keys().collect::<Vec<_>>())))
            } else {
                None
            }
        }
        (Ok(_), Err(e)) => {
            if writable {
                Some(("status", format!("compile_to_string() succeeds but compile() to {dest:?} returned Err: {e}")))
            } else {
                None // unwritable destination reported as Err: as required
            }
        }
        (Ok((text, warnings)), Ok(w)) => {
            if !writable {
                // (/dev/full only refuses a write of at least one byte: an empty text is "written")
                if text.is_empty() && matches!(dest, Dest::DevFull) {
                    return None;
                }
                return Some(("unwritable-ok", format!("destination {dest:?} cannot be written but compile() returned Ok")));
            }
            if &w != warnings {
                return Some(("warnings", format!("compile() returned warnings {w:?}, compile_to_string() {warnings:?}")));
            }
            match &target {
                Some(t) => {
                    let got = std::fs::read_to_string(t).unwrap_or_else(|e| format!("<unreadable: {e}>"));
                    if &got != text {
                        return Some(("content", format!("{} holds {} bytes, compile_to_string() returned {} bytes (first difference at {:?})", t.display(), got.len(), text.len(), got.bytes().zip(text.bytes()).position(|(a, b)| a != b))));
                    }
                    // nothing else new or changed
                    let rel = t.strip_prefix(&out_dir).unwrap().to_string_lossy().to_string();
                    for (k, v) in &after {
                        if *k == rel {
                            continue;
                        }
                        match before.get(k) {
                            Some(b) if b.0 == v.0 && b.1 == v.1 => {}
                            Some(_) if k.ends_with('/') => {}
                            _ => return Some(("extra-output", format!("{k} was created or changed besides the requested output"))),
                        }
                    }
                    None
                }
                None => {
                    // NoOutput: nothing may change
                    let changed = before.iter().any(|(k, v)| after.get(k).map_or(true, |a| a.0 != v.0 || a.1 != v.1)) || after.len() != before.len();
                    if changed {
                        Some(("no-output", "OutputMode::NoOutput changed the file system".into()))
                    } else {
                        None
                    }
                }
            }
        }
    }
}

/// child entry: `vcheck c20-child <rasn|ts> <file>...` — compile() to stdout, exit 0 / 3
pub fn child_main(args: &[String]) -> i32 {
    let backend = if args.get(1).map(|s| s.as_str()) == Some("ts") { Backend::Ts } else { Backend::Rasn };
    let paths: Vec<PathBuf> = args[2..].iter().map(PathBuf::from).collect();
    let r = compile_with(backend, &Sources::Paths(paths), OutputMode::Stdout);
    match r {
        Ok(Ok(_)) => 0,
        Ok(Err(_)) => 3,
        Err(_) => 101,
    }
}

fn stdout_case(backend: Backend, paths: &[PathBuf], exp: &Result<(String, Vec<String>), String>) -> Option<(&'static str, String)> {
    let exe = std::env::current_exe().ok()?;
    let mut cmd = Command::new(exe);
    cmd.arg("c20-child").arg(if backend == Backend::Ts { "ts" } else { "rasn" });
    for p in paths {
        cmd.arg(p);
    }
    let o = cmd.output().ok()?;
    let code = o.status.code();
    match exp {
        Ok((text, _)) => {
            if code != Some(0) {
                return Some(("stdout-status", format!("child exit {code:?} although compilation succeeds")));
            }
            if o.stdout != text.as_bytes() {
                return Some(("stdout-content", format!("stdout holds {} bytes, compile_to_string() returned {} bytes", o.stdout.len(), text.len())));
            }
            // a standard output that takes no bytes (/dev/full): nothing is delivered, so
            // compile() must say so, whatever the size of the text
            if !text.is_empty() {
                if let Ok(full) = std::fs::OpenOptions::new().write(true).open("/dev/full") {
                    let exe = std::env::current_exe().ok()?;
                    let mut cmd = Command::new(exe);
                    cmd.arg("c20-child").arg(if backend == Backend::Ts { "ts" } else { "rasn" });
                    for p in paths {
                        cmd.arg(p);
                    }
                    cmd.stdout(std::process::Stdio::from(full));
                    let o2 = cmd.output().ok()?;
                    match o2.status.code() {
                        Some(0) => return Some(("stdout-unwritable", format!("compile() returned Ok although standard output accepts no bytes ({} bytes of text were to be written)", text.len()))),
                        Some(101) => return Some(("panic", "compile() to an unwritable stdout panicked".into())),
                        _ => {}
                    }
                }
            }
            None
        }
        Err(_) => {
            if code == Some(101) {
                return Some(("panic", "compile() to stdout panicked".into()));
            }
            if code != Some(3) {
                return Some(("stdout-status", format!("child exit {code:?} although compilation fails")));
            }
            if !o.stdout.is_empty() {
                return Some(("write-on-failure", format!("compilation failed but {} bytes were written to stdout", o.stdout.len())));
            }
            None
        }
    }
}

// ---------------------------------------------------------------------------------------
// CLI

fn build_cli() -> Result<PathBuf, String> {
    let target = "/verif/harness/target/cli";
    let o = Command::new("cargo")
        .args(["build", "--offline", "--release", "-p", "rasn-compiler", "--features", "cli", "--bin", "rasn_compiler_cli", "--target-dir", target])
        .current_dir("/repo")
        .env("CARGO_NET_OFFLINE", "true")
        .output()
        .map_err(|e| format!("INFRA: cannot run cargo: {e}"))?;
    if !o.status.success() {
        return Err(format!("INFRA: CLI build failed: {}", String::from_utf8_lossy(&o.stderr).chars().rev().take(600).collect::<String>().chars().rev().collect::<String>()));
    }
    Ok(PathBuf::from(format!("{target}/release/rasn_compiler_cli")))
}

fn cli_case(cli: &Path, backend: Backend, files: &[(String, String)], work: &Path, variant: usize) -> Option<(&'static str, String)> {
    // lay the sources out in a directory tree with decoys
    let root = work.join("cli");
    let _ = std::fs::remove_dir_all(&root);
    std::fs::create_dir_all(root.join("src/nested/deeper")).ok()?;
    std::fs::create_dir_all(root.join("run")).ok()?;
    let mut paths = vec![];
    for (i, (name, text)) in files.iter().enumerate() {
        let sub = ["src", "src/nested", "src/nested/deeper"][i % 3];
        let ext = if i % 2 == 0 { "asn" } else { "asn1" };
        // every third directory run: the first two files have the same name in different
        // sub-directories (`src/shared.asn`, `src/nested/shared.asn`)
        let shared = variant % 2 == 0 && variant % 3 == 0 && i < 2 && files.len() >= 2;
        let p = if shared { root.join(sub).join("shared.asn") } else { root.join(sub).join(format!("{name}.{ext}")) };
        std::fs::write(&p, text).ok()?;
        paths.push(p);
    }
    std::fs::write(root.join("src/readme.txt"), "not a module ::= garbage").ok()?;
    std::fs::write(root.join("src/nested/notes.asn.bak"), "DEFINITIONS ::= garbage").ok()?;
    let bflag = if backend == Backend::Ts { "typescript" } else { "rasn" };
    let run_dir = root.join("run");
    let mut cmd = Command::new(cli);
    cmd.current_dir(&run_dir).arg("-b").arg(bflag).env("NO_COLOR", "1");
    let use_dir = variant % 2 == 0;
    if use_dir {
        cmd.arg("-d").arg(root.join("src"));
    } else {
        cmd.arg("-m");
        for p in &paths {
            cmd.arg(p);
        }
    }
    let out_file = root.join("run").join(format!("out{}", backend.ext()));
    let out_kind = (variant / 2) % 4;
    match out_kind {
        0 => {
            cmd.arg("-o").arg(&out_file);
        }
        1 => {
            cmd.arg("--stdout");
        }
        2 => {
            cmd.arg("--no-output");
        }
        _ => {} // default: generated.<ext> in the current directory
    }
    let o = cmd.output().ok()?;
    let stderr = String::from_utf8_lossy(&o.stderr).to_string();
    // the order in which the CLI hands the files to the compiler
    let ordered: Vec<PathBuf> = if use_dir {
        let mut v = vec![];
        for line in stderr.lines() {
            if let Some(p) = line.find("Found ASN1 module ") {
                let fname = line[p + "Found ASN1 module ".len()..].trim();
                match paths.iter().find(|x| x.file_name().map_or(false, |f| f.to_string_lossy() == fname) && !v.contains(*x)) {
                    Some(x) => v.push(x.clone()),
                    None => return Some(("cli-search", format!("the CLI picked up `{fname}`, which is not one of the .asn/.asn1 sources"))),
                }
            }
        }
        if v.len() != paths.len() {
            return Some(("cli-search", format!("the directory search found {} of {} .asn/.asn1 files: {stderr}", v.len(), paths.len())));
        }
        v
    } else {
        paths.clone()
    };
    // (two files of the same name: the log does not say which was found first; the other order
    // is tried when the first does not give the delivered text)
    let same_named: Vec<usize> = (0..ordered.len()).filter(|i| ordered[*i].file_name().map_or(false, |f| f == "shared.asn")).collect();
    let mut exp = expected(backend, &Sources::PathIter(ordered.clone()));
    if same_named.len() == 2 {
        let delivered = match out_kind {
            0 => std::fs::read_to_string(&out_file).ok(),
            1 => Some(String::from_utf8_lossy(&o.stdout).to_string()),
            3 => std::fs::read_to_string(run_dir.join(format!("generated{}", backend.ext()))).ok(),
            _ => None,
        };
        if let (Ok((text, _)), Some(d)) = (&exp, &delivered) {
            if text != d {
                let mut other = ordered.clone();
                other.swap(same_named[0], same_named[1]);
                exp = expected(backend, &Sources::PathIter(other));
            }
        }
    }
    let ok = o.status.code() == Some(0);
    match (&exp, ok) {
        (Ok(_), false) => return Some(("cli-status", format!("library compiles these sources but the CLI exit status is {:?}: {}", o.status.code(), stderr.chars().take(300).collect::<String>()))),
        (Err(_), true) => return Some(("cli-status", "library returns Err but the CLI exit status is 0".into())),
        _ => {}
    }
    let default_file = run_dir.join(format!("generated{}", backend.ext()));
    match &exp {
        Ok((text, _)) => match out_kind {
            0 | 3 => {
                let f = if out_kind == 0 { &out_file } else { &default_file };
                let got = std::fs::read_to_string(f).unwrap_or_else(|e| format!("<unreadable {e}>"));
                if &got != text {
                    return Some(("cli-content", format!("{} differs from the library's text ({} vs {} bytes)", f.display(), got.len(), text.len())));
                }
            }
            1 => {
                if o.stdout != text.as_bytes() {
                    return Some(("cli-content", format!("--stdout wrote {} bytes, the library's text has {}", o.stdout.len(), text.len())));
                }
            }
            _ => {
                if out_file.exists() || default_file.exists() || !o.stdout.is_empty() {
                    return Some(("cli-content", "--no-output produced output".into()));
                }
            }
        },
        Err(_) => {
            if out_file.exists() || default_file.exists() || !o.stdout.is_empty() {
                return Some(("write-on-failure", "the CLI wrote output although compilation failed".into()));
            }
        }
    }
    None
}

// ---------------------------------------------------------------------------------------
// asn1! macro: expansion (nightly -Zunpretty=expanded) vs library text

fn strip_attrs_text(item: &syn::Item) -> Option<String> {
    use quote::ToTokens;
    let mut it = item.clone();
    fn keep(a: &syn::Attribute) -> bool {
        !(a.path().is_ident("derive") || a.path().is_ident("doc") || a.path().is_ident("automatically_derived"))
    }
    match &mut it {
        syn::Item::Impl(i) => {
            if i.attrs.iter().any(|a| a.path().is_ident("automatically_derived")) {
                return None; // derive output
            }
            // rasn's derives do not mark all their impls: drop impls of the derived traits
            if let Some((_, path, _)) = &i.trait_ {
                let last = path.segments.last().map(|s| s.ident.to_string()).unwrap_or_default();
                const DERIVED: [&str; 14] = [
                    "AsnType", "Decode", "Encode", "Constructed", "Choice", "DecodeChoice", "Enumerated", "Debug", "Clone", "StructuralPartialEq", "PartialEq", "Eq", "Hash", "Copy",
                ];
                if DERIVED.contains(&last.as_str()) {
                    return None;
                }
            }
        }
        syn::Item::Struct(s) => {
            s.attrs.retain(keep);
            for f in s.fields.iter_mut() {
                f.attrs.retain(keep);
            }
        }
        syn::Item::Enum(e) => {
            e.attrs.retain(keep);
            for v in e.variants.iter_mut() {
                v.attrs.retain(keep);
            }
        }
        syn::Item::Const(c) => c.attrs.retain(keep),
        syn::Item::Static(c) => c.attrs.retain(keep),
        syn::Item::Fn(c) => c.attrs.retain(keep),
        _ => {}
    }
    let mut text = it.to_token_stream().to_string();
    // the pretty-printer wraps long closure bodies in a block: `|| { e }` == `|| e`
    if matches!(it, syn::Item::Static(_)) && text.contains("LazyLock :: new (| | {") && text.ends_with("}) ;") {
        text = text.replacen("LazyLock :: new (| | { ", "LazyLock :: new (| | ", 1);
        text.truncate(text.len() - "}) ;".len());
        text = text.trim_end().to_string();
        text.push_str(") ;");
    }
    // multi-line lists get a trailing comma from the pretty-printer
    for close in [")", "}", "]", ">"] {
        text = text.replace(&format!(", {close}"), &format!(" {close}")).replace(&format!(",{close}"), close);
    }
    let text = text.split_whitespace().collect::<Vec<_>>().join(" ");
    Some(text)
}

fn module_items(m: &syn::ItemMod) -> Vec<String> {
    // (the pretty-printer of -Zunpretty=expanded groups `use` items; they are compared as a
    // sorted block in front of the other items, whose order is kept)
    let all: Vec<(bool, String)> = m
        .content
        .as_ref()
        .map(|c| c.1.iter().filter_map(|it| strip_attrs_text(it).map(|t| (matches!(it, syn::Item::Use(_) | syn::Item::ExternCrate(_)), t))).collect())
        .unwrap_or_default();
    let mut uses: Vec<String> = all.iter().filter(|x| x.0).map(|x| x.1.clone()).collect();
    uses.sort();
    uses.into_iter().chain(all.into_iter().filter(|x| !x.0).map(|x| x.1)).collect()
}

const DUMMY_HEADER: &str = "asn1 { dummy(999) header(999) }\n\nDEFINITIONS AUTOMATIC TAGS::= BEGIN\n";
const DUMMY_FOOTER: &str = "END";

/// spellings of the module header's `::= BEGIN` that the library accepts: lexical items need
/// no white space between them, and a comment may follow the keyword directly
const HEADER_LAYOUTS: [&str; 6] = ["::= BEGIN", "::=BEGIN", "::= BEGIN-- c\n", "::=\nBEGIN", "::=BEGIN--c--", "::=\tBEGIN\r\n"];

/// (literal, is a complete module). Whether a literal is a complete module is known to the
/// generator; it is not re-derived from the text the way the macro does it.
type Snippet = (String, bool);

fn macro_leg(ctx: &mut Ctx, snippets: &[Snippet], failing: &[String]) -> Result<(), String> {
    let host = Path::new("/verif/macrohost");
    let mut lib = String::new();
    for (i, (s, _)) in snippets.iter().enumerate() {
        lib.push_str(&format!("pub mod m{i} {{ rasn_compiler_derive::asn1!(r####\"{s}\"####); }}\n"));
    }
    std::fs::write(host.join("src/lib.rs"), &lib).map_err(|e| format!("INFRA: {e}"))?;
    let o = Command::new("cargo")
        .args(["+nightly", "rustc", "--offline", "--lib", "--", "-Zunpretty=expanded"])
        .current_dir(host)
        .env("CARGO_NET_OFFLINE", "true")
        .env_remove("RUSTFLAGS")
        .output()
        .map_err(|e| format!("INFRA: cannot run cargo +nightly: {e}"))?;
    if !o.status.success() {
        let err = String::from_utf8_lossy(&o.stderr).to_string();
        // a snippet the library compiles must expand: find the literal(s) that do not
        let mut culprits = 0;
        for (s, whole) in snippets {
            let one = format!("pub mod m0 {{ rasn_compiler_derive::asn1!(r####\"{s}\"####); }}\n");
            std::fs::write(host.join("src/lib.rs"), &one).map_err(|e| format!("INFRA: {e}"))?;
            let o1 = Command::new("cargo")
                .args(["+nightly", "rustc", "--offline", "--lib", "--", "-Zunpretty=expanded"])
                .current_dir(host)
                .env("CARGO_NET_OFFLINE", "true")
                .env_remove("RUSTFLAGS")
                .output()
                .map_err(|e| format!("INFRA: cannot run cargo +nightly: {e}"))?;
            ctx.case(&format!("macro:{s}"), true);
            ctx.class("leg:macro");
            if !o1.status.success() {
                culprits += 1;
                if culprits <= 2 {
                    let err1 = String::from_utf8_lossy(&o1.stderr).to_string();
                    ctx.fail(Failure {
                        finding: None,
                        what: format!(
                            "asn1! failed to expand a {} that compile_to_string() accepts: {}",
                            if *whole { "complete module" } else { "list of assignments" },
                            err1.lines().filter(|l| l.contains("error") || l.contains("panicked") || l.contains("message:")).take(3).collect::<Vec<_>>().join(" | ")
                        ),
                        replay: json!({"kind": "c20-macro", "whole": whole, "sources": [{"name": "snippet.asn", "text": s}]}),
                    });
                }
            }
        }
        if culprits == 0 {
            ctx.case(&lib, true);
            ctx.fail(Failure {
                finding: None,
                what: format!("asn1! failed to expand snippets (together, not one by one) that compile_to_string() accepts: {}", err.lines().filter(|l| l.contains("error") || l.contains("panicked")).take(3).collect::<Vec<_>>().join(" | ")),
                replay: json!({"kind": "c20-macro", "sources": [{"name": "lib.rs", "text": lib}]}),
            });
        }
        let _ = std::fs::write(host.join("src/lib.rs"), "// rewritten by ./check C20\n");
        return Ok(());
    }
    let expanded = String::from_utf8_lossy(&o.stdout).to_string();
    let file = syn::parse_file(&expanded).map_err(|e| format!("INFRA: expanded output does not parse: {e}"))?;
    for (i, (s, whole)) in snippets.iter().enumerate() {
        let wrapped = if *whole { s.clone() } else { format!("{DUMMY_HEADER}{s}{DUMMY_FOOTER}") };
        let lib_text = match comp::compile_rasn1(&wrapped, &comp::Cfg::default()) {
            comp::Outcome::Ok(c) => c.generated,
            _ => continue,
        };
        ctx.case(&format!("macro:{s}"), true);
        ctx.class("leg:macro");
        ctx.class(if *whole { "macro:complete-module" } else { "macro:bare-assignments" });
        if *whole && !s.contains("::= BEGIN\n") {
            ctx.class("macro:header-without-plain-spacing");
        }
        let want: Vec<Vec<String>> = syn::parse_file(&lib_text)
            .map(|f| f.items.iter().filter_map(|it| match it { syn::Item::Mod(m) => Some(module_items(m)), _ => None }).collect())
            .unwrap_or_default();
        let outer = file.items.iter().find_map(|it| match it {
            syn::Item::Mod(m) if m.ident == format!("m{i}") => Some(m),
            _ => None,
        });
        let got: Vec<Vec<String>> = outer
            .and_then(|m| m.content.as_ref())
            .map(|c| c.1.iter().filter_map(|it| match it { syn::Item::Mod(m) => Some(module_items(m)), _ => None }).collect())
            .unwrap_or_default();
        if got != want {
            let d = want.iter().flatten().zip(got.iter().flatten()).find(|(a, b)| a != b).map(|(a, b)| format!("\n  library: {}\n  macro  : {}", a.chars().take(200).collect::<String>(), b.chars().take(200).collect::<String>())).unwrap_or_else(|| format!("{} vs {} items", want.iter().flatten().count(), got.iter().flatten().count()));
            ctx.fail(Failure {
                finding: None,
                what: format!("asn1! expansion differs from the library's bindings for snippet {i}: {d}"),
                replay: json!({"kind": "c20-macro", "sources": [{"name": "snippet.asn", "text": s}]}),
            });
        }
    }
    // snippets for which the library returns Err must fail to compile
    for s in failing {
        let one = format!("pub mod m0 {{ rasn_compiler_derive::asn1!(r####\"{s}\"####); }}\n");
        std::fs::write(host.join("src/lib.rs"), &one).map_err(|e| format!("INFRA: {e}"))?;
        let o = Command::new("cargo")
            .args(["+nightly", "rustc", "--offline", "--lib", "--", "-Zunpretty=expanded"])
            .current_dir(host)
            .env("CARGO_NET_OFFLINE", "true")
            .output()
            .map_err(|e| format!("INFRA: {e}"))?;
        ctx.case(&format!("macro-fail:{s}"), true);
        ctx.class("leg:macro-failing");
        if o.status.success() {
            ctx.fail(Failure {
                finding: None,
                what: "asn1! expanded a snippet for which the library returns Err".into(),
                replay: json!({"kind": "c20-macro", "sources": [{"name": "snippet.asn", "text": s}]}),
            });
        }
    }
    let _ = std::fs::write(host.join("src/lib.rs"), "// rewritten by ./check C20\n");
    Ok(())
}

fn snippet_of(ms: &ModuleSet) -> String {
    // the assignments of the first module, without a header (the macro supplies one)
    ms.modules[0].items.iter().map(print_item).collect::<Vec<_>>().join("\n") + "\n"
}

// ---------------------------------------------------------------------------------------
// the builder: sources of all three kinds and the output mode may be given in any order

#[derive(Clone, Debug)]
pub(crate) enum Op {
    Lit(String),
    Path(PathBuf),
    Iter(Vec<PathBuf>),
    Output,
}

pub(crate) enum St<B: Backend_> {
    New(Compiler<B, rasn_compiler::CompilerMissingParams>),
    Src(Compiler<B, rasn_compiler::CompilerSourcesSet>),
    Out(Compiler<B, rasn_compiler::CompilerOutputSet>),
    Ready(Compiler<B, rasn_compiler::CompilerReady>),
}

pub(crate) fn apply_op<B: Backend_>(st: St<B>, op: &Op, out: Option<&Path>) -> St<B> {
    let mode = || match out {
        Some(p) => OutputMode::SingleFile(p.to_path_buf()),
        None => OutputMode::NoOutput,
    };
    match (st, op) {
        (St::New(c), Op::Lit(t)) => St::Src(c.add_asn_literal(t.clone())),
        (St::New(c), Op::Path(p)) => St::Src(c.add_asn_by_path(p.clone())),
        (St::New(c), Op::Iter(ps)) => St::Src(c.add_asn_sources_by_path(ps.iter().cloned())),
        (St::New(c), Op::Output) => St::Out(c.set_output_mode(mode())),
        (St::Src(c), Op::Lit(t)) => St::Src(c.add_asn_literal(t.clone())),
        (St::Src(c), Op::Path(p)) => St::Src(c.add_asn_by_path(p.clone())),
        (St::Src(c), Op::Iter(ps)) => St::Src(c.add_asn_sources_by_path(ps.iter().cloned())),
        (St::Src(c), Op::Output) => St::Ready(c.set_output_mode(mode())),
        (St::Out(c), Op::Lit(t)) => St::Ready(c.add_asn_literal(t.clone())),
        (St::Out(c), Op::Path(p)) => St::Ready(c.add_asn_by_path(p.clone())),
        (St::Out(c), Op::Iter(ps)) => St::Ready(c.add_asn_sources_by_path(ps.iter().cloned())),
        (St::Out(c), Op::Output) => St::Out(c),
        (St::Ready(c), Op::Lit(t)) => St::Ready(c.add_asn_literal(t.clone())),
        (St::Ready(c), Op::Path(p)) => St::Ready(c.add_asn_by_path(p.clone())),
        (St::Ready(c), Op::Iter(ps)) => St::Ready(c.add_asn_sources_by_path(ps.iter().cloned())),
        (St::Ready(c), Op::Output) => St::Ready(c),
    }
}

/// None = holds; the sources are given one per module, each as literal / single path / part of a
/// path iterator, with the output mode set at position `out_at` of the call chain
fn builder_case<B: Backend_>(ops: &[Op], out_file: &Path) -> Option<String> {
    // reference: the same sources, one call each, output mode last
    let mut r = St::<B>::New(Compiler::<B, _>::new());
    for op in ops.iter().filter(|o| !matches!(o, Op::Output)) {
        match op {
            Op::Iter(ps) => {
                for p in ps {
                    r = apply_op(r, &Op::Path(p.clone()), None);
                }
            }
            o => r = apply_op(r, o, None),
        }
    }
    let St::Src(rc) = r else { return None };
    let want = comp::guarded(|| rc.compile_to_string()).ok()?;
    let _ = std::fs::remove_file(out_file);
    let mut st = St::<B>::New(Compiler::<B, _>::new());
    for op in ops {
        st = apply_op(st, op, Some(out_file));
    }
    let St::Ready(c) = st else { return None };
    let got = comp::guarded(|| c.compile());
    let written = std::fs::read_to_string(out_file).ok();
    match (want, got) {
        (Ok(w), Ok(Ok(_))) => match written {
            Some(t) if t == w.generated => None,
            Some(t) => Some(format!("the file holds {} bytes, compile_to_string() over the same sources returns {} bytes", t.len(), w.generated.len())),
            None => Some("compile() returned Ok but wrote no file".into()),
        },
        (Ok(_), Ok(Err(e))) => Some(format!("compile() fails ({e}) where compile_to_string() over the same sources succeeds")),
        (Err(_), Ok(Ok(_))) => Some("compile() succeeds where compile_to_string() over the same sources fails".into()),
        (Err(_), Ok(Err(_))) => written.map(|_| "a failed compile() left a file behind".to_string()),
        (_, Err(p)) => Some(format!("panic: {p}")),
    }
}

fn builder_leg(ctx: &mut Ctx, tier: Tier, seed: u64, work: &Path) {
    let n = tier.pick(120, 1500);
    let mut drv = Driver::new(seed, 2020, 2500);
    let streams: Vec<Vec<u32>> = drv.draw(n).iter().map(|t| t.current()).collect();
    let mut reported = 0;
    for (idx, s) in streams.iter().enumerate() {
        let ms = gen_set(s, &GenCfg { max_modules: 4, imports: false, ..gen_cfg() });
        let dir = work.join(format!("b{idx}"));
        let _ = std::fs::create_dir_all(&dir);
        let mut src = Src::new(&s[s.len() / 2..]);
        // one op per module (a path iterator takes the following modules too), output mode anywhere
        let texts: Vec<String> = ms.modules.iter().map(|m| print(&ModuleSet { modules: vec![m.clone()] })).collect();
        let mut ops: Vec<Op> = vec![];
        let mut i = 0;
        while i < texts.len() {
            let path = |k: usize| {
                let p = dir.join(format!("m{k}.asn"));
                let _ = std::fs::write(&p, &texts[k]);
                p
            };
            match src.pick(3) {
                0 => {
                    ops.push(Op::Lit(texts[i].clone()));
                    i += 1;
                }
                1 => {
                    ops.push(Op::Path(path(i)));
                    i += 1;
                }
                _ => {
                    let k = 1 + src.pick(texts.len() - i);
                    ops.push(Op::Iter((i..i + k).map(path).collect()));
                    i += k;
                }
            }
        }
        let out_at = src.pick(ops.len() + 1);
        ops.insert(out_at, Op::Output);
        let shape: String = ops.iter().map(|o| match o { Op::Lit(_) => "literal", Op::Path(_) => "path", Op::Iter(_) => "path-iterator", Op::Output => "OUTPUT" }).collect::<Vec<_>>().join(" > ");
        for backend in [Backend::Rasn, Backend::Ts] {
            let out_file = dir.join(format!("out{}", backend.ext()));
            let r = match backend {
                Backend::Rasn => builder_case::<RasnBackend>(&ops, &out_file),
                Backend::Ts => builder_case::<TypescriptBackend>(&ops, &out_file),
            };
            ctx.case(&format!("builder:{idx}:{backend:?}:{shape}"), out_at < ops.len() - 1);
            ctx.class("leg:builder-call-order");
            ctx.class(&format!("builder:output-mode-{}", if out_at == 0 { "first" } else if out_at == ops.len() - 1 { "last" } else { "in-between" }));
            if let Some(d) = r {
                ctx.class("fails:builder");
                if reported < 3 {
                    reported += 1;
                    ctx.fail(Failure {
                        finding: None,
                        what: format!("builder calls `{shape}` ({backend:?}): {d}"),
                        replay: json!({"kind": "c20", "clause": "builder", "calls": shape, "backend": format!("{backend:?}"), "sources": texts.iter().enumerate().map(|(k, t)| json!({"name": format!("m{k}"), "text": t})).collect::<Vec<_>>()}),
                    });
                }
            }
        }
        let _ = std::fs::remove_dir_all(&dir);
    }
}

pub fn run(tier: Tier, seed: u64, replay: Option<String>) -> i32 {
    let mut ctx = Ctx::new("C20", tier, seed);
    ctx.level = "fault_enumeration";
    ctx.rule = "generator outputs and malformed variants (one token deleted / an illegal character inserted) x both backends x sources as literal(s), paths and path \
                iterator x destinations {absent file, existing file with other content, /dev/full, path under a regular file, missing parent directory, existing \
                directory, directory whose generated.<ext> is a directory, no output} plus stdout in a child process; the CLI over the same sources (-m / -d with \
                nested directories and decoys; -o / --stdout / --no-output / default) and the asn1! macro (nightly expansion compared item by item with the library's \
                text; failing snippets must not expand); oracle: differential against compile_to_string() and a before/after directory snapshot; one evaluation = one \
                (input, backend, source form, destination) run; non-trivial = pre-existing destination, failing compilation or non-literal source; distinct by case"
        .into();
    ctx.assumptions = vec![
        "the checks run as root: read-only destinations are emulated with /dev/full (ENOSPC), ENOTDIR and EISDIR".into(),
        "the CLI's directory walk order is read from its own log lines".into(),
        "macro equivalence compares the expansion after removing derive output (#[automatically_derived] impls) with the library text after removing #[derive]/#[doc]".into(),
    ];
    let work = tempfile::tempdir().expect("tempdir");
    let cli = match build_cli() {
        Ok(p) => Some(p),
        Err(e) => {
            ctx.inconclusive.push(e);
            None
        }
    };
    let mut snippets: Vec<Snippet> = vec![];
    let mut failing: Vec<String> = vec![];
    let mut n_cli = 0;
    let mut max_cli = tier.pick(24, 300);
    // one input = the module texts, whether they were corrupted, and the choice stream the
    // macro material is drawn from
    struct Input {
        texts: Vec<(String, String)>,
        malformed: bool,
        stream: Option<Vec<u32>>,
    }
    let mut inputs: Vec<Input> = vec![];
    if let Some(path) = &replay {
        let v: serde_json::Value = serde_json::from_str(&std::fs::read_to_string(path).expect("replay")).expect("json");
        let texts: Vec<(String, String)> = v["sources"]
            .as_array()
            .map(|a| a.iter().map(|s| (s["name"].as_str().unwrap_or("m").trim_end_matches(".asn").to_string(), s["text"].as_str().unwrap_or("").to_string())).collect())
            .unwrap_or_default();
        if v["kind"] == "c20-macro" {
            for (name, t) in &texts {
                if name == "lib.rs" || name == "lib" {
                    ctx.inconclusive.push("replay of a whole macro host crate is not supported; replay its snippets".into());
                    continue;
                }
                let whole = v["whole"].as_bool().unwrap_or_else(|| t.contains("DEFINITIONS"));
                let wrapped = if whole { t.clone() } else { format!("{DUMMY_HEADER}{t}{DUMMY_FOOTER}") };
                match comp::compile_rasn1(&wrapped, &comp::Cfg::default()) {
                    comp::Outcome::Ok(_) => snippets.push((t.clone(), whole)),
                    _ => failing.push(t.clone()),
                }
            }
        } else {
            if let Some(k) = v["variant"].as_u64() {
                n_cli = k as usize;
                max_cli = n_cli + 2;
            } else {
                max_cli = 32;
            }
            // the same input once per CLI variant pair (two backends per input)
            let rounds = if v["variant"].is_u64() { 1 } else { 16 };
            for _ in 0..rounds {
                inputs.push(Input { texts: texts.clone(), malformed: true, stream: None });
            }
        }
    } else {
        // replay tier: the committed inputs run like generated ones
        for (_p, v) in crate::ev::replay_files("C20") {
            if v["kind"] == "c20" {
                let texts: Vec<(String, String)> = v["sources"]
                    .as_array()
                    .map(|a| a.iter().map(|s| (s["name"].as_str().unwrap_or("m").trim_end_matches(".asn").to_string(), s["text"].as_str().unwrap_or("").to_string())).collect())
                    .unwrap_or_default();
                if !texts.is_empty() {
                    inputs.push(Input { texts, malformed: true, stream: None });
                }
            }
        }
        let n_inputs = tier.pick(40, 600);
        let mut drv = Driver::new(seed, 20, 2500);
        let streams: Vec<Vec<u32>> = drv.draw(n_inputs).iter().map(|t| t.current()).collect();
        for (idx, s) in streams.iter().enumerate() {
            let mut ms = gen_set(s, &gen_cfg());
            // every ninth input consists of modules without assignments (legal; the compiled
            // text is empty or a line break, and has to be delivered like any other)
            if idx % 9 == 4 {
                for m in ms.modules.iter_mut() {
                    m.items.clear();
                    m.imports.clear();
                }
            }
            let mut src = Src::new(s);
            for _ in 0..5 {
                src.raw();
            }
            let malformed = idx % 3 == 2;
            let mut texts: Vec<(String, String)> = ms.modules.iter().map(|m| (m.name.clone(), print(&ModuleSet { modules: vec![m.clone()] }))).collect();
            if malformed {
                // corrupt one module: insert an illegal character after its first assignment's `::=`
                let k = src.pick(texts.len());
                let t = &mut texts[k].1;
                if let Some(p) = t.find("::= ").and_then(|h| t[h + 4..].find("::= ").map(|q| h + 4 + q)) {
                    t.insert_str(p + 4, "~ ");
                } else {
                    t.push_str("~");
                }
            }
            inputs.push(Input { texts, malformed, stream: Some(s.clone()) });
        }
    }
    for (idx, input) in inputs.iter().enumerate() {
        let texts = &input.texts;
        let malformed = input.malformed;
        // files
        let in_dir = work.path().join(format!("in{idx}"));
        std::fs::create_dir_all(&in_dir).unwrap();
        let paths: Vec<PathBuf> = texts
            .iter()
            .map(|(n, t)| {
                let p = in_dir.join(format!("{n}.asn"));
                std::fs::write(&p, t).unwrap();
                p
            })
            .collect();
        let source_forms = [
            ("literals", Sources::Literals(texts.iter().map(|t| t.1.clone()).collect())),
            ("paths", Sources::Paths(paths.clone())),
            ("path-iterator", Sources::PathIter(paths.clone())),
        ];
        for backend in [Backend::Rasn, Backend::Ts] {
            for (sname, sources) in &source_forms {
                let exp = expected(backend, sources);
                if let Err(e) = &exp {
                    if e.starts_with("panic") {
                        ctx.class("panic-seen (C08's matter)");
                        continue;
                    }
                }
                for dest in DESTS {
                    let label = format!("{idx}:{backend:?}:{sname}:{dest:?}");
                    let nontrivial = malformed || *sname != "literals" || !matches!(dest, Dest::AbsentFile | Dest::NoOutput);
                    ctx.case(&label, nontrivial);
                    ctx.class(&format!("dest:{dest:?}"));
                    ctx.class(if exp.is_ok() { "compiles" } else { "fails-to-compile" });
                    if let Some((clause, detail)) = library_case(backend, sources, dest, work.path(), &exp) {
                        ctx.fail(Failure {
                            finding: None,
                            what: format!("{clause}: {detail}"),
                            replay: json!({"kind": "c20", "clause": clause, "backend": format!("{backend:?}"), "source_form": sname, "destination": format!("{dest:?}"), "sources": texts.iter().map(|(n, t)| json!({"name": n, "text": t})).collect::<Vec<_>>()}),
                        });
                    }
                }
                if *sname == "paths" {
                    ctx.case(&format!("{idx}:{backend:?}:stdout"), true);
                    ctx.class("dest:Stdout");
                    if let Some((clause, detail)) = stdout_case(backend, &paths, &exp) {
                        ctx.fail(Failure {
                            finding: None,
                            what: format!("{clause}: {detail}"),
                            replay: json!({"kind": "c20", "clause": clause, "backend": format!("{backend:?}"), "destination": "Stdout", "sources": texts.iter().map(|(n, t)| json!({"name": n, "text": t})).collect::<Vec<_>>()}),
                        });
                    }
                }
            }
            if let Some(cli) = &cli {
                if n_cli < max_cli {
                    let variant = n_cli;
                    n_cli += 1;
                    ctx.case(&format!("{idx}:{backend:?}:cli:{variant}"), true);
                    ctx.class("leg:cli");
                    if let Some((clause, detail)) = cli_case(cli, backend, texts, work.path(), variant) {
                        ctx.fail(Failure {
                            finding: None,
                            what: format!("{clause}: {detail}"),
                            replay: json!({"kind": "c20-cli", "clause": clause, "variant": variant, "backend": format!("{backend:?}"), "sources": texts.iter().map(|(n, t)| json!({"name": n, "text": t})).collect::<Vec<_>>()}),
                        });
                    }
                }
            }
        }
        // macro material: header-less snippets and whole modules, from the generator
        // configuration whose outputs are known to pass rasn's derives (see C01: the expansion
        // runs the derives, so C01's findings would fail here for the same reason)
        if let Some(s) = &input.stream {
            let mcfg = GenCfg { max_modules: 1, max_types: 4, max_values: 2, max_comps: 4, max_depth: 2, imports: false, ..crate::props::c01::gen_cfg() };
            let mm = gen_set(&s[s.len() / 3..], &mcfg);
            let whole = idx % 2 == 1;
            let snip = if whole {
                // the header in one of the spellings the library accepts
                let lay = HEADER_LAYOUTS[(idx / 2) % HEADER_LAYOUTS.len()];
                print(&mm).replacen("::= BEGIN", lay, 1)
            } else {
                snippet_of(&mm)
            };
            // a bare list that happened to contain the keyword would not be bare for the macro
            let not_bare = !whole && snip.contains("BEGIN");
            let wrapped = if whole { snip.clone() } else { format!("{DUMMY_HEADER}{snip}{DUMMY_FOOTER}") };
            if !snip.contains("\"####") && !not_bare {
                match comp::compile_rasn1(&wrapped, &comp::Cfg::default()) {
                    comp::Outcome::Ok(c) if c.warnings.is_empty() && snippets.len() < tier.pick(20, 120) => snippets.push((snip, whole)),
                    comp::Outcome::Err(_) if failing.len() < 2 => failing.push(snip),
                    _ => {}
                }
            }
        }
        let _ = std::fs::remove_dir_all(&in_dir);
    }
    if failing.is_empty() && replay.is_none() {
        failing.push("A ::= SEQUENCE { a ~ INTEGER }\n".into());
    }
    if replay.is_none() {
        builder_leg(&mut ctx, tier, seed, work.path());
    }
    ctx.sample(json!({"macro_snippet": snippets.first().map(|x| &x.0), "macro_complete_module": snippets.iter().find(|x| x.1).map(|x| &x.0)}));
    if let Err(e) = macro_leg(&mut ctx, &snippets, &failing) {
        ctx.inconclusive.push(e);
    }
    let infra_only = ctx.evaluations == 0;
    let code = ctx.finish();
    if infra_only {
        2
    } else {
        code
    }
}
