//! C15 — permitted-alphabet annotations denote exactly the FROM constraint.
use crate::asn::StrKind;
use crate::comp::{self, Cfg, Outcome};
use crate::ev::{Ctx, Driver, Failure, Tier};
use crate::proj::{self, RModule};
use crate::src::Src;
use rayon::prelude::*;
use serde_json::{json, Value};
use std::collections::BTreeSet;

type CSet = BTreeSet<char>;

#[derive(Clone, Debug, PartialEq, Eq, Hash, serde::Serialize, serde::Deserialize)]
pub enum Opnd {
    Str(String),
    Range(char, char),
    /// `"a"..MAX`: up to the last character of the base type's alphabet
    ToMax(char),
    /// `MIN.."f"`: from the first character of the base type's alphabet
    FromMin(char),
    /// another constrained string type of the same kind, included by name (X.680 51.3 inside
    /// FROM): `Incl-IA5String ::= IA5String (FROM ("<2nd and 3rd probe character>"))`
    Incl(String),
}

#[derive(Clone, Debug, PartialEq, Eq, Hash, serde::Serialize, serde::Deserialize)]
pub struct IE {
    pub a: Opnd,
    pub except: Option<Opnd>,
}

/// union of intersections, or ALL EXCEPT x
#[derive(Clone, Debug, PartialEq, Eq, Hash, serde::Serialize, serde::Deserialize)]
pub struct Expr {
    pub all_except: Option<Opnd>,
    pub unions: Vec<Vec<IE>>,
}

#[derive(Clone, Copy, Debug, PartialEq, Eq, Hash, serde::Serialize, serde::Deserialize)]
pub enum Form {
    Plain,
    ThenSize,
    SizeThen,
    SizeInter,
    InterSize,
    /// `T ::= Parent (FROM (expr))`, Parent ::= <type> (FROM (probe alphabet minus last))
    OnParent,
    /// `T ::= <type> (Parent)` contained subtype; expr is the parent's alphabet
    Contained,
    /// two serial FROM constraints: expr, then the first three probe characters
    Serial,
}

#[derive(Clone, Debug, PartialEq, Eq, Hash, serde::Serialize, serde::Deserialize)]
pub struct Case {
    pub kind: StrKind,
    pub component: bool,
    pub form: Form,
    pub expr: Expr,
}

pub fn base_alphabet(k: StrKind) -> Option<CSet> {
    Some(match k {
        StrKind::Numeric => " 0123456789".chars().collect(),
        StrKind::Printable => "ABCDEFGHIJKLMNOPQRSTUVWXYZabcdefghijklmnopqrstuvwxyz0123456789 '()+,-./:=?".chars().collect(),
        StrKind::Visible => (0x20u32..=0x7e).filter_map(char::from_u32).collect(),
        StrKind::Ia5 => (0u32..=0x7f).filter_map(char::from_u32).collect(),
        StrKind::Bmp => return None,       // too large to materialise: membership by predicate
        StrKind::Universal => return None, // every character
        _ => return None,
    })
}

fn in_base(k: StrKind, c: char) -> bool {
    match k {
        StrKind::Numeric => c == ' ' || c.is_ascii_digit(),
        StrKind::Printable => c.is_ascii_alphanumeric() || " '()+,-./:=?".contains(c),
        StrKind::Visible => (0x20..=0x7e).contains(&(c as u32)),
        StrKind::Ia5 => (c as u32) <= 0x7f,
        StrKind::Bmp => (c as u32) <= 0xffff,
        _ => true,
    }
}

pub fn probe(k: StrKind) -> Vec<char> {
    match k {
        StrKind::Numeric => " 014589".chars().collect(),
        StrKind::Printable => "AZaz09'?".chars().collect(),
        StrKind::Visible => " !AZaz~0".chars().collect(),
        StrKind::Ia5 => " !Aaz~09".chars().collect(),
        StrKind::Bmp | StrKind::Universal => "Aaz09\u{e9}\u{3a9}\u{20ac}".chars().collect(),
        _ => "Aaz09 !~".chars().collect(),
    }
}

/// the universe in which sets are computed for a case: the probe characters plus every
/// base-alphabet character between the smallest and largest probe character (bounded)
fn universe(k: StrKind) -> CSet {
    use std::sync::OnceLock;
    static CACHE: OnceLock<std::collections::BTreeMap<StrKind, CSet>> = OnceLock::new();
    CACHE
        .get_or_init(|| {
            StrKind::ALL
                .iter()
                .map(|k| {
                    let p = probe(*k);
                    let lo = *p.iter().min().unwrap() as u32;
                    let hi = *p.iter().max().unwrap() as u32;
                    // the small alphabets whole, with the characters around them (NUL .. U+00A0):
                    // an annotation that reaches outside the base alphabet must show
                    if base_alphabet(*k).is_some() {
                        return (*k, (0u32..=0xa0).filter_map(char::from_u32).collect());
                    }
                    // the large alphabets: the stretch around the probe characters, both sides of
                    // the surrogate gap and the top of the BMP (a 16-bit table has no entries
                    // for U+D800..U+DFFF: code point and table index part ways there)
                    (*k, (lo..=hi.min(lo + 0x2100)).chain(0xd700..=0xe8ff).chain(0xf700..=0xffff).filter_map(char::from_u32).collect())
                })
                .collect()
        })
        .get(&k)
        .cloned()
        .unwrap_or_default()
}

fn opnd_set(o: &Opnd, k: StrKind, raw: bool) -> CSet {
    match o {
        Opnd::Str(s) => s.chars().collect(),
        Opnd::Range(a, b) => ((*a as u32)..=(*b as u32))
            .filter_map(char::from_u32)
            .filter(|c| raw || in_base(k, *c))
            .collect(),
        Opnd::ToMax(a) => universe(k).into_iter().filter(|c| c >= a && (raw || in_base(k, *c))).filter(|c| raw_in_span(k, *c, raw)).collect(),
        Opnd::FromMin(b) => universe(k).into_iter().filter(|c| c <= b && (raw || in_base(k, *c))).filter(|c| raw_in_span(k, *c, raw)).collect(),
        Opnd::Incl(_) => probe(k)[1..3].iter().copied().collect(),
    }
}

/// code-point reading of MIN / MAX: between the first and the last character of the base alphabet
fn raw_in_span(k: StrKind, c: char, raw: bool) -> bool {
    if !raw {
        return true;
    }
    match base_alphabet(k) {
        Some(b) => b.iter().next().map_or(true, |lo| c >= *lo) && b.iter().next_back().map_or(true, |hi| c <= *hi),
        None => in_base(k, c),
    }
}

/// exact permitted alphabet relative to `parent` (None = whole base alphabet, represented by
/// the universe), with or without the EXCEPT parts
fn expr_set(e: &Expr, k: StrKind, parent: &CSet, ignore_except: bool) -> CSet {
    expr_set_x(e, k, parent, ignore_except, false)
}

fn expr_set_x(e: &Expr, k: StrKind, parent: &CSet, ignore_except: bool, raw: bool) -> CSet {
    if let Some(x) = &e.all_except {
        if ignore_except {
            return parent.clone();
        }
        let xs = opnd_set(x, k, raw);
        return parent.difference(&xs).copied().collect();
    }
    let mut acc = CSet::new();
    for inter in &e.unions {
        let mut cur = parent.clone();
        for ie in inter {
            let mut s = opnd_set(&ie.a, k, raw);
            if let (Some(x), false) = (&ie.except, ignore_except) {
                let xs = opnd_set(x, k, raw);
                s = s.difference(&xs).copied().collect();
            }
            cur = cur.intersection(&s).copied().collect();
        }
        acc.extend(cur);
    }
    acc
}

/// what the pinned folder does: the union of all operands, whatever the operators
fn flatten_model(e: &Expr, k: StrKind) -> CSet {
    let mut acc = CSet::new();
    if let Some(x) = &e.all_except {
        acc.extend(opnd_set(x, k, true));
    }
    for inter in &e.unions {
        for ie in inter {
            acc.extend(opnd_set(&ie.a, k, true));
            if let Some(x) = &ie.except {
                acc.extend(opnd_set(x, k, true));
            }
        }
    }
    acc
}

fn q(s: &str) -> String {
    format!("\"{}\"", s.replace('"', "\"\""))
}

fn opnd_text(o: &Opnd) -> String {
    match o {
        Opnd::Str(s) => q(s),
        Opnd::Range(a, b) => format!("{}..{}", q(&a.to_string()), q(&b.to_string())),
        Opnd::ToMax(a) => format!("{}..MAX", q(&a.to_string())),
        Opnd::FromMin(b) => format!("MIN..{}", q(&b.to_string())),
        Opnd::Incl(n) => n.clone(),
    }
}

fn has_incl(e: &Expr) -> bool {
    let is = |o: &Opnd| matches!(o, Opnd::Incl(_));
    e.all_except.as_ref().map_or(false, is) || e.unions.iter().flatten().any(|x| is(&x.a) || x.except.as_ref().map_or(false, is))
}

pub fn expr_text(e: &Expr) -> String {
    if let Some(x) = &e.all_except {
        return format!("ALL EXCEPT {}", opnd_text(x));
    }
    e.unions
        .iter()
        .map(|i| {
            i.iter()
                .map(|ie| match &ie.except {
                    Some(x) => format!("{} EXCEPT {}", opnd_text(&ie.a), opnd_text(x)),
                    None => opnd_text(&ie.a),
                })
                .collect::<Vec<_>>()
                .join(" ^ ")
        })
        .collect::<Vec<_>>()
        .join(" | ")
}

fn parent_alphabet(k: StrKind) -> String {
    let p = probe(k);
    p[..p.len() - 1].iter().collect()
}

fn case_text(i: usize, c: &Case) -> String {
    let f = format!("FROM ({})", expr_text(&c.expr));
    let base = c.kind.asn();
    let ty = match c.form {
        Form::Plain => format!("{base} ({f})"),
        Form::ThenSize => format!("{base} ({f}) (SIZE (1..4))"),
        Form::SizeThen => format!("{base} (SIZE (1..4)) ({f})"),
        Form::SizeInter => format!("{base} (SIZE (1..4) ^ {f})"),
        Form::InterSize => format!("{base} ({f} ^ SIZE (1..4))"),
        Form::OnParent => format!("Par{i} ({f})"),
        Form::Contained => format!("{base} (Par{i})"),
        Form::Serial => format!("{base} ({f}) (FROM ({}))", q(&probe(c.kind)[..3].iter().collect::<String>())),
    };
    let mut s = String::new();
    match c.form {
        Form::OnParent => s.push_str(&format!("Par{i} ::= {base} (FROM ({}))\n", q(&parent_alphabet(c.kind)))),
        Form::Contained => s.push_str(&format!("Par{i} ::= {base} ({f})\n")),
        _ => {}
    }
    if c.component {
        s.push_str(&format!("T{i} ::= SEQUENCE {{ f {ty} }}"));
    } else {
        s.push_str(&format!("T{i} ::= {ty}"));
    }
    s
}

fn module_text(cases: &[Case]) -> String {
    let mut s = String::from("Alpha-Mod DEFINITIONS AUTOMATIC TAGS ::= BEGIN\n");
    let mut kinds: Vec<StrKind> = cases.iter().filter(|c| has_incl(&c.expr)).map(|c| c.kind).collect();
    kinds.sort();
    kinds.dedup();
    for k in kinds {
        s.push_str(&format!("Incl-{a} ::= {a} (FROM ({}))\n", q(&probe(k)[1..3].iter().collect::<String>()), a = k.asn()));
    }
    for (i, c) in cases.iter().enumerate() {
        s.push_str(&case_text(i, c));
        s.push('\n');
    }
    s.push_str("END\n");
    s
}

/// (exact, exact with EXCEPT ignored), both within the universe
fn reference(c: &Case) -> (CSet, CSet) {
    let uni: CSet = universe(c.kind).into_iter().filter(|ch| in_base(c.kind, *ch)).collect();
    match c.form {
        Form::OnParent => {
            let parent: CSet = parent_alphabet(c.kind).chars().collect();
            (expr_set(&c.expr, c.kind, &parent, false), expr_set(&c.expr, c.kind, &parent, true))
        }
        Form::Serial => {
            let second: CSet = probe(c.kind)[..3].iter().copied().collect();
            let a = expr_set(&c.expr, c.kind, &uni, false);
            let b = expr_set(&c.expr, c.kind, &uni, true);
            (a.intersection(&second).copied().collect(), b.intersection(&second).copied().collect())
        }
        _ => (expr_set(&c.expr, c.kind, &uni, false), expr_set(&c.expr, c.kind, &uni, true)),
    }
}

#[derive(Clone, Debug)]
struct Emitted {
    /// None = no `from` annotation
    raw: Option<CSet>,
    text: String,
}

fn expand_from(items: &[String], uni: &CSet) -> Result<CSet, String> {
    let mut out = CSet::new();
    for it in items {
        let chars: Vec<char> = it.chars().collect();
        if chars.len() == 1 {
            out.insert(chars[0]);
        } else if chars.len() == 5 && chars[1] == '.' && chars[2] == '.' && chars[3] == '=' {
            let (a, b) = (chars[0] as u32, chars[4] as u32);
            if a > b {
                return Err(format!("inverted range {it:?}"));
            }
            // (sets are compared inside the universe of the case)
            out.extend(uni.iter().filter(|c| (a..=b).contains(&(**c as u32))).copied());
        } else {
            return Err(format!("unrecognised from item {it:?}"));
        }
    }
    Ok(out)
}

fn observe(m: &RModule, i: usize, c: &Case) -> Result<Emitted, String> {
    let s = m.find_struct(&format!("T{i}")).ok_or("not-generated")?;
    let attrs = if c.component { &s.fields.first().ok_or("no field")?.attrs } else { &s.attrs };
    match &attrs.from {
        None => Ok(Emitted { raw: None, text: "no from annotation".into() }),
        Some(items) => Ok(Emitted {
            raw: Some(expand_from(items, &universe(c.kind))?),
            text: format!("from({})", items.iter().map(|x| format!("{x:?}")).collect::<Vec<_>>().join(", ")),
        }),
    }
}

fn pure_union(e: &Expr) -> bool {
    e.all_except.is_none() && e.unions.iter().all(|i| i.len() == 1 && i[0].except.is_none())
}

fn judge(c: &Case, e: &Emitted) -> Option<(&'static str, String)> {
    if !c.kind.known_multiplier() {
        return match &e.raw {
            Some(_) => Some(("non-km", format!("{} on a string type that is not known-multiplier", e.text))),
            None => None,
        };
    }
    let (exact, exact_ne) = reference(c);
    let uni = universe(c.kind);
    let uni_base: CSet = uni.iter().copied().filter(|ch| in_base(c.kind, *ch)).collect();
    // effective emitted alphabet within the universe; for a constrained reference the
    // delegate's parent alphabet applies as well (rasn intersects delegate constraints)
    let mut eff: CSet = match &e.raw {
        Some(s) => s.intersection(&uni).copied().collect(),
        None => uni_base.clone(),
    };
    if c.form == Form::OnParent {
        let parent: CSet = parent_alphabet(c.kind).chars().collect();
        eff = eff.intersection(&parent).copied().collect();
    }
    if let Some(s) = &e.raw {
        if let Some(bad) = s.iter().find(|ch| !in_base(c.kind, **ch)) {
            return Some(("in-alphabet", format!("{} contains {:?} (U+{:04X}), which is not a {} character", e.text, bad, *bad as u32, c.kind.asn())));
        }
    }
    if !exact.is_subset(&eff) {
        let missing: String = exact.difference(&eff).take(6).collect();
        return Some(("sound", format!("{} excludes permitted characters {missing:?}", e.text)));
    }
    if eff != exact && eff != exact_ne {
        let extra: String = eff.difference(&exact_ne).take(6).collect();
        return Some(("exact", format!("{} permits {extra:?}.. beyond the constraint's alphabet {:?}", e.text, exact_ne.iter().take(12).collect::<String>())));
    }
    None
}

fn classify(c: &Case, e: &Emitted, clause: &str) -> Option<&'static str> {
    let has_gap_range = |o: &Opnd| matches!(o, Opnd::Range(..) | Opnd::ToMax(_) | Opnd::FromMin(_)) && opnd_set(o, c.kind, true) != opnd_set(o, c.kind, false);
    let any_gap = c.expr.all_except.iter().any(|o| has_gap_range(o))
        || c.expr.unions.iter().flatten().any(|ie| has_gap_range(&ie.a) || ie.except.as_ref().map_or(false, |x| has_gap_range(x)));
    match (&e.raw, c.form) {
        // F-alpha-alias: FROM on a constrained reference / a contained subtype is not carried over
        (None, Form::OnParent) | (None, Form::Contained) if clause == "exact" => Some("F-alpha-alias"),
        // ... and neither is an included type among the operands: no alphabet is stated
        (None, _) if clause == "exact" && has_incl(&c.expr) => Some("F-alpha-alias"),
        // ... in a serial pair the constraint with the included type counts for nothing
        (Some(raw), Form::Serial) if clause == "exact" && has_incl(&c.expr) && *raw == probe(c.kind)[..3].iter().copied().collect::<CSet>() => Some("F-alpha-alias"),
        (Some(raw), form) => {
            // (like the judgement itself, the models are compared inside the universe of the
            // case: `"a"..MAX` reaches beyond it)
            let uni = universe(c.kind);
            let raw = &raw.intersection(&uni).copied().collect::<CSet>();
            let mut model = flatten_model(&c.expr, c.kind);
            if form == Form::Serial {
                model.extend(probe(c.kind)[..3].iter().copied());
            }
            let model: CSet = model.intersection(&uni).copied().collect();
            if *raw == model && (!pure_union(&c.expr) || form == Form::Serial) {
                // F-alpha-flatten: every operand is unioned, whatever the operator
                return Some("F-alpha-flatten");
            }
            // F-alpha-hull: combined with SIZE by `^` the FROM expression is folded with ranges
            // only: a multi-character string inside an intersection is replaced by the range
            // between its smallest and largest character (and ranges are taken by code point)
            if matches!(form, Form::SizeInter | Form::InterSize) {
                let mut hulled = c.expr.clone();
                let mut replaced = false;
                for inter in hulled.unions.iter_mut() {
                    if inter.len() >= 2 {
                        for x in inter.iter_mut() {
                            if let Opnd::Str(t) = &x.a {
                                if t.chars().count() > 1 {
                                    let lo = t.chars().min().unwrap();
                                    let hi = t.chars().max().unwrap();
                                    x.a = Opnd::Range(lo, hi);
                                    replaced = true;
                                }
                            }
                        }
                    }
                }
                if replaced {
                    let model = expr_set_x(&hulled, c.kind, &universe(c.kind), true, true);
                    if *raw == model {
                        return Some("F-alpha-hull");
                    }
                }
            }
            let _ = any_gap;
            if clause == "in-alphabet" && matches!(c.kind, StrKind::Numeric | StrKind::Printable) {
                // F-alpha-gap: a range is emitted by code point although the base alphabet has
                // gaps inside it; restricted to the base alphabet the annotation is as required
                let filtered = Emitted {
                    raw: Some(raw.iter().copied().filter(|ch| in_base(c.kind, *ch)).collect()),
                    text: e.text.clone(),
                };
                if judge(c, &filtered).is_none() {
                    return Some("F-alpha-gap");
                }
            }
            None
        }
        _ => None,
    }
}

fn operands(k: StrKind) -> Vec<Opnd> {
    let p = probe(k);
    let mut v: Vec<Opnd> = p.iter().map(|c| Opnd::Str(c.to_string())).collect();
    v.push(Opnd::Str(p[..3].iter().collect()));
    v.push(Opnd::Str(p[2..6].iter().collect()));
    v.push(Opnd::Str(p.iter().collect::<String>().chars().rev().take(6).collect()));
    // strings that read like a time string (only digits and time punctuation / letters, X.680
    // 41.? tstring): the lexer takes them for one, the alphabet must count them all the same
    let u = universe(k);
    for t in ["0:9", "1-2", "T0Z", "9.5", "1,5", ",9", "5+1", "2/3", "P1Y", "0,1Z"] {
        if t.chars().all(|c| u.contains(&c) && in_base(k, c)) {
            v.push(Opnd::Str(t.to_string()));
        }
    }
    v.push(Opnd::Incl(format!("Incl-{}", k.asn())));
    let mut sorted = p.clone();
    sorted.sort();
    for i in 0..sorted.len() {
        for j in i + 1..sorted.len() {
            v.push(Opnd::Range(sorted[i], sorted[j]));
        }
    }
    v.push(Opnd::ToMax(sorted[sorted.len() / 2]));
    v.push(Opnd::FromMin(sorted[sorted.len() / 2]));
    v.extend(high_operands(k));
    v
}

/// operands above the surrogate gap (BMPString / UniversalString only)
fn high_operands(k: StrKind) -> Vec<Opnd> {
    if !matches!(k, StrKind::Bmp | StrKind::Universal) {
        return vec![];
    }
    vec![
        Opnd::Range('\u{e000}', '\u{e0ff}'),
        Opnd::Range('\u{d7f0}', '\u{e010}'),
        Opnd::Range('\u{20ac}', '\u{f8ff}'),
        Opnd::Range('\u{f7f0}', '\u{fffd}'),
        Opnd::Str("\u{ff10}\u{ff19}\u{e001}".to_string()),
        Opnd::ToMax('\u{e000}'),
        Opnd::FromMin('\u{e100}'),
    ]
}

fn ie(a: &Opnd) -> IE {
    IE { a: a.clone(), except: None }
}

fn exprs(ops: &[Opnd], n: usize) -> Vec<Expr> {
    let e = |unions| Expr { all_except: None, unions };
    let mut out = vec![];
    match n {
        1 => {
            for a in ops {
                out.push(e(vec![vec![ie(a)]]));
                out.push(Expr { all_except: Some(a.clone()), unions: vec![] });
            }
        }
        _ => {
            for a in ops {
                for b in ops {
                    out.push(e(vec![vec![ie(a)], vec![ie(b)]]));
                    out.push(e(vec![vec![ie(a), ie(b)]]));
                    out.push(e(vec![vec![IE { a: a.clone(), except: Some(b.clone()) }]]));
                }
            }
        }
    }
    out
}

fn random_expr(src: &mut Src, ops: &[Opnd]) -> Expr {
    let nun = 1 + src.pick(3);
    let unions = (0..nun)
        .map(|_| {
            let nin = 1 + src.pick(2);
            (0..nin)
                .map(|_| IE {
                    a: ops[src.pick(ops.len())].clone(),
                    except: if src.chance(20) { Some(ops[src.pick(ops.len())].clone()) } else { None },
                })
                .collect()
        })
        .collect();
    Expr { all_except: None, unions }
}

fn nontrivial(c: &Case) -> bool {
    let n: usize = c.expr.unions.iter().map(|i| i.iter().map(|x| 1 + x.except.is_some() as usize).sum::<usize>()).sum();
    n >= 2
        || c.expr.unions.iter().flatten().any(|x| matches!(&x.a, Opnd::Range(a, b) if (*b as u32) - (*a as u32) > 1))
        || c.form != Form::Plain
}

fn run_cases(ctx: &mut Ctx, cases: Vec<Case>) {
    // an included type inside a FROM that is intersected with SIZE goes through the range fold,
    // whose treatment of contained subtypes is C04's listed finding F-contained-ignored: left out
    let before = cases.len();
    let cases: Vec<Case> = cases.into_iter().filter(|c| !(has_incl(&c.expr) && matches!(c.form, Form::SizeInter | Form::InterSize))).collect();
    if before != cases.len() {
        ctx.class_n("excluded:included-type-under-SIZE-intersection", (before - cases.len()) as u64);
    }
    // interleave so that the slow BMP/Universal cases are spread over all chunks
    let n_chunks = (cases.len() / 150).max(1);
    let mut buckets: Vec<Vec<Case>> = vec![vec![]; n_chunks];
    for (i, c) in cases.into_iter().enumerate() {
        buckets[i % n_chunks].push(c);
    }
    let chunks: Vec<&[Case]> = buckets.iter().map(|b| b.as_slice()).collect();
    type J = Option<(&'static str, String)>;
    type R = Vec<(Case, String, Result<(Emitted, J, Option<&'static str>), String>)>;
    let results: Vec<Result<R, (String, String)>> = chunks
        .par_iter()
        .map(|ch| {
            let text = module_text(ch);
            let c = match comp::compile_rasn1(&text, &Cfg::default()) {
                Outcome::Ok(c) => c,
                Outcome::Err(e) => return Err((text, format!("Err: {e}"))),
                Outcome::Panic(p) => return Err((text, format!("panic: {p}"))),
            };
            let mods = proj::project(&c.generated).map_err(|e| (text.clone(), e))?;
            let m = mods.first().ok_or((text.clone(), "no module".to_string()))?;
            Ok(ch
                .iter()
                .enumerate()
                .map(|(i, case)| {
                    let (exact, _) = reference(case);
                    let r = if exact.is_empty() {
                        Err("empty-alphabet".to_string())
                    } else {
                        observe(m, i, case).map(|e| {
                            let j = judge(case, &e);
                            let fid = j.as_ref().and_then(|(clause, _)| classify(case, &e, clause));
                            (e, j, fid)
                        })
                    };
                    (case.clone(), case_text(i, case), r)
                })
                .collect())
        })
        .collect();
    for res in results {
        match res {
            Err((text, e)) => {
                ctx.case(&text, true);
                ctx.fail(Failure {
                    finding: None,
                    what: format!("module of valid FROM constraints did not compile: {e}"),
                    replay: json!({"kind": "c15-module", "sources": [{"name": "alpha.asn", "text": text}], "observed": e}),
                });
            }
            Ok(v) => {
                for (case, line, r) in v {
                    match r {
                        Err(w) if w == "not-generated" || w == "empty-alphabet" => ctx.class(&format!("skipped:{w}")),
                        Err(w) => {
                            ctx.case(&line, nontrivial(&case));
                            if ctx.violations.len() < 4 {
                                ctx.fail(Failure { finding: None, what: format!("cannot read the annotation of {line}: {w}"), replay: payload(&case, &line, &w) });
                            }
                        }
                        Ok((_e, j, fid)) => {
                            ctx.case(&line, nontrivial(&case));
                            ctx.class(&format!("type:{}", case.kind.asn()));
                            ctx.class(&format!("form:{:?}", case.form));
                            if let Some((clause, detail)) = j {
                                ctx.class(&format!("fails:{clause}"));
                                let known = fid.map_or(false, |f| ctx.is_known(f));
                                if known || ctx.violations.len() < 4 {
                                    ctx.fail(Failure { finding: fid, what: format!("{clause}: {line}: {detail}"), replay: payload(&case, &line, &detail) });
                                }
                            }
                        }
                    }
                }
            }
        }
    }
}

fn payload(c: &Case, line: &str, observed: &str) -> Value {
    json!({"kind": "c15", "case": c, "sources": [{"name": "alpha.asn", "text": module_text(std::slice::from_ref(c))}], "line": line, "observed": observed})
}

pub fn run(tier: Tier, seed: u64, replay: Option<String>) -> i32 {
    let mut ctx = Ctx::new("C15", tier, seed);
    ctx.rule = "exhaustive: FROM expressions with 1..2 operands (single characters, 3..6 character strings, every range between two probe characters) \
                joined by |, ^, EXCEPT, ALL EXCEPT over an 8-character probe alphabet per type that straddles the gaps of the type's alphabet, on each \
                known-multiplier type, as assignment and component; combined with SIZE in both orders (serial and ^), on a constrained parent, as a \
                contained subtype and as two serial FROMs on sampled subsets; the same expressions on UTF8String/GeneralString/GraphicString/TeletexString \
                (must have no annotation); plus random 3..6 operand expressions; oracle: exact character-set algebra (EXCEPT applied or ignored both accepted \
                as exact); non-trivial = >=2 operands, a range wider than 2, or a combined form"
        .into();
    ctx.assumptions = vec![
        "ranges are in code-point order restricted to the base type's alphabet (X.680 §41, §51.7)".into(),
        "sets are compared inside a bounded universe (code points between the smallest and largest probe character)".into(),
        "a delegate newtype around a constrained parent inherits the parent's alphabet (rasn intersects delegate constraints)".into(),
    ];
    if let Some(path) = replay {
        let v: Value = serde_json::from_str(&std::fs::read_to_string(&path).expect("replay")).expect("json");
        let c: Case = serde_json::from_value(v["case"].clone()).expect("case");
        run_cases(&mut ctx, vec![c]);
        return ctx.finish();
    }
    let mut replays = vec![];
    for (_p, v) in crate::ev::replay_files("C15") {
        if let Ok(c) = serde_json::from_value::<Case>(v["case"].clone()) {
            replays.push(c);
        }
    }
    run_cases(&mut ctx, replays);
    let km = [StrKind::Numeric, StrKind::Printable, StrKind::Visible, StrKind::Ia5, StrKind::Bmp, StrKind::Universal];
    let non_km = [StrKind::Utf8, StrKind::General, StrKind::Graphic, StrKind::Teletex];
    let mut cases = vec![];
    for k in km {
        let ops = operands(k);
        for n in 1..=2 {
            for (idx, e) in exprs(&ops, n).into_iter().enumerate() {
                // BMPString / UniversalString are two orders of magnitude slower to compile
                // (the folder clones a 65k-entry table per constraint): thinner sample
                let big = matches!(k, StrKind::Bmp | StrKind::Universal);
                let sampled = if big {
                    idx % tier.pick(700, 90) == 0
                } else {
                    tier == Tier::Thorough || n == 1 || idx % 4 == 0
                };
                if !sampled {
                    continue;
                }
                for component in [false, true] {
                    cases.push(Case { kind: k, component, form: Form::Plain, expr: e.clone() });
                }
                if n == 1 || idx % 16 == 0 || tier == Tier::Thorough {
                    for form in [Form::ThenSize, Form::SizeThen, Form::SizeInter, Form::InterSize, Form::OnParent, Form::Contained, Form::Serial] {
                        cases.push(Case { kind: k, component: idx % 2 == 0, form, expr: e.clone() });
                    }
                }
            }
        }
    }
    // the operands above the surrogate gap, each on its own and united with a low one
    for k in [StrKind::Bmp, StrKind::Universal] {
        for (i, h) in high_operands(k).into_iter().enumerate() {
            cases.push(Case { kind: k, component: i % 2 == 0, form: Form::Plain, expr: Expr { all_except: None, unions: vec![vec![ie(&h)]] } });
            cases.push(Case { kind: k, component: i % 2 == 1, form: Form::Plain, expr: Expr { all_except: None, unions: vec![vec![ie(&Opnd::Str("Az".into()))], vec![ie(&h)]] } });
        }
    }
    for k in non_km {
        let ops = operands(k);
        for (idx, e) in exprs(&ops, 2).into_iter().enumerate() {
            if idx % 40 == 0 {
                cases.push(Case { kind: k, component: idx % 80 == 0, form: Form::Plain, expr: e });
            }
        }
    }
    ctx.extra.insert("exhaustive_cases".into(), json!(cases.len()));
    ctx.exhaustive = tier == Tier::Thorough;
    for c in cases.iter().step_by(cases.len() / 3 + 1).take(3) {
        ctx.sample(json!(case_text(0, c)));
    }
    run_cases(&mut ctx, cases);
    let n = tier.pick(20000, 200000);
    let mut drv = Driver::new(seed, 15, 60);
    let rnd: Vec<Case> = drv
        .draw(n)
        .iter()
        .map(|t| {
            let s = t.current();
            let mut src = Src::new(&s);
            let k = km[src.weighted(&[100, 100, 100, 100, 1, 1])];
            let ops = operands(k);
            Case { kind: k, component: src.chance(50), form: Form::Plain, expr: random_expr(&mut src, &ops) }
        })
        .collect();
    ctx.sample(json!(case_text(0, &rnd[0])));
    run_cases(&mut ctx, rnd);
    ctx.finish()
}
