//! C08 — compilation and error rendering are total: no panic, abort or hang.
use crate::asn::*;
use crate::ev::{Ctx, Driver, Failure, Tier};
use crate::gen::GenCfg;
use crate::props::common::*;
use crate::src::Src;
use crate::worker::{self, Verdict as WV};
use rayon::prelude::*;
use serde_json::{json, Value};
use std::time::Duration;

const DICT: [&str; 96] = [
    "DEFINITIONS", "BEGIN", "END", "::=", "AUTOMATIC", "EXPLICIT", "IMPLICIT", "TAGS", "EXTENSIBILITY", "IMPLIED", "IMPORTS", "EXPORTS", "FROM", "ALL",
    "SEQUENCE", "SET", "OF", "CHOICE", "ENUMERATED", "INTEGER", "BOOLEAN", "NULL", "BIT", "OCTET", "STRING", "OBJECT", "IDENTIFIER", "RELATIVE-OID",
    "REAL", "TIME", "DATE", "EXTERNAL", "EMBEDDED", "PDV", "CHARACTER", "UTF8String", "IA5String", "GeneralizedTime", "UTCTime", "ANY", "DEFINED", "BY",
    "OPTIONAL", "DEFAULT", "COMPONENTS", "SIZE", "FROM", "MIN", "MAX", "INCLUDES", "EXCEPT", "UNION", "INTERSECTION", "PATTERN", "CONTAINING", "ENCODED",
    "WITH", "COMPONENT", "SYNTAX", "CLASS", "UNIQUE", "MACRO", "TYPE", "NOTATION", "VALUE", "CONSTRAINED", "SETTINGS", "INSTANCE", "TRUE", "FALSE",
    "{", "}", "(", ")", "[", "]", "[[", "]]", ",", ";", ":", ".", "..", "...", "|", "^", "<", "@", "&", "!", "--", "/*", "*/", "\"", "'", "'0101'B",
];

pub const EXOTIC: [&str; 88] = [
    "MY-CLASS ::= CLASS { &id INTEGER UNIQUE, &Type, &val INTEGER OPTIONAL } WITH SYNTAX { ID &id TYPE &Type [VAL &val] }",
    "obj1 MY-CLASS ::= { ID 1 TYPE INTEGER }",
    "obj2 MY-CLASS ::= { ID 2 TYPE BOOLEAN VAL 7 }",
    "ObjSet MY-CLASS ::= { obj1 | obj2, ... }",
    "ObjSet2 MY-CLASS ::= { obj1 | { ID 3 TYPE NULL }, ..., { ID 4 TYPE OCTET STRING } }",
    "Holder ::= SEQUENCE { id MY-CLASS.&id ({ObjSet}), val MY-CLASS.&Type ({ObjSet}{@id}) }",
    "Holder2 ::= SEQUENCE { id MY-CLASS.&id ({ObjSet2}), val MY-CLASS.&Type ({ObjSet2}{@id}) OPTIONAL }",
    "FixedField ::= MY-CLASS.&id",
    "TYPE-ID ::= TYPE-IDENTIFIER",
    "Inst-Of ::= INSTANCE OF MY-CLASS",
    "Param {T, INTEGER:max} ::= SEQUENCE { a T, b INTEGER (0..max) }",
    "Inst1 ::= Param {BOOLEAN, 5}",
    "Inst2 ::= Param {SEQUENCE { q NULL }, 300}",
    "PSet {MY-CLASS:Set} ::= SEQUENCE { id MY-CLASS.&id ({Set}), v MY-CLASS.&Type ({Set}{@id}) }",
    "PInst ::= PSet {{ObjSet}}",
    "Ch ::= CHOICE { a INTEGER, b NULL, c SEQUENCE { d BOOLEAN } }",
    "Sel ::= a < Ch",
    "Sel2 ::= SEQUENCE { s c < Ch }",
    "Base ::= SEQUENCE { x INTEGER, y BOOLEAN OPTIONAL, ..., w NULL }",
    "Ext1 ::= SEQUENCE { COMPONENTS OF Base, z NULL }",
    "Ext2 ::= SEQUENCE { z NULL, COMPONENTS OF Base }",
    "Ext3 ::= SEQUENCE { a NULL, ..., [[ COMPONENTS OF Base ]] }",
    "Ext4 ::= SET { COMPONENTS OF Base }",
    "Ext5 ::= SEQUENCE { b NULL, ..., [[ COMPONENTS OF Base ]] }",
    "Ext6 ::= SEQUENCE { c NULL, ..., [[ COMPONENTS OF Base ]], [[ d NULL ]] }",
    "T1 ::= TIME",
    "T2 ::= SEQUENCE { t TIME }",
    "T3 ::= TIME (SETTINGS \"Basic=Date Date=YMD\")",
    "T4 ::= DATE",
    "T5 ::= TIME-OF-DAY",
    "R1 ::= REAL",
    "R2 ::= REAL (0..1)",
    "r1 REAL ::= { mantissa 1, base 2, exponent 3 }",
    "r2 REAL ::= 1.5",
    "r3 REAL ::= PLUS-INFINITY",
    "E1 ::= EXTERNAL",
    "E2 ::= EMBEDDED PDV",
    "E3 ::= CHARACTER STRING",
    "E4 ::= SEQUENCE { e EXTERNAL, f EMBEDDED PDV OPTIONAL }",
    "ERROR-M MACRO ::= BEGIN TYPE NOTATION ::= \"PARAMETER\" NamedType | empty VALUE NOTATION ::= value(VALUE INTEGER) NamedType ::= identifier type | type END",
    "err1 ERROR-M ::= 5",
    "P1 ::= IA5String (PATTERN \"[a-z]#(1,8)\")",
    "P2 ::= OCTET STRING (CONTAINING Base)",
    "P3 ::= OCTET STRING (CONTAINING Base ENCODED BY { joint-iso-itu-t asn1(1) packed-encoding(3) })",
    "P4 ::= Base (WITH COMPONENTS { x (0..5), y ABSENT })",
    "P5 ::= SEQUENCE OF Base (WITH COMPONENT (WITH COMPONENTS { ..., x (1) }))",
    "P6 ::= INTEGER (CONSTRAINED BY { -- must be even -- })",
    "P7 ::= SEQUENCE (SIZE (1..MAX)) OF INTEGER (0..5 | 10, ...)",
    "P8 ::= BIT STRING { a(0), b(1) } (SIZE (2..16))",
    "P9 ::= INTEGER (ALL EXCEPT 5)",
    "Cyc-A ::= Cyc-B",
    "Cyc-B ::= Cyc-A",
    "cyc-v Cyc-A ::= 5",
    "cyc-a INTEGER ::= cyc-b",
    "cyc-b INTEGER ::= cyc-a",
    "CycSet1 MY-CLASS ::= { CycSet2 }",
    "CycSet2 MY-CLASS ::= { CycSet1 }",
    "CycHolder ::= SEQUENCE { id MY-CLASS.&id ({CycSet1}) }",
    "Self-Ref ::= SEQUENCE { s Self-Ref }",
    "oid1 OBJECT IDENTIFIER ::= { iso standard 8571 }",
    "oid2 OBJECT IDENTIFIER ::= { oid1 modules(1) 99999999999 }",
    "Any1 ::= SEQUENCE { t INTEGER, v ANY DEFINED BY t }",
    "E-Ovf ::= ENUMERATED { a, ..., b(170141183460469231731687303715884105727), c }",
    "E-Ovf2 ::= ENUMERATED { a(170141183460469231731687303715884105727), b }",
    "ZSet MY-CLASS ::= { ASet, ... }",
    "ASet MY-CLASS ::= { BSet, ... }",
    "BSet MY-CLASS ::= { ASet, ... }",
    "cyc-oz MY-CLASS ::= { cyc-oa }",
    "cyc-oa MY-CLASS ::= { cyc-ob }",
    "cyc-ob MY-CLASS ::= { cyc-oa }",
    "PatInt ::= IA5String ((PATTERN \"a\") INTERSECTION (IA5String (SIZE (1..2))))",
    "PatUn ::= IA5String (PATTERN \"a\" | SIZE (1..2))",
    "InstObj ::= Param { { &id 1 }, 5 }",
    "InstMany ::= Param { BOOLEAN, 5, NULL }",
    "InstFew ::= Param { BOOLEAN }",
    "InstNone ::= Param { }",
    "RealBig ::= SEQUENCE { r REAL DEFAULT 10000000000000000000000000000000000000000000000000000000000000000000000000000000000000000000000000000000000000000000000000000000000000000000000000000000000000000000000000000000000000000000000000000000000000000000000000000000000000000000000000000000000000000000000000000000000000000000000000000000000000000000000000000000000000000000000000000000000000000000000000000000000000000000000000000000000000000 }",
    "rbig REAL ::= 10000000000000000000000000000000000000000000000000000000000000000000000000000000000000000000000000000000000000000000000000000000000000000000000000000000000000000000000000000000000000000000000000000000000000000000000000000000000000000000000000000000000000000000000000000000000000000000000000000000000000000000000000000000000000000000000000000000000000000000000000000000000000000000000000000000000000000.5",
    "RealExp ::= SEQUENCE { r REAL DEFAULT 1.0E99999 }",
    // a class whose type field has a hyphen in its name, with an object set and a table constraint
    "HY-CLASS ::= CLASS { &id INTEGER UNIQUE, &My-Type } WITH SYNTAX { ID &id TYPE &My-Type }\nhyObj HY-CLASS ::= { ID 1 TYPE INTEGER }\nHy-Set HY-CLASS ::= { hyObj | { ID 2 TYPE BOOLEAN } }\nHy-Holder ::= SEQUENCE { id HY-CLASS.&id ({Hy-Set}), v HY-CLASS.&My-Type ({Hy-Set}{@id}) }",
    // cycles that are entered through a chain of acyclic references (two links), from a name
    // that sorts after and one that sorts before the cycle: a guard that only recognises a
    // walk returning to its *start* never ends on these
    "cyt-a MY-CLASS ::= { cyt-b }\ncyt-b MY-CLASS ::= { cyt-a }\ncyt-y MY-CLASS ::= { cyt-a }\ncyt-z MY-CLASS ::= { cyt-y }\naaa-t MY-CLASS ::= { cyt-z }",
    "CytA MY-CLASS ::= { CytB }\nCytB MY-CLASS ::= { CytA }\nCytY MY-CLASS ::= { CytA }\nCytZ MY-CLASS ::= { CytY }\nAaaT MY-CLASS ::= { CytZ }\nCytHolder ::= SEQUENCE { id MY-CLASS.&id ({CytZ}), id2 MY-CLASS.&id ({AaaT}) }",
    "Cyt-A ::= Cyt-B\nCyt-B ::= Cyt-A\nCyt-Y ::= Cyt-A\nCyt-Z ::= Cyt-Y\nAaa-T ::= Cyt-Z\ncyt-v Cyt-Z ::= 5\nCyt-S ::= SEQUENCE { a Cyt-Z, b SEQUENCE OF Aaa-T }",
    "cyu-a INTEGER ::= cyu-b\ncyu-b INTEGER ::= cyu-a\ncyu-y INTEGER ::= cyu-a\ncyu-z INTEGER ::= cyu-y\naaa-u INTEGER ::= cyu-z\nCyu-T ::= INTEGER (0..cyu-z)\nCyu-S ::= SEQUENCE { a INTEGER DEFAULT aaa-u }",
    // ... the same with selection types, COMPONENTS OF, contained subtypes and actual parameters
    "Cys-A ::= third < Cys-B\nCys-B ::= second < Cys-A\nCys-Y ::= first < Cys-A\nCys-Z ::= zeroth < Cys-Y\nAaa-S ::= minus < Cys-Z\nCys-H ::= SEQUENCE { a Cys-Z, b Aaa-S }",
    "Cyc-Co-A ::= SEQUENCE { COMPONENTS OF Cyc-Co-B, a INTEGER }\nCyc-Co-B ::= SEQUENCE { COMPONENTS OF Cyc-Co-A, b INTEGER }\nCyc-Co-Y ::= SEQUENCE { COMPONENTS OF Cyc-Co-A }\nCyc-Co-Z ::= SET { COMPONENTS OF Cyc-Co-Y }\nAaa-Co ::= SEQUENCE { COMPONENTS OF Cyc-Co-Z, z NULL }",
    "Cyc-In-A ::= INTEGER (Cyc-In-B)\nCyc-In-B ::= INTEGER (INCLUDES Cyc-In-A)\nCyc-In-Y ::= INTEGER (Cyc-In-A | 5)\nCyc-In-Z ::= SEQUENCE { a INTEGER (Cyc-In-Y) }\nAaa-In ::= IA5String (FROM (Cyc-In-S))\nCyc-In-S ::= IA5String (FROM (Aaa-In))",
    "Cyc-Pa { T } ::= SEQUENCE { a T, b Cyc-Pb { T } OPTIONAL }\nCyc-Pb { T } ::= SEQUENCE { c Cyc-Pa { T } OPTIONAL }\nCyc-Pi ::= Cyc-Pa { INTEGER }\nAaa-Pi ::= Cyc-Pb { Cyc-Pi }",
];

fn header(src: &mut Src, name: &str) -> String {
    let tags = ["", "AUTOMATIC TAGS", "EXPLICIT TAGS", "IMPLICIT TAGS", "AUTOMATIC TAGS EXTENSIBILITY IMPLIED"][src.pick(5)];
    format!("{name} DEFINITIONS {tags} ::= BEGIN")
}

const DEEP_KINDS: usize = 10;

/// one declaration (with what it needs) nested `depth` levels deep; all of them are legal notation
fn deep_decl(kind: usize, depth: usize) -> String {
    let rep = |s: &str| s.repeat(depth);
    match kind {
        0 => format!("Deep ::= {}NULL{}", (0..depth).map(|i| format!("SEQUENCE {{ f{i} ")).collect::<String>(), rep(" }")),
        1 => format!("Deep ::= {}NULL", rep("SEQUENCE OF ")),
        2 => format!("Deep ::= {}NULL{}", (0..depth).map(|i| format!("CHOICE {{ c{i} ")).collect::<String>(), rep(" }")),
        3 => format!("Deep ::= {}NULL", rep("SET (SIZE (1..2)) OF ")),
        4 => format!("Deep ::= SEQUENCE {{ f Deep OPTIONAL }}\ndeep-v Deep ::= {}{{ }}{}", rep("{ f "), rep(" }")),
        5 => format!("Deep ::= SEQUENCE OF Deep\nDeep-W ::= Deep {}(SIZE (1)){}", rep("(WITH COMPONENT "), rep(")")),
        6 => format!("Deep ::= SEQUENCE {{ f Deep OPTIONAL }}\nDeep-W ::= Deep {}PRESENT{}", rep("(WITH COMPONENTS { f "), rep(" })")),
        7 => format!("Deep-Box {{ T }} ::= SEQUENCE {{ v T }}\nDeep ::= {}INTEGER{}", rep("Deep-Box { "), rep(" }")),
        8 => format!("Deep ::= CHOICE {{ c Deep, n NULL }}\ndeep-v Deep ::= {}n:NULL", rep("c:")),
        _ => format!("Deep ::= SEQUENCE OF Deep\ndeep-v Deep ::= {}{}", rep("{ "), rep(" }")),
    }
}

/// how deep the notation of `text` nests (braces, parentheses, `OF` chains, `c:` chains)
fn nesting(text: &str) -> usize {
    let (mut b, mut bm, mut p, mut pm) = (0i64, 0i64, 0i64, 0i64);
    for ch in text.chars() {
        match ch {
            '{' => {
                b += 1;
                bm = bm.max(b);
            }
            '}' => b -= 1,
            '(' => {
                p += 1;
                pm = pm.max(p);
            }
            ')' => p -= 1,
            _ => {}
        }
    }
    let longest_run = |pat: &str| -> usize {
        let mut best = 0;
        let mut rest = text;
        while let Some(at) = rest.find(pat) {
            let mut n = 0;
            let mut tail = &rest[at..];
            while tail.starts_with(pat) {
                n += 1;
                tail = &tail[pat.len()..];
            }
            best = best.max(n);
            rest = tail;
        }
        best
    };
    (bm.max(pm) as usize).max(longest_run("SEQUENCE OF ")).max(longest_run("SET (SIZE (1..2)) OF ")).max(longest_run("c:"))
}

fn exotic_module(src: &mut Src) -> String {
    exotic_module_x(src, 200)
}

fn exotic_module_x(src: &mut Src, max_depth: usize) -> String {
    let mut s = header(src, "Exotic-Mod");
    s.push('\n');
    let k = 1 + src.pick(14);
    // classes first when objects are used so that the common path is taken too
    if src.chance(60) {
        s.push_str(EXOTIC[0]);
        s.push('\n');
    }
    for _ in 0..k {
        s.push_str(EXOTIC[src.pick(EXOTIC.len())]);
        s.push('\n');
    }
    if src.chance(10) {
        // deep nesting: mostly 20..200 levels, a quarter 200..600 (every kind returns within a
        // second there), one in twenty 5000..7000 levels, where the recursive descent exhausts an
        // 8 MiB stack (finding F-deep-nesting)
        let depth = if max_depth <= 20 {
            2 + src.pick(max_depth)
        } else {
            match src.weighted(&[14, 5, 1]) {
                0 => 20 + src.pick(max_depth - 20),
                1 => 200 + src.pick(400),
                _ => 5000 + src.pick(2000),
            }
        };
        let kind = src.pick(DEEP_KINDS);
        s.push_str(&deep_decl(kind, depth));
        s.push('\n');
    }
    s.push_str("END\n");
    s
}

const M_TYPES: [&str; 33] = [
    "SEQUENCE { a CHOICE { a INTEGER, b BOOLEAN }, b BOOLEAN OPTIONAL }", "CHOICE { a SEQUENCE { a INTEGER }, b NULL }", "SEQUENCE { a SEQUENCE OF CHOICE { a INTEGER } }",
    "INTEGER", "INTEGER { a(1), b(2) }", "INTEGER (0..255)", "BOOLEAN", "NULL", "BIT STRING", "BIT STRING { a(0), b(3) }", "OCTET STRING", "IA5String",
    "UTF8String", "BMPString", "NumericString", "OBJECT IDENTIFIER", "RELATIVE-OID", "ENUMERATED { a, b, c }", "ENUMERATED { a(1), ..., b(5) }",
    "SEQUENCE { a INTEGER, b BOOLEAN OPTIONAL }", "SEQUENCE { }", "SET { a INTEGER }", "SEQUENCE OF INTEGER", "SET OF BOOLEAN", "CHOICE { a INTEGER, b NULL }",
    "REAL", "GeneralizedTime", "UTCTime", "ANY", "Cyc-A", "Cyc-B", "Undefined-Type", "SEQUENCE OF SEQUENCE { a Cyc-A }",
];

const M_VALUES: [&str; 48] = [
    "{ a a:5 }", "{ a a:5, b TRUE }", "a:{ a 1 }", "{ a { a:1, a:2 } }",
    "5", "-5", "0", "99999999999999999999999999999999999999999", "-170141183460469231731687303715884105729", "TRUE", "FALSE", "NULL", "\"str\"", "\"\"",
    "\"a\"\"b\"", "'0101'B", "'AF'H", "''H", "''B", "'A'H", "'101'B", "{ a }", "{ a, b }", "{ }", "{ 1 2 3 }", "{ iso standard 1 }", "{ a 1, b TRUE }",
    "{ a 1 }", "{ 1, 2 }", "{ { a 1 } }", "a:5", "b:NULL", "a:a:5", "a", "b", "w", "v0", "cyc-a", "1.5", "{ mantissa 1, base 2, exponent 3 }", "PLUS-INFINITY",
    "MIN", "\"20200101120000Z\"", "undefined-value", "Mismatch-Mod.w", "Mismatch-Mod.qa", "Mismatch-Mod.cyc-a", "Other-Mod.x",
];

const M_CONS: [&str; 34] = [
    "(0..5)", "(5..1)", "(MIN..MAX)", "(0..w)", "(w..v0)", "(a..b)", "(1 | 2 | a)", "(ALL EXCEPT 1)", "(0..5, ...)", "(0..5, ..., 7)", "(SIZE (1..4))", "(SIZE (0))",
    "(SIZE (-1))", "(SIZE (MIN..MAX))", "(SIZE (w))", "(SIZE (\"a\"))", "(SIZE (1..4) ^ FROM (\"a\"..\"f\"))", "(FROM (\"a\"..\"z\"))", "(FROM (\"\"..\"z\"))",
    "(FROM (\"a\"..\"\"))", "(FROM (\"z\"..\"a\"))", "(FROM (\"\"))", "(FROM (\"ab\"..\"cd\"))", "(FROM (\"\u{2603}\"..\"\u{1f600}\"))", "(\"a\")", "(\"\")",
    "(INCLUDES Cyc-A)", "(Undefined-Type)", "(PATTERN \"x\")", "(CONTAINING Cyc-A)", "(WITH COMPONENTS { a (1) })", "(WITH COMPONENT (0..1))", "(TRUE)", "({ a })",
];

/// well-formed assignments that pair every kind of type with every kind of value and constraint,
/// matching or not: exercises the linker's and generators' error paths rather than the lexer's
fn mismatch_module(src: &mut Src) -> String {
    let mut s = header(src, "Mismatch-Mod");
    s.push('\n');
    s.push_str("Cyc-A ::= Cyc-B\nCyc-B ::= Cyc-A\nw INTEGER ::= 1\ncyc-a INTEGER ::= cyc-b\ncyc-b INTEGER ::= cyc-a\nqa INTEGER ::= Mismatch-Mod.qb\nqb INTEGER ::= Mismatch-Mod.qa\n");
    let n = 1 + src.pick(8);
    for i in 0..n {
        let ty = M_TYPES[src.pick(M_TYPES.len())];
        // a constraint, now and then two of them joined by a set operator (`("" | "z".."a")`)
        let con_owned: String = if src.chance(50) {
            let a = M_CONS[src.pick(M_CONS.len())];
            if src.chance(30) {
                let b = M_CONS[src.pick(M_CONS.len())];
                let inner = |c: &str| c.strip_prefix('(').and_then(|r| r.strip_suffix(')')).unwrap_or(c).to_string();
                format!("({} {} {})", inner(a), ["|", "^", "EXCEPT"][src.pick(3)], inner(b))
            } else {
                a.to_string()
            }
        } else {
            String::new()
        };
        let con = con_owned.as_str();
        let val = M_VALUES[src.pick(M_VALUES.len())];
        // the names take part too: hoisted inner types and value constructors are named after
        // the type, whose Rust name differs when it has a hyphen or is the one title-case keyword
        let tn = match src.weighted(&[6, 3, 1]) {
            0 => format!("Ty{i}"),
            1 => format!("Hy-Ty{i}"),
            _ => "Self".to_string(),
        };
        let tn = tn.as_str();
        match src.pick(6) {
            0 => s.push_str(&format!("{tn} ::= {ty} {con}\n")),
            1 => s.push_str(&format!("v{i} {ty} {con} ::= {val}\n")),
            2 => s.push_str(&format!("{tn} ::= {ty} {con}\nv{i} {tn} ::= {val}\n")),
            3 => s.push_str(&format!("{tn} ::= SEQUENCE {{ f {ty} {con} DEFAULT {val}, g Cyc-A OPTIONAL }}\n")),
            4 => s.push_str(&format!("{tn} ::= {ty}\nAl{i} ::= {tn} {con}\nv{i} Al{i} ::= {val}\nx{i} Al{i} ::= v{i}\n")),
            _ => s.push_str(&format!("{tn} ::= SEQUENCE OF {ty} {con}\nv{i} {tn} ::= {{ {val}, {val} }}\n")),
        }
    }
    s.push_str("END\n");
    s
}

fn soup(src: &mut Src) -> String {
    let n = src.pick(60);
    let mut s = String::new();
    if src.chance(60) {
        s.push_str("M DEFINITIONS ::= BEGIN ");
    }
    for _ in 0..n {
        match src.weighted(&[12, 3, 2, 2, 1]) {
            0 => s.push_str(DICT[src.pick(DICT.len())]),
            1 => s.push_str(["a", "b-c", "Type-A", "T", "x1", "value"][src.pick(6)]),
            2 => s.push_str(&src.range(-300, 70000).to_string()),
            3 => s.push_str(["\u{e9}", "\u{2603}", "\u{1f600}", "\u{0}", "\t", "\r\n", "\u{feff}", "\u{a0}"][src.pick(8)]),
            _ => {
                // raw byte soup decoded lossily
                let bytes: Vec<u8> = (0..1 + src.pick(6)).map(|_| src.pick(256) as u8).collect();
                s.push_str(&String::from_utf8_lossy(&bytes));
            }
        }
        s.push_str([" ", " ", "\n", ""][src.pick(4)]);
    }
    if src.chance(30) {
        s.push_str(" END");
    }
    s
}

fn crude_tokens(text: &str) -> Vec<String> {
    // whitespace-separated words, with the common punctuation split off; only used to mutate
    let mut out = vec![];
    for w in text.split_whitespace() {
        let mut cur = String::new();
        for ch in w.chars() {
            if "{}(),;[]".contains(ch) {
                if !cur.is_empty() {
                    out.push(std::mem::take(&mut cur));
                }
                out.push(ch.to_string());
            } else {
                cur.push(ch);
            }
        }
        if !cur.is_empty() {
            out.push(cur);
        }
    }
    out
}

fn mutate(src: &mut Src, a: &str, b: &str) -> String {
    let mut t = crude_tokens(a);
    if t.is_empty() {
        return String::new();
    }
    // keep mutants small enough to be cheap: a window of the token list
    if t.len() > 1500 {
        let start = src.pick(t.len() - 1500);
        let head: Vec<String> = t[..40.min(start)].to_vec();
        t = head.into_iter().chain(t[start..start + 1500].iter().cloned()).collect();
    }
    let k = 1 + src.pick(3);
    for _ in 0..k {
        if t.is_empty() {
            break;
        }
        let i = src.pick(t.len());
        match src.pick(6) {
            0 => {
                t.remove(i);
            }
            1 => t.insert(i, DICT[src.pick(DICT.len())].to_string()),
            2 => t[i] = DICT[src.pick(DICT.len())].to_string(),
            3 => {
                let x = t[i].clone();
                t.insert(i, x);
            }
            4 => {
                let j = src.pick(t.len());
                t.swap(i, j);
            }
            _ => {
                let tb = crude_tokens(b);
                if !tb.is_empty() {
                    let j = src.pick(tb.len());
                    let len = 1 + src.pick(30.min(tb.len() - j));
                    let piece: Vec<String> = tb[j..j + len].to_vec();
                    for (o, p) in piece.into_iter().enumerate() {
                        t.insert((i + o).min(t.len()), p);
                    }
                }
            }
        }
    }
    t.join(" ")
}

fn open_at_eof(src: &mut Src, base: &str) -> String {
    let cut = src.pick(base.len() + 1);
    let mut cut = cut;
    while !base.is_char_boundary(cut) {
        cut -= 1;
    }
    let tail = ["/*", "/* open", "--", "-- open", "\"", "\"open", "'", "'01", "[[", "{", "(", "::=", "\u{e9}", "/* /* */"][src.pick(14)];
    format!("{}{}", &base[..cut], tail)
}

fn multibyte_at_boundary(src: &mut Src, toks: &[Tok]) -> String {
    if toks.len() < 2 {
        return String::new();
    }
    let at = 1 + src.pick(toks.len() - 1);
    let ch = ["\u{e9}", "\u{2603}", "\u{1f600}", "\u{a0}", "\u{200b}"][src.pick(5)];
    render_with(toks, &|i| if i == at { format!(" {ch} ") } else { default_sep(toks, i, false) }, "\n").0
}

#[derive(Clone, Debug)]
struct Job {
    class: &'static str,
    text: String,
}


/// two to four small modules that import types, values, classes, objects and object sets from
/// each other in every direction: chains (a value whose type lives in a third module), cycles,
/// self-imports, symbols and modules that do not exist, definitive identifiers present in the
/// header and absent, wrong or present in the FROM clause
fn import_web(src: &mut Src) -> String {
    let n = 2 + src.pick(3);
    let names = ["Web-A", "Web-B", "Web-C", "Web-D"];
    let oid = |k: usize| format!("{{ iso(1) standard(0) {} }}", 90 + k);
    let has_oid: Vec<bool> = (0..n).map(|_| src.chance(35)).collect();
    // what module k exports: (symbol, kind)
    let symbols = |k: usize| -> Vec<String> { vec![format!("T{k}"), format!("v{k}"), format!("CLS{k}"), format!("obj{k}"), format!("Set{k}"), format!("w{k}")] };
    let mut out = String::new();
    for k in 0..n {
        let mut imports: Vec<(usize, Vec<String>)> = vec![];
        let mut imported_types: Vec<String> = vec![];
        let mut imported_values: Vec<String> = vec![];
        for _ in 0..src.pick(4) {
            // mostly another module, now and then the module itself or one that is not there
            let from = match src.weighted(&[10, 1, 1]) {
                0 => (k + 1 + src.pick(n - 1)) % n,
                1 => k,
                _ => n + 1,
            };
            let mut syms = vec![];
            for _ in 0..1 + src.pick(3) {
                let all = symbols(from.min(3));
                let sym = if src.chance(8) { "Missing-Symbol".to_string() } else { all[src.pick(all.len())].clone() };
                if sym.starts_with('T') {
                    imported_types.push(sym.clone());
                }
                if sym.starts_with('v') || sym.starts_with('w') {
                    imported_values.push(sym.clone());
                }
                if !syms.contains(&sym) {
                    syms.push(sym);
                }
            }
            imports.push((from, syms));
        }
        out.push_str(&format!("{} {}DEFINITIONS {} ::= BEGIN\n", names[k], if has_oid[k] { format!("{} ", oid(k)) } else { String::new() }, ["AUTOMATIC TAGS", "EXPLICIT TAGS", "IMPLICIT TAGS", ""][src.pick(4)]));
        if src.chance(20) {
            out.push_str(if src.chance(50) { "EXPORTS ALL;\n" } else { "EXPORTS ;\n" });
        }
        if !imports.is_empty() {
            out.push_str("IMPORTS");
            for (from, syms) in &imports {
                let mname = if *from > n { "Web-Nowhere".to_string() } else { names[*from].to_string() };
                let id = match src.weighted(&[5, 2, 1, 1]) {
                    0 => String::new(),
                    1 if *from < n && has_oid[*from] => format!(" {}", oid(*from)),
                    2 => format!(" {}", oid(7)),
                    3 => " { iso standard 8571 } WITH SUCCESSORS".to_string(),
                    _ => String::new(),
                };
                out.push_str(&format!(" {} FROM {mname}{id}", syms.join(", ")));
            }
            out.push_str(";\n");
        }
        // the module's own definitions; the type of its value may be its own or an imported one
        let own_t = format!("T{k}");
        let vt = if !imported_types.is_empty() && src.chance(60) { imported_types[src.pick(imported_types.len())].clone() } else { own_t.clone() };
        out.push_str(&format!("T{k} ::= {}\n", ["INTEGER (0..10)", "INTEGER", "ENUMERATED { a, b }", "SEQUENCE { x INTEGER }"][src.pick(4)]));
        out.push_str(&format!("v{k} {vt} ::= {}\n", ["5", "a", "{ x 1 }"][src.pick(3)]));
        out.push_str(&format!("w{k} INTEGER ::= {}\n", if !imported_values.is_empty() && src.chance(50) { imported_values[src.pick(imported_values.len())].clone() } else { "7".to_string() }));
        out.push_str(&format!("CLS{k} ::= CLASS {{ &id INTEGER UNIQUE, &Type OPTIONAL }} WITH SYNTAX {{ ID &id [TYPE &Type] }}\n"));
        out.push_str(&format!("obj{k} CLS{k} ::= {{ ID {k} TYPE {vt} }}\nSet{k} CLS{k} ::= {{ obj{k}, ... }}\n"));
        let dv = if !imported_values.is_empty() { imported_values[src.pick(imported_values.len())].clone() } else { format!("w{k}") };
        let bt = if !imported_types.is_empty() { imported_types[src.pick(imported_types.len())].clone() } else { own_t.clone() };
        out.push_str(&format!("S{k} ::= SEQUENCE {{ a INTEGER DEFAULT {dv}, b {bt} OPTIONAL, c {}.{bt} OPTIONAL }}\n", names[(k + 1) % n]));
        out.push_str("END\n\n");
    }
    out
}


const SC_TYPES: [&str; 9] = ["IA5String", "PrintableString", "NumericString", "VisibleString", "UTF8String", "BMPString", "UniversalString", "GeneralString", "Str-Alias"];
const SC_ELEMS: [&str; 30] = [
    "FROM (\"abc\")", "FROM (\"a\"..\"z\")", "FROM (\"\"..\"z\")", "FROM (\"a\"..\"\")", "FROM (\"\")", "FROM (\"\"..\"\")", "FROM (\"z\"..\"a\")", "FROM (\"ab\"..\"cd\")",
    "FROM (\"a\"..\"f\" | \"0\"..\"9\")", "FROM (\"\u{2603}\"..\"\u{1f600}\")", "FROM (\"\u{e9}\")", "FROM (\"1,5\")", "FROM (\"0\"..\"9\" | \"\")", "FROM (ALL EXCEPT \"a\")",
    "FROM (MIN..\"z\")", "FROM (\"a\"..MAX)", "FROM (Str-Alias)", "FROM (sv)", "FROM (sv..\"z\")", "FROM (empty..\"z\")", "SIZE (1..4)", "SIZE (0)", "SIZE (w)", "SIZE (MIN..MAX)",
    "\"abc\"", "\"\"", "\"a\"..\"z\"", "\"\"..\"z\"", "Str-Alias", "PATTERN \"x\"",
];

/// character string types under element sets built from FROM / SIZE / single-value / range
/// elements with degenerate ends (empty, several characters, inverted, outside the type's
/// alphabet, given by reference), joined by every set operator, nested and serial
fn string_constraint_module(src: &mut Src) -> String {
    let mut s = header(src, "StrCon-Mod");
    s.push_str("\nStr-Alias ::= IA5String (FROM (\"a\"..\"m\"))\nsv IA5String ::= \"k\"\nempty IA5String ::= \"\"\nw INTEGER ::= 3\n");
    let n = 2 + src.pick(8);
    let elem = |src: &mut Src| -> String {
        let e = SC_ELEMS[src.pick(SC_ELEMS.len())];
        if src.chance(15) { format!("({e})") } else { e.to_string() }
    };
    for i in 0..n {
        let ty = SC_TYPES[src.pick(SC_TYPES.len())];
        let k = 1 + src.weighted(&[3, 5, 2]);
        let mut expr = elem(src);
        for _ in 1..k {
            let op = ["|", "^", "EXCEPT", "UNION", "INTERSECTION"][src.weighted(&[3, 5, 2, 1, 1])];
            expr = format!("{expr} {op} {}", elem(src));
        }
        if src.chance(10) {
            expr = format!("ALL EXCEPT {expr}");
        }
        if src.chance(15) {
            expr.push_str(", ...");
        }
        let serial = if src.chance(20) { format!(" ({})", elem(src)) } else { String::new() };
        match src.pick(4) {
            0 => s.push_str(&format!("S{i} ::= SEQUENCE {{ f {ty} ({expr}){serial} OPTIONAL }}\n")),
            1 => s.push_str(&format!("S{i} ::= SEQUENCE OF {ty} ({expr}){serial}\n")),
            _ => s.push_str(&format!("S{i} ::= {ty} ({expr}){serial}\n")),
        }
    }
    s.push_str("END\n");
    s
}


/// types that refer to each other densely (every type has members of most of the others), with
/// an entry type nobody refers to: the search for recursive references has to visit a graph
/// with factorially many simple paths
fn dense_reference_module(src: &mut Src) -> String {
    let mut s = header(src, "Dense-Mod");
    s.push('\n');
    let n = 6 + src.pick(11);
    s.push_str("Zz-Entry ::= SEQUENCE { a Dn0, b Dn1 OPTIONAL }\n");
    for i in 0..n {
        let kw = ["SEQUENCE", "SET", "CHOICE"][src.weighted(&[6, 2, 2])];
        let mut members = vec![];
        for j in 0..n {
            if j != i && src.chance(85) {
                members.push(if kw == "CHOICE" { format!("m{j} Dn{j}") } else if src.chance(15) { format!("m{j} SEQUENCE OF Dn{j}") } else { format!("m{j} Dn{j} OPTIONAL") });
            }
        }
        members.push("z NULL".into());
        s.push_str(&format!("Dn{i} ::= {kw} {{ {} }}\n", members.join(", ")));
    }
    s.push_str("END\n");
    s
}

fn make_jobs(seed: u64, n: usize, reals: &[(String, String)]) -> Vec<Job> {
    let mut drv = Driver::new(seed, 8, 2500);
    let streams: Vec<Vec<u32>> = drv.draw(n).iter().map(|t| t.current()).collect();
    let gcfg = GenCfg { max_modules: 2, max_types: 6, any: true, ..GenCfg::default() };
    streams
        .par_iter()
        .enumerate()
        .map(|(i, s)| {
            let mut src = Src::new(s);
            let class = src.weighted(&[20, 30, 30, 30, 20, 10, 20, 30, 20, 30, 2]);
            // skip a few numbers so that the inner generators do not mirror the class choice
            for _ in 0..3 {
                src.raw();
            }
            let real = |src: &mut Src| -> &str {
                if reals.is_empty() { "" } else { reals[src.pick(reals.len())].1.as_str() }
            };
            match class {
                0 => Job { class: "soup", text: soup(&mut src) },
                1 => {
                    // prefix of a valid module (generated or real)
                    let base = if src.chance(50) && !reals.is_empty() { real(&mut src).to_string() } else { print(&gen_set(&s[s.len() / 2..], &gcfg)) };
                    let mut cut = src.pick(base.len() + 1);
                    while !base.is_char_boundary(cut) {
                        cut -= 1;
                    }
                    Job { class: "prefix", text: base[..cut].to_string() }
                }
                2 => {
                    let a = real(&mut src).to_string();
                    let b = real(&mut src).to_string();
                    Job { class: "mutated-real", text: mutate(&mut src, &a, &b) }
                }
                3 => {
                    let a = print(&gen_set(&s[s.len() / 2..], &gcfg));
                    let b = exotic_module_x(&mut src, 120);
                    Job { class: "mutated-generated", text: mutate(&mut src, &a, &b) }
                }
                4 => Job { class: "exotic", text: exotic_module(&mut src) },
                7 => Job { class: "type-value-mismatch", text: mismatch_module(&mut src) },
                8 => Job { class: "import-web", text: import_web(&mut src) },
                9 => Job { class: "string-constraint-algebra", text: string_constraint_module(&mut src) },
                10 => Job { class: "dense-reference-web", text: dense_reference_module(&mut src) },
                5 => {
                    // (malformed input nested deeper than ~25 levels took exponential time: finding
                    // F-exp-backtrack, repaired; the mutants nest up to 120 levels)
                    let a = exotic_module_x(&mut src, 120);
                    let b = real(&mut src).to_string();
                    Job { class: "mutated-exotic", text: mutate(&mut src, &a, &b) }
                }
                _ => {
                    let ms = gen_set(&s[s.len() / 2..], &gcfg);
                    if i % 2 == 0 {
                        Job { class: "open-at-eof", text: open_at_eof(&mut src, &print(&ms)) }
                    } else {
                        Job { class: "multibyte-at-boundary", text: multibyte_at_boundary(&mut src, &tokens(&ms)) }
                    }
                }
            }
        })
        .collect()
}

/// libFuzzer campaign on /verif/fuzzhost/fuzz (target `c08`): corpus seeded with a sample of the
/// structured jobs, fork mode so that a crash does not end the campaign; returns statistics
/// and the texts of all saved artifacts (crash / timeout / oom)
fn fuzz_leg(seed: u64, secs: u64, jobs: &[Job]) -> Result<(Value, Vec<String>), String> {
    use std::process::Command;
    let dir = "/verif/fuzzhost/fuzz";
    let b = Command::new("cargo")
        .args(["+nightly", "fuzz", "build", "c08"])
        .current_dir(dir)
        .env("CARGO_NET_OFFLINE", "true")
        .output()
        .map_err(|e| format!("cannot run cargo fuzz: {e}"))?;
    if !b.status.success() {
        return Err(format!("cargo fuzz build failed: {}", String::from_utf8_lossy(&b.stderr).lines().rev().take(5).collect::<Vec<_>>().join(" | ")));
    }
    let bin = format!("{dir}/target/x86_64-unknown-linux-gnu/release/c08");
    let base = std::env::var("TMPDIR").unwrap_or_else(|_| "/tmp".into());
    let work = format!("{base}/verif-scratch-fuzz-{}", std::process::id());
    let _ = std::fs::remove_dir_all(&work);
    let (corpus, arts) = (format!("{work}/corpus"), format!("{work}/artifacts"));
    std::fs::create_dir_all(&corpus).map_err(|e| e.to_string())?;
    std::fs::create_dir_all(&arts).map_err(|e| e.to_string())?;
    // seed corpus: a few hundred small structured inputs, spread over the classes (the compiler
    // keeps module headers in reference-counted cycles, so a process that runs thousands of large
    // inputs grows; the initial merge of the corpus runs in one process and must stay small)
    let mut n = 0;
    let small: Vec<&Job> = jobs.iter().filter(|j| j.text.len() <= 1500).collect();
    for (i, j) in small.iter().enumerate() {
        if i % (small.len() / 600 + 1) == 0 || j.class == "replay" {
            let _ = std::fs::write(format!("{corpus}/seed-{i}"), &j.text);
            n += 1;
        }
    }
    let dict: String = DICT.iter().filter(|d| !d.contains('"') && !d.contains('\\')).enumerate().map(|(i, d)| format!("kw{i}=\"{d}\"\n")).collect();
    std::fs::write(format!("{work}/asn1.dict"), dict).map_err(|e| e.to_string())?;
    let run = |corpus_dir: &str| {
        Command::new(&bin)
        .arg(corpus_dir)
        .args([
            &format!("-max_total_time={secs}"),
            &format!("-seed={}", (seed % 0xffff_fffe) + 1),
            "-max_len=4000",
            "-timeout=20",
            "-rss_limit_mb=6144",
            "-fork=16",
            "-ignore_crashes=1",
            "-ignore_timeouts=1",
            "-ignore_ooms=1",
            &format!("-artifact_prefix={arts}/"),
            &format!("-dict={work}/asn1.dict"),
        ])
        .output()
        .map_err(|e| format!("cannot run the fuzz target: {e}"))
    };
    let mut out = run(&corpus)?;
    let mut log = String::from_utf8_lossy(&out.stderr).to_string();
    if !log.lines().any(|l| l.starts_with('#') && l.contains("cov:")) {
        // the campaign did not get past loading the seed corpus: run it from an empty corpus
        // (dictionary only) rather than not at all
        let empty = format!("{work}/empty-corpus");
        std::fs::create_dir_all(&empty).map_err(|e| e.to_string())?;
        n = 0;
        out = run(&empty)?;
        log = String::from_utf8_lossy(&out.stderr).to_string();
    }
    // fork mode prints "#<execs>: cov: <n> ft: <n> corp: <n> exec/s: <n> ..." lines
    let last = log.lines().rev().find(|l| l.starts_with('#') && l.contains("cov:")).unwrap_or("").to_string();
    let execs: u64 = last.trim_start_matches('#').split(':').next().and_then(|x| x.trim().parse().ok()).unwrap_or(0);
    let mut texts = vec![];
    if let Ok(rd) = std::fs::read_dir(&arts) {
        let mut paths: Vec<_> = rd.flatten().map(|e| e.path()).collect();
        paths.sort();
        for p in paths.into_iter().take(200) {
            if let Ok(bytes) = std::fs::read(&p) {
                texts.push(String::from_utf8_lossy(&bytes).to_string());
            }
        }
    }
    let stats = json!({"seconds": secs, "seed_corpus_files": n, "executions": execs, "last_status_line": last, "artifacts": texts.len()});
    let _ = std::fs::remove_dir_all(&work);
    if execs == 0 {
        let _ = std::fs::write(format!("{}/fuzz-c08-failed.log", crate::ev::out_dir()), &log);
        return Err(format!("the campaign reported no executions: {}", log.lines().rev().take(4).collect::<Vec<_>>().join(" | ")));
    }
    Ok((stats, texts))
}

/// signature of a panic: source file (without line: fixes move lines) + message head
fn panic_signature(msg: &str) -> String {
    // "<path>:<line>: <message>"
    let file = msg.split(':').next().unwrap_or("").rsplit("/src/").next().unwrap_or("").to_string();
    let text = msg.splitn(3, ':').nth(2).unwrap_or("").trim();
    // the message up to the first quoted excerpt of the input, digits removed
    let head: String = text.split('`').next().unwrap_or("").chars().filter(|c| !c.is_ascii_digit()).take(60).collect();
    format!("{file}|{head}")
}

/// F-named-bit-huge: a BIT STRING type names a bit with a very large number and a value of the
/// type is written as a list of names: the linker builds one bool per bit position up to the
/// highest named number (capacity overflow, allocation failure or minutes of work by size)
fn huge_named_bit(text: &str) -> bool {
    text.contains("BIT STRING") && text.split(|c: char| !c.is_ascii_digit()).any(|n| n.len() >= 9)
}

fn classify(v: &WV, text: &str) -> Option<&'static str> {
    match v {
        WV::Panic(m) => {
            let sig = panic_signature(m);
            if sig.starts_with("generator/rasn/builder.rs|not implemented: rasn does not support TIME") || sig.starts_with("generator/typescript/mod.rs|not implemented: rasn does not support TIME") {
                return Some("F-time-unimplemented");
            }
            if sig.starts_with("vec/spec_from_iter_nested.rs|capacity overflow") && huge_named_bit(text) {
                return Some("F-named-bit-huge");
            }
            None
        }
        WV::Timeout => {
            // F-exp-backtrack: malformed input with deeply nested braces
            let mut depth = 0i32;
            let mut max = 0i32;
            for ch in text.chars() {
                match ch {
                    '{' => {
                        depth += 1;
                        max = max.max(depth);
                    }
                    '}' => depth -= 1,
                    _ => {}
                }
            }
            if max >= 20 {
                Some("F-exp-backtrack")
            } else if huge_named_bit(text) {
                Some("F-named-bit-huge")
            } else {
                None
            }
        }
        // the allocation of one bool per bit position fails under the worker's memory limit
        WV::Died(_) if huge_named_bit(text) => Some("F-named-bit-huge"),
        // the recursive descent (lexer, linker, generator) exhausts the stack
        WV::Died(_) if nesting(text) >= 2000 => Some("F-deep-nesting"),
        _ => None,
    }
}

pub fn run(tier: Tier, seed: u64, replay: Option<String>) -> i32 {
    let mut ctx = Ctx::new("C08", tier, seed);
    ctx.rule = "inputs: byte/token soup, prefixes of valid modules (generated and real-world), token-level mutations (delete, insert, replace, duplicate, swap, \
                splice) of real-world, generated and exotic-notation modules, modules composed from a library of every notation the lexer parses (classes, objects, \
                object sets, parameterization, selection, COMPONENTS OF, TIME, REAL, EXTERNAL, MACRO, PATTERN/CONTAINING/WITH COMPONENTS, cyclic aliases / values / \
                object sets, deep nesting), webs of two to four modules that import types, values, classes, objects and object sets from each other (chains, cycles, self-imports, missing symbols and modules, definitive identifiers present / absent / wrong), well-formed modules pairing 30 type notations with 40 value notations and 34 constraints whether they fit or not \
                (as assignment, via alias, as DEFAULT, as SEQUENCE OF elements; with cyclic aliases and cyclic values, plain and module-qualified, in scope), inputs cut inside comments/strings at EOF, multi-byte characters at token boundaries; each is compiled in an isolated worker \
                (8 MiB stack) with the rasn backend (default and non-opaque open types) and the TypeScript backend, and every error and warning is rendered with Display \
                and contextualize; a panic, a dead worker (abort / stack exhaustion) or a confirmed timeout is a violation; non-trivial = the lexer got past the module \
                header (input contains `BEGIN` followed by at least one `::=`); distinct by input text"
        .into();
    ctx.assumptions = vec![
        "a timeout is re-run on a fresh worker with 5x the bound before it counts as a hang; INFRA problems are reported as inconclusive (exit 2)".into(),
        "workers run each input on a thread with an 8 MiB stack (the main-thread default)".into(),
        "a timeout on notation nested 1000 or more levels deep is counted as inconclusive, not as a hang (the work is quadratic in the depth); up to 600 levels an answer is demanded".into(),
    ];
    let timeout = Duration::from_secs(10);
    let mut handle = |ctx: &mut Ctx, job: &Job, r: Result<WV, String>| {
        let nontrivial = job.text.find("BEGIN").map_or(false, |p| job.text[p..].contains("::="));
        match r {
            Err(e) => ctx.inconclusive.push(e),
            Ok(v) => {
                ctx.case(&job.text, nontrivial);
                ctx.class(&format!("class:{}", job.class));
                match &v {
                    WV::Returned(k) => ctx.class(&format!("returned:{k}")),
                    // the work grows with the square of the nesting depth: where the stack holds,
                    // thousands of levels take longer than the bound; that is slow, not a hang
                    WV::Timeout if nesting(&job.text) >= 1000 => ctx.class("inconclusive:timeout-on-1000-or-more-levels"),
                    other => {
                        let (what, sig) = match other {
                            WV::Panic(m) => (format!("panic: {m}"), format!("panic:{}", panic_signature(m))),
                            WV::Died(h) => (format!("worker died ({h}): abort or stack exhaustion"), format!("died:{h}")),
                            WV::Timeout => ("no answer within 10 s, nor within 50 s on a fresh idle worker: does not terminate (in practice)".to_string(), "hang".to_string()),
                            _ => unreachable!(),
                        };
                        ctx.class(&format!("fails:{sig}"));
                        let fid = classify(other, &job.text);
                        let known = fid.map_or(false, |f| ctx.is_known(f));
                        let seen = ctx.extra.get("reported_signatures").and_then(|v| v.as_array()).map_or(false, |a| a.iter().any(|x| x.as_str() == Some(sig.as_str())));
                        if known || (!seen && ctx.violations.len() < 12) {
                            if !known {
                                let mut arr = ctx.extra.get("reported_signatures").and_then(|v| v.as_array().cloned()).unwrap_or_default();
                                arr.push(json!(sig));
                                ctx.extra.insert("reported_signatures".into(), json!(arr));
                            }
                            ctx.fail(Failure {
                                finding: fid,
                                what,
                                replay: json!({"kind": "c08", "class": job.class, "signature": sig, "sources": [{"name": "input.asn", "text": job.text}]}),
                            });
                        }
                    }
                }
            }
        }
    };
    if let Some(path) = replay {
        let v: Value = serde_json::from_str(&std::fs::read_to_string(&path).expect("replay")).expect("json");
        let text = v["sources"][0]["text"].as_str().unwrap_or("").to_string();
        if v["kind"] == "c08-cut" {
            ctx.case(&format!("cut:{text}"), true);
            for ts in [false, true] {
                let o = if ts { crate::comp::compile_ts(&[text.clone()]) } else { crate::comp::compile_rasn1(&text, &crate::comp::Cfg::default()) };
                if let crate::comp::Outcome::Ok(c) = o {
                    if c.warnings.is_empty() {
                        ctx.fail(Failure { finding: None, what: format!("input that is cut off ({}) is not reported: Ok without a warning", v["cut"].as_str().unwrap_or("?")), replay: v.clone() });
                        break;
                    }
                }
            }
            return ctx.finish();
        }
        let job = Job { class: "replay", text };
        let r = worker::run_all(&[job.text.clone()], 1, timeout).pop().unwrap();
        println!("replay: {r:?}");
        handle(&mut ctx, &job, r);
        return ctx.finish();
    }
    // replay tier + corpus
    let mut jobs: Vec<Job> = vec![];
    for (_p, v) in crate::ev::replay_files("C08") {
        if let Some(t) = v["sources"][0]["text"].as_str() {
            // (also the `c08-cut` files: as plain inputs they must not panic either)
            jobs.push(Job { class: "replay", text: t.to_string() });
        }
    }
    let reals = crate::props::c11::real_modules(tier.pick(120, 892), seed);
    // every real-world module as it is
    for (_, t) in &reals {
        jobs.push(Job { class: "real-complete", text: t.clone() });
    }
    // the libFuzzer campaign runs first (while this process is still small); its corpus is seeded
    // from the committed replays and a sample of structured inputs of its own
    let mut seed_jobs: Vec<Job> = jobs.iter().filter(|j| j.class == "replay").cloned().collect();
    seed_jobs.extend(make_jobs(seed ^ 0xf00d, 4000, &reals));
    // coverage-guided leg (thorough tier, or VERIF_FUZZ_SECS=<n>): libFuzzer over the same oracle
    let fuzz_secs: u64 = std::env::var("VERIF_FUZZ_SECS").ok().and_then(|v| v.parse().ok()).unwrap_or(if tier == Tier::Thorough { 900 } else { 0 });
    if fuzz_secs > 0 {
        match fuzz_leg(seed, fuzz_secs, &seed_jobs) {
            Ok((stats, artifacts)) => {
                ctx.extra.insert("libfuzzer".into(), stats);
                let arts: Vec<Job> = artifacts.into_iter().map(|t| Job { class: "libfuzzer-artifact", text: t }).collect();
                let texts: Vec<String> = arts.iter().map(|j| j.text.clone()).collect();
                // artifacts are re-judged by the worker pool: the verdict, signature and finding
                // attribution are the same as for every other input
                let results = worker::run_all(&texts, 16, timeout);
                for (j, r) in arts.iter().zip(results) {
                    handle(&mut ctx, j, r);
                }
            }
            Err(e) => {
                eprintln!("INFRA: libFuzzer leg not run: {e}");
                ctx.inconclusive.push(format!("libFuzzer leg: {e}"));
            }
        }
    }
    jobs.extend(make_jobs(seed, tier.pick(50000, 1000000), &reals));
    if let Some(j) = jobs.iter().find(|j| j.class == "exotic") {
        ctx.sample_text("exotic", &j.text);
    }
    if let Some(j) = jobs.iter().find(|j| j.class == "mutated-generated") {
        ctx.sample_text("mutated-generated", &j.text);
    }
    let texts: Vec<String> = jobs.iter().map(|j| j.text.clone()).collect();
    let results = worker::run_all(&texts, 16, timeout);
    for (j, r) in jobs.iter().zip(results) {
        handle(&mut ctx, j, r);
    }
    // ---- "malformed notation is reported as Err or as a warning": inputs that are cut off in a
    // place where every token so far is fine (the closing END missing, a later module cut
    // after one of its assignments, a stray word behind the last END, nothing but white space
    // or a comment) must not come back as a clean Ok
    {
        let n_tr = tier.pick(600, 6000);
        let mut drv = Driver::new(seed, 88, 800);
        let gcfg = GenCfg { max_modules: 3, max_types: 5, ..GenCfg::default() };
        let streams: Vec<Vec<u32>> = drv.draw(n_tr).iter().map(|t| t.current()).collect();
        let mut inputs: Vec<(String, String)> = vec![
            ("nothing".into(), String::new()),
            ("white space only".into(), " \n\t \r\n".into()),
            ("comment only".into(), "-- nothing here\n/* nor here */\n".into()),
        ];
        // notation the backends do not support has to be *reported* too (rasn: MACRO, REAL and
        // VideotexString types; TypeScript: MACRO), wherever the definition stands in its module
        for (k, unsupported) in ["ZZ-NOTE MACRO ::= BEGIN TYPE NOTATION ::= \"P\" VALUE NOTATION ::= value(VALUE INTEGER) END", "AA-NOTE MACRO ::= BEGIN TYPE NOTATION ::= \"P\" VALUE NOTATION ::= value(VALUE INTEGER) END", "Mm-Real ::= REAL", "Mm-Vtx ::= VideotexString"].iter().enumerate() {
            for order in 0..2 {
                let keep = "Keep-A ::= INTEGER\nKeep-Z ::= SEQUENCE { a BOOLEAN }";
                let body = if order == 0 { format!("{unsupported}\n{keep}") } else { format!("{keep}\n{unsupported}") };
                inputs.push((if k < 2 { "unsupported notation (both backends)".into() } else { "unsupported notation (rasn backend)".into() }, format!("Un-Mod DEFINITIONS AUTOMATIC TAGS ::= BEGIN\n{body}\nEND\n")));
                if k < 2 && order == 0 {
                    inputs.push(("unsupported notation (both backends)".into(), format!("Un-Only DEFINITIONS ::= BEGIN\n{unsupported}\nEND\n")));
                }
            }
        }
        for s in &streams {
            let text = print(&gen_set(s, &gcfg));
            let mut src = Src::new(&s[s.len() / 2..]);
            let lines: Vec<&str> = text.lines().collect();
            let Some(last_end) = lines.iter().rposition(|l| l.trim() == "END") else { continue };
            let last_begin = lines[..last_end].iter().rposition(|l| l.contains(" DEFINITIONS ")).unwrap_or(0);
            match src.pick(3) {
                0 => inputs.push(("closing END missing".into(), lines[..last_end].join("\n") + "\n")),
                1 => {
                    // keep the header and k >= 0 assignments of the last module
                    let body = last_end - last_begin - 1;
                    let k = src.pick(body + 1);
                    inputs.push(("last module cut after an assignment".into(), lines[..last_begin + 1 + k].join("\n") + "\n"));
                }
                _ => inputs.push(("stray word behind the last END".into(), format!("{text}dangling\n"))),
            }
        }
        let outcomes: Vec<(String, String, Option<String>)> = inputs
            .par_iter()
            .map(|(kind, text)| {
                let mut bad = None;
                for ts in [false, true] {
                    if ts && kind.ends_with("(rasn backend)") {
                        continue;
                    }
                    let o = if ts { crate::comp::compile_ts(&[text.clone()]) } else { crate::comp::compile_rasn1(text, &crate::comp::Cfg::default()) };
                    if let crate::comp::Outcome::Ok(c) = o {
                        if c.warnings.is_empty() {
                            bad = Some(format!("{} backend returned Ok without a warning ({} bytes of bindings)", if ts { "TypeScript" } else { "rasn" }, c.generated.len()));
                            break;
                        }
                    }
                }
                (kind.clone(), text.clone(), bad)
            })
            .collect();
        let mut reported = 0;
        for (kind, text, bad) in outcomes {
            ctx.case(&format!("cut:{text}"), true);
            ctx.class(&format!("must-be-reported:{kind}"));
            if let Some(d) = bad {
                ctx.class("fails:unreported-truncation");
                if reported < 3 {
                    reported += 1;
                    ctx.fail(Failure {
                        finding: None,
                        what: format!("input that has to be reported ({kind}) is not: {d}"),
                        replay: json!({"kind": "c08-cut", "cut": kind, "sources": [{"name": "input.asn", "text": text}]}),
                    });
                }
            }
        }
    }
    let infra = !ctx.inconclusive.is_empty() && ctx.evaluations == 0;
    let code = ctx.finish();
    if infra {
        2
    } else {
        code
    }
}
