//! C18 — TypeScript declarations have the JER shape of each type.
use crate::asn::*;
use crate::comp::{self, Outcome};
use crate::ev::{Ctx, Tier};
use crate::gen::{self, GenCfg};
use crate::props::common::*;
use crate::tsparse::{self, Decl, Namespace, TsType};
use serde_json::json;
use std::collections::BTreeSet;

pub fn gen_cfg() -> GenCfg {
    GenCfg { ..GenCfg::default() }
}

fn mangle(s: &str) -> String {
    s.replace('-', "_")
}

const PRIMITIVES: [&str; 9] = ["number", "string", "boolean", "null", "any", "object", "undefined", "unknown", "never"];

struct Sh<'a> {
    known: &'a BTreeSet<String>,
    /// the module header says EXTENSIBILITY IMPLIED: every SEQUENCE / SET is extensible
    ext_implied: bool,
    /// first place where the listed finding F-ts-ext-implied shows (reported only when nothing
    /// else fails, so that it does not hide the other clauses for such modules)
    implied_at: std::cell::RefCell<Option<String>>,
}

impl<'a> Sh<'a> {
    /// every identifier in a type position is declared, imported or primitive
    fn names_ok(&self, t: &TsType) -> Result<(), String> {
        match t {
            TsType::Name(n) => {
                if PRIMITIVES.contains(&n.as_str()) || self.known.contains(n) {
                    Ok(())
                } else {
                    Err(format!("type name `{n}` is neither declared in the namespace, nor imported, nor a primitive"))
                }
            }
            TsType::StrLit(_) => Ok(()),
            TsType::Array(e) => self.names_ok(e),
            TsType::Union(v) => v.iter().try_for_each(|x| self.names_ok(x)),
            TsType::Object { members, .. } => members.iter().try_for_each(|(_, _, x)| self.names_ok(x)),
        }
    }

    /// compare a TS type with the JER shape of `ty`; Err((clause, detail))
    fn shape(&self, t: &TsType, ty: &Ty, at: &str) -> Result<(), (&'static str, String)> {
        match ty {
            Ty::Sequence(f) | Ty::Set(f) => {
                let TsType::Object { members, index_signature } = t else {
                    return Err(("object", format!("{at}: SEQUENCE/SET is not an object type: {t:?}")));
                };
                let has_group = f.ext.as_ref().map_or(false, |a| a.iter().any(|x| matches!(x, Addition::Group { .. })));
                let comps = gen::flat_comps(&f.root, &f.ext);
                if *index_signature != f.ext.is_some() {
                    // without a marker of its own a type is still extensible under EXTENSIBILITY IMPLIED
                    if !(self.ext_implied && *index_signature) {
                        return Err(("index-signature", format!("{at}: index signature = {index_signature}, extension marker = {}", f.ext.is_some())));
                    }
                } else if self.ext_implied && !*index_signature && self.implied_at.borrow().is_none() {
                    *self.implied_at.borrow_mut() = Some(at.to_string());
                }
                if members.len() != comps.len() {
                    let clause = if has_group && members.iter().any(|(n, _, _)| n.starts_with("ext_group_")) { "group" } else { "members" };
                    return Err((clause, format!("{at}: {} members for {} components: {:?}", members.len(), comps.len(), members.iter().map(|m| m.0.clone()).collect::<Vec<_>>())));
                }
                for ((name, opt, mt), (c, _)) in members.iter().zip(comps.iter()) {
                    if *name != mangle(&c.name) {
                        return Err(("order", format!("{at}: member `{name}` at the position of `{}`", c.name)));
                    }
                    let want_opt = c.opt != Opt::Req;
                    if *opt != want_opt {
                        return Err(("optional", format!("{at}.{name}: `?` = {opt}, OPTIONAL/DEFAULT = {want_opt}")));
                    }
                    self.shape(mt, &c.ty, &format!("{at}.{name}"))?;
                }
                Ok(())
            }
            Ty::Choice(a) => {
                let alts = gen::flat_comps(&a.root, &a.ext);
                let parts: Vec<&TsType> = match t {
                    TsType::Union(v) => v.iter().collect(),
                    other => vec![other],
                };
                if parts.len() != alts.len() {
                    return Err(("choice", format!("{at}: union of {} for {} alternatives", parts.len(), alts.len())));
                }
                for (p, (c, _)) in parts.iter().zip(alts.iter()) {
                    match p {
                        TsType::Object { members, index_signature: false } if members.len() == 1 => {
                            let (name, opt, mt) = &members[0];
                            if *name != mangle(&c.name) || *opt {
                                return Err(("choice", format!("{at}: alternative object {{{name}{}}} at the position of `{}`", if *opt { "?" } else { "" }, c.name)));
                            }
                            self.shape(mt, &c.ty, &format!("{at}.{name}"))?;
                        }
                        other => return Err(("choice", format!("{at}: alternative `{}` is not a single-key object: {other:?}", c.name))),
                    }
                }
                Ok(())
            }
            Ty::SeqOf(o) | Ty::SetOf(o) => match t {
                TsType::Array(e) => self.shape(e, &o.elem, &format!("{at}[]")),
                other => Err(("array", format!("{at}: SEQUENCE OF / SET OF is not an array type: {other:?}"))),
            },
            Ty::Enumerated(e) => {
                // inline enumerated: the original enumeral names as string literals, in order
                let names: Vec<&String> = e.root.iter().chain(e.ext.iter().flatten()).map(|x| &x.0).collect();
                let parts: Vec<&TsType> = match t {
                    TsType::Union(v) => v.iter().collect(),
                    other => vec![other],
                };
                let got: Vec<String> = parts.iter().map(|p| match p { TsType::StrLit(s) => s.clone(), o => format!("{o:?}") }).collect();
                if got.len() != names.len() || got.iter().zip(names.iter()).any(|(g, n)| g != *n) {
                    return Err(("enum", format!("{at}: inline ENUMERATED rendered as {got:?}, enumerals {names:?}")));
                }
                Ok(())
            }
            Ty::Ref { name, .. } => match t {
                TsType::Name(n) if *n == mangle(name) => Ok(()),
                other => Err(("reference", format!("{at}: reference to {name} rendered as {other:?}"))),
            },
            // leaves: any type the parser accepted that is not structurally a constructed shape
            _ => Ok(()),
        }
    }
}

fn check_module(m: &Module, ns: &Namespace, warned: &dyn Fn(&str) -> bool) -> Option<(&'static str, String)> {
    let decls = tsparse::decl_map(ns);
    let mut known: BTreeSet<String> = ns.decls.iter().map(|d| d.0.clone()).collect();
    known.extend(ns.imports.iter().map(|i| i.0.clone()));
    let sh = Sh { known: &known, ext_implied: m.ext_implied, implied_at: Default::default() };
    for it in &m.items {
        let Item::Type { name, ty, .. } = it else { continue };
        if warned(name) {
            continue;
        }
        let tsname = mangle(name);
        let ds = decls.get(&tsname).cloned().unwrap_or_default();
        if ds.len() != 1 {
            return Some(("declaration", format!("{} exported declarations named `{tsname}` for type assignment {name}", ds.len())));
        }
        match (ds[0], ty) {
            (Decl::Enum(ms), Ty::Enumerated(e)) => {
                let names: Vec<&String> = e.root.iter().chain(e.ext.iter().flatten()).map(|x| &x.0).collect();
                if ms.len() != names.len() {
                    return Some(("enum", format!("{name}: {} enum members for {} enumerals", ms.len(), names.len())));
                }
                for ((mn, mv), n) in ms.iter().zip(names.iter()) {
                    if *mn != mangle(n) || mv != *n {
                        return Some(("enum", format!("{name}: enum member {mn} = \"{mv}\" at the position of `{n}`")));
                    }
                }
            }
            (Decl::Type(t), Ty::Enumerated(_)) => {
                return Some(("enum", format!("{name}: ENUMERATED declared as a type alias {t:?}, expected an enum with string members")))
            }
            (Decl::Type(t), _) => {
                if let Err(e) = sh.names_ok(t) {
                    return Some(("names", format!("{name}: {e}")));
                }
                if let Err((clause, d)) = sh.shape(t, ty, name) {
                    return Some((clause, d));
                }
            }
            (d, _) => return Some(("declaration", format!("{name}: declared as {d:?}"))),
        }
    }
    sh.implied_at.take().map(|at| ("index-signature-implied", format!("{at}: no index signature although the module says EXTENSIBILITY IMPLIED")))
}

fn classify(ms: &ModuleSet, clause: &str, detail: &str) -> Option<&'static str> {
    let _ = ms;
    if (clause == "group" || clause == "order") && detail.contains("ext_group_") {
        return Some("F-ts-group");
    }
    if clause == "index-signature-implied" {
        return Some("F-ts-ext-implied");
    }
    None
}

/// the same module set with an information object class exported by one module and listed (at
/// the front, in the middle or at the end) in an IMPORTS clause that names types of that module
fn with_class_import(ms: &ModuleSet) -> Option<ModuleSet> {
    let mut out = ms.clone();
    let (mi, ii) = out.modules.iter().enumerate().find_map(|(mi, m)| m.imports.iter().position(|im| !im.symbols.is_empty()).map(|ii| (mi, ii)))?;
    let from = out.modules[mi].imports[ii].from.clone();
    let exporter = out.modules.iter().position(|m| m.name == from)?;
    let toks: Vec<String> = "ZQ-CLASS ::= CLASS { &id INTEGER UNIQUE , &Type } WITH SYNTAX { ID &id TYPE &Type }".split(' ').map(|t| t.to_string()).collect();
    out.modules[exporter].items.push(Item::Raw { name: "ZQ-CLASS".into(), toks, kind: "class".into() });
    let syms = &mut out.modules[mi].imports[ii].symbols;
    // position derived from the list itself (no randomness outside the generator's stream)
    let pos = [0, syms.len() / 2, syms.len()][(syms.len() + mi + ii) % 3];
    syms.insert(pos, "ZQ-CLASS".into());
    Some(out)
}

/// for the checks of other properties whose statement covers the TypeScript bindings too
/// (C05: extensibility, C12: imports): the failure of one of the named clauses, if any, that is
/// not attributed to a listed finding
/// the import clause alone (C12): every symbol of every IMPORTS clause that has a TypeScript
/// counterpart is aliased from the right namespace — for the input as it is and with an
/// object class put into one IMPORTS list
pub fn ts_import_failure(ms: &ModuleSet) -> Option<String> {
    let one = |ms: &ModuleSet| -> Option<String> {
        let Outcome::Ok(out) = comp::compile_ts(&[print(ms)]) else { return None };
        let nss = tsparse::parse(&out.generated).ok()?;
        for m in &ms.modules {
            let want = mangle(&m.name);
            let found: Vec<&Namespace> = nss.iter().filter(|n| n.name == want).collect();
            if found.len() != 1 {
                continue;
            }
            for im in &m.imports {
                for s in &im.symbols {
                    if s.chars().all(|c| c.is_ascii_uppercase() || c == '-') {
                        continue;
                    }
                    let ok = found[0].imports.iter().any(|(a, from, n)| *a == mangle(s) && *from == mangle(&im.from) && *n == mangle(s));
                    if !ok {
                        return Some(format!("module {}: no `import {} = {}.{}` (IMPORTS {} FROM {})\n{}", m.name, mangle(s), mangle(&im.from), mangle(s), im.symbols.join(", "), im.from, print(ms)));
                    }
                }
            }
        }
        None
    };
    one(ms).or_else(|| with_class_import(ms).and_then(|m2| one(&m2)))
}

pub fn ts_clause_failure(ms: &ModuleSet, clauses: &[&str]) -> Option<(String, String)> {
    let hit = |v: Verdict| -> Option<(String, String)> {
        match v {
            Verdict::Fail { key, finding: None, what, .. } if clauses.iter().any(|c| key == *c || key.ends_with(&format!(":{c}"))) => Some((key, what)),
            _ => None,
        }
    };
    // the plain input and the one with an object class in an IMPORTS list are judged
    // independently: a failure of another clause in one must not hide this clause in the other
    if let Some(h) = hit(eval_one(ms)) {
        return Some(h);
    }
    let ms2 = with_class_import(ms)?;
    match eval_one(&ms2) {
        Verdict::Fail { key, finding, what, observed, nontrivial } => hit(Verdict::Fail { key: format!("class-in-imports:{key}"), finding, what: format!("with an object class in the IMPORTS list: {what}\n{}", print(&ms2)), observed, nontrivial }),
        _ => None,
    }
}

pub fn eval(ms: &ModuleSet) -> Verdict {
    let v = eval_one(ms);
    if !matches!(v, Verdict::Pass { .. }) && !soft(&v) {
        return v;
    }
    match with_class_import(ms) {
        Some(ms2) => match eval_one(&ms2) {
            f if soft(&f) => v,
            Verdict::Fail { key, finding, what, observed, nontrivial } => Verdict::Fail { key: format!("class-in-imports:{key}"), finding, what: format!("with an object class in the IMPORTS list: {what}\n{}", print(&ms2)), observed, nontrivial },
            // an Err / warning for the class notation is not this check's business
            _ => v,
        },
        None => v,
    }
}

/// the same module text with a description comment behind every comma of every ENUMERATED
/// item list (the TypeScript backend turns such a comment into a `//` comment behind the member)
pub fn with_enumeral_comments(text: &str) -> String {
    let mut out = String::with_capacity(text.len() + 64);
    let mut rest = text;
    while let Some(p) = rest.find("ENUMERATED {") {
        let (head, tail) = rest.split_at(p + "ENUMERATED {".len());
        out.push_str(head);
        let end = tail.find('}').unwrap_or(tail.len());
        out.push_str(&tail[..end].replace(", ", ", -- nothing is lit, or so they say\n "));
        rest = &tail[end..];
    }
    out.push_str(rest);
    out
}

/// a failure that is the listed finding F-ts-ext-implied and nothing else: the other variants of
/// the input are still evaluated
fn soft(v: &Verdict) -> bool {
    matches!(v, Verdict::Fail { finding: Some("F-ts-ext-implied"), .. })
}

fn eval_one(ms: &ModuleSet) -> Verdict {
    let text = print(ms);
    let v = eval_text(ms, text.clone());
    if !matches!(v, Verdict::Pass { .. }) && !soft(&v) {
        return v;
    }
    let commented = with_enumeral_comments(&text);
    if commented != text {
        let vc = eval_text(ms, commented.clone());
        if soft(&vc) {
            return v;
        }
        if let Verdict::Fail { key, finding, what, observed, nontrivial } = vc {
            return Verdict::Fail { key: format!("enumeral-comments:{key}"), finding, what: format!("with a description comment behind the enumerals: {what}\n{commented}"), observed, nontrivial };
        }
    }
    v
}

fn eval_text(ms: &ModuleSet, text: String) -> Verdict {
    let out = match comp::compile_ts(&[text]) {
        Outcome::Ok(c) => c,
        Outcome::Err(_) => return Verdict::Skip("compile_err"),
        Outcome::Panic(p) => {
            return Verdict::Fail { key: "panic".into(), finding: None, what: format!("TypeScript backend panicked: {p}"), observed: json!(p), nontrivial: true }
        }
    };
    let feats = features(ms);
    let nontrivial = ms.modules.iter().any(|m| {
        m.items.iter().any(|i| matches!(i, Item::Type { ty: Ty::Sequence(f), .. } | Item::Type { ty: Ty::Set(f), .. } if f.root.len() >= 2))
    }) && (feats.contains("import") || ms.modules.iter().any(|m| m.items.iter().any(|i| matches!(i, Item::Type { ty, .. } if { let mut r = BTreeSet::new(); gen::refs_in(ty, &mut r); !r.is_empty() }))));
    let nss = match tsparse::parse(&out.generated) {
        Ok(n) => n,
        Err(e) => {
            let fid = if e.contains("unbalanced `]`") && out.generated.contains("= ];") { Some("F-ts-empty-array") } else { None };
            return Verdict::Fail { key: format!("parse:{}", e.chars().take(24).collect::<String>()), finding: fid, what: format!("TypeScript output does not parse / is unbalanced: {e}"), observed: json!(e), nontrivial };
        }
    };
    let mut deferred: Option<(&'static str, String, String)> = None;
    for m in &ms.modules {
        let want = mangle(&m.name);
        let found: Vec<&Namespace> = nss.iter().filter(|n| n.name == want).collect();
        if found.len() != 1 {
            return Verdict::Fail { key: "namespace".into(), finding: None, what: format!("{} namespaces named `{want}` for module {}", found.len(), m.name), observed: json!(null), nontrivial };
        }
        let warned = |name: &str| out.warnings.iter().any(|w| w.contains(name));
        if let Some((clause, d)) = check_module(m, found[0], &warned) {
            if clause == "index-signature-implied" {
                // listed finding: kept for the end so that it hides nothing else
                deferred.get_or_insert((clause, format!("{clause}: module {}: {d}", m.name), d));
            } else {
                return Verdict::Fail { key: clause.to_string(), finding: classify(ms, clause, &d), what: format!("{clause}: module {}: {d}", m.name), observed: json!(d), nontrivial };
            }
        }
        // imports: every IMPORTS symbol has an alias line from the right namespace
        for im in &m.imports {
            for s in &im.symbols {
                // information object classes have no TypeScript counterpart
                if s.chars().all(|c| c.is_ascii_uppercase() || c == '-') {
                    continue;
                }
                let ok = found[0].imports.iter().any(|(a, from, n)| *a == mangle(s) && *from == mangle(&im.from) && *n == mangle(s));
                if !ok {
                    return Verdict::Fail { key: "import".into(), finding: None, what: format!("module {}: no `import {} = {}.{}`", m.name, mangle(s), mangle(&im.from), mangle(s)), observed: json!(null), nontrivial };
                }
            }
        }
    }
    if let Some((clause, what, d)) = deferred {
        return Verdict::Fail { key: clause.to_string(), finding: classify(ms, clause, &d), what, observed: json!(d), nontrivial };
    }
    Verdict::Pass { nontrivial, classes: feats.iter().map(|s| s.to_string()).collect() }
}

// ---------------------------------------------------------------------------------------
// instances of parameterized types: the declaration of `Inst ::= Tmpl { A, B }` has the shape of
// the template's body with the actual parameters written out

const PARAM_BODIES: [&str; 7] = [
    "SEQUENCE { unordered SET OF Ta, ordered SEQUENCE OF Ta, first Ta OPTIONAL, second Ub }",
    "CHOICE { one Ta, many SET OF Ta, other SEQUENCE OF Ub }",
    "SET OF Ta",
    "SEQUENCE OF Ub",
    "SEQUENCE OF SEQUENCE { inner Ta, more SET OF Ub }",
    "SET { a Ta, b SEQUENCE OF Ub OPTIONAL, c SET OF SET OF Ta }",
    "SEQUENCE { nested SEQUENCE { deep SET OF Ta, ch CHOICE { x Ub, y SET OF Ub } } }",
];
const PARAM_ARGS: [&str; 6] = ["BOOLEAN", "INTEGER", "IA5String", "OCTET STRING", "Zo-Other", "SEQUENCE OF BOOLEAN"];

fn param_texts(body: usize, a: usize, b: usize) -> (String, String) {
    let (ta, ub) = (PARAM_ARGS[a % PARAM_ARGS.len()], PARAM_ARGS[b % PARAM_ARGS.len()]);
    let tmpl = PARAM_BODIES[body % PARAM_BODIES.len()];
    let head = "Par-Mod DEFINITIONS AUTOMATIC TAGS ::= BEGIN\nZo-Other ::= SEQUENCE { x INTEGER }\n";
    let expanded = tmpl.replace("Ta", ta).replace("Ub", ub);
    (format!("{head}Tmpl {{ Ta, Ub }} ::= {tmpl}\nInst ::= Tmpl {{ {ta}, {ub} }}\nEND\n"), format!("{head}Inst ::= {expanded}\nEND\n"))
}

fn param_eval(body: usize, a: usize, b: usize) -> Result<Option<String>, String> {
    let (sugared, expanded) = param_texts(body, a, b);
    let decl = |text: &str| -> Result<String, String> {
        match comp::compile_ts(&[text.to_string()]) {
            Outcome::Ok(c) if c.warnings.is_empty() => {
                let nss = crate::tsparse::parse(&c.generated)?;
                let ns = nss.first().ok_or("no namespace")?;
                let m = crate::tsparse::decl_map(ns);
                Ok(format!("{:?}", m.get("Inst").ok_or("no declaration of Inst")?))
            }
            Outcome::Ok(c) => Err(format!("warnings: {}", c.warnings[0])),
            Outcome::Err(e) => Err(e),
            Outcome::Panic(p) => Err(format!("panic: {p}")),
        }
    };
    let want = decl(&expanded)?;
    match decl(&sugared) {
        Ok(got) if got == want => Ok(None),
        Ok(got) => Ok(Some(format!("the instance is declared as {got}, the same type written out as {want}"))),
        Err(e) => Ok(Some(format!("the type written out is declared as {want}, the instance: {e}"))),
    }
}

// ---------------------------------------------------------------------------------------
// COMPONENTS OF (in last position, where the expansion keeps the order): the including type is
// declared with the root components of the included type, and with nothing else of it

const COMPOF_BASES: [(&str, &str); 8] = [
    ("SEQUENCE { x INTEGER, y BOOLEAN OPTIONAL }", "x INTEGER, y BOOLEAN OPTIONAL"),
    ("SEQUENCE { x INTEGER, ... }", "x INTEGER"),
    ("SEQUENCE { x INTEGER, y BOOLEAN OPTIONAL, ..., z IA5String }", "x INTEGER, y BOOLEAN OPTIONAL"),
    ("SEQUENCE { x INTEGER, ..., z IA5String, w NULL OPTIONAL }", "x INTEGER"),
    ("SEQUENCE { x INTEGER, ..., [[ z IA5String, w NULL OPTIONAL ]] }", "x INTEGER"),
    ("SEQUENCE { x SEQUENCE OF INTEGER, y CHOICE { p NULL, q BOOLEAN }, ..., z IA5String }", "x SEQUENCE OF INTEGER, y CHOICE { p NULL, q BOOLEAN }"),
    ("SET { x INTEGER, y BOOLEAN OPTIONAL }", "x INTEGER, y BOOLEAN OPTIONAL"),
    ("SET { x INTEGER, y BOOLEAN DEFAULT TRUE, ..., z IA5String }", "x INTEGER, y BOOLEAN DEFAULT TRUE"),
];

fn compof_texts(base: usize, lead: bool, own_marker: bool) -> (String, String) {
    let (b, root) = COMPOF_BASES[base % COMPOF_BASES.len()];
    let kw = if b.starts_with("SET") { "SET" } else { "SEQUENCE" };
    let head = "Cof-Mod DEFINITIONS AUTOMATIC TAGS ::= BEGIN\n";
    let l = if lead { "lead NULL, " } else { "" };
    let m = if own_marker { ", ..." } else { "" };
    (
        format!("{head}Zb-Base ::= {b}\nInst ::= {kw} {{ {l}COMPONENTS OF Zb-Base{m} }}\nEND\n"),
        format!("{head}Zb-Base ::= {b}\nInst ::= {kw} {{ {l}{root}{m} }}\nEND\n"),
    )
}

fn compof_eval(base: usize, lead: bool, own_marker: bool) -> Result<Option<String>, String> {
    let (sugared, expanded) = compof_texts(base, lead, own_marker);
    let decl = |text: &str| -> Result<String, String> {
        match comp::compile_ts(&[text.to_string()]) {
            Outcome::Ok(c) if c.warnings.is_empty() => {
                let nss = crate::tsparse::parse(&c.generated)?;
                let ns = nss.first().ok_or("no namespace")?;
                let m = crate::tsparse::decl_map(ns);
                Ok(format!("{:?}", m.get("Inst").ok_or("no declaration of Inst")?))
            }
            Outcome::Ok(c) => Err(format!("warnings: {}", c.warnings[0])),
            Outcome::Err(e) => Err(e),
            Outcome::Panic(p) => Err(format!("panic: {p}")),
        }
    };
    let want = decl(&expanded)?;
    match decl(&sugared) {
        Ok(got) if got == want => Ok(None),
        Ok(got) => Ok(Some(format!("the including type is declared as {got}, the same type written out as {want}"))),
        Err(e) => Ok(Some(format!("the type written out is declared as {want}, the including type: {e}"))),
    }
}

fn compof_leg(ctx: &mut Ctx) {
    let mut reported = 0;
    for base in 0..COMPOF_BASES.len() {
        for lead in [false, true] {
            for own_marker in [false, true] {
                match compof_eval(base, lead, own_marker) {
                    Err(_) => ctx.class("compof:skipped (the written-out type is rejected)"),
                    Ok(res) => {
                        ctx.case(&format!("compof:{}", compof_texts(base, lead, own_marker).0), true);
                        ctx.class("leg:components-of");
                        if let Some(d) = res {
                            ctx.class("fails:compof");
                            if reported < 3 {
                                reported += 1;
                                ctx.fail(crate::ev::Failure { finding: None, what: format!("COMPONENTS OF: {d}"), replay: json!({"kind": "c18-compof", "base": base, "lead": lead, "own_marker": own_marker, "sources": [{"name": "cof.asn", "text": compof_texts(base, lead, own_marker).0}]}) });
                            }
                        }
                    }
                }
            }
        }
    }
}

fn param_leg(ctx: &mut Ctx) {
    let mut reported = 0;
    for body in 0..PARAM_BODIES.len() {
        for a in 0..PARAM_ARGS.len() {
            for b in 0..PARAM_ARGS.len() {
                match param_eval(body, a, b) {
                    Err(_) => ctx.class("param:skipped (the written-out type is rejected)"),
                    Ok(res) => {
                        ctx.case(&format!("param:{}", param_texts(body, a, b).0), true);
                        ctx.class("leg:instance-of-a-parameterized-type");
                        if let Some(d) = res {
                            ctx.class("fails:param");
                            if reported < 3 {
                                reported += 1;
                                ctx.fail(crate::ev::Failure { finding: None, what: format!("instance of a parameterized type: {d}"), replay: json!({"kind": "c18-param", "body": body, "a": a, "b": b, "sources": [{"name": "par.asn", "text": param_texts(body, a, b).0}]}) });
                            }
                        }
                    }
                }
            }
        }
    }
}

pub fn run(tier: Tier, seed: u64, replay: Option<String>) -> i32 {
    let mut ctx = Ctx::new("C18", tier, seed);
    ctx.rule = "module sets from the §3 generator (same generator as C01/C02, all features) compiled with the TypeScript backend; oracle: delimiter balance, \
                the harness's structural TS declaration parser, one namespace per module, exactly one exported declaration per type assignment under its \
                hyphen-mangled name, JER shape (object members in order with `?` for OPTIONAL/DEFAULT, index signature for extensible SEQUENCE/SET, arrays, \
                string-valued enum members with the original names, unions of single-key objects for CHOICE, nested anonymous types inline), every type name \
                declared / imported / primitive; non-trivial = a constructed type with >=2 members and a reference; distinct by input text"
        .into();
    ctx.assumptions = vec![
        "leaf primitive spellings (number/string/..) are not asserted".into(),
        "EXTENSIBILITY IMPLIED makes every SEQUENCE / SET extensible (X.680 13.4): a missing index signature there is the listed finding F-ts-ext-implied".into(),
        "members of a [[ ]] group are members of the enclosing object in JER (X.697: version brackets have no effect on the encoding)".into(),
    ];
    let e = |m: &ModuleSet| eval(m);
    let run = GenericRun { gcfg: gen_cfg(), n: tier.pick(30000, 300000), stream_len: 4000, salt: 18, shrink_budget: 300, max_violations: 3, eval: &e };
    if let Some(p) = &replay {
        let v: serde_json::Value = serde_json::from_str(&std::fs::read_to_string(p).unwrap_or_default()).unwrap_or_default();
        if v["kind"] == "c18-compof" {
            let (b, l, m) = (v["base"].as_u64().unwrap_or(0) as usize, v["lead"].as_bool().unwrap_or(false), v["own_marker"].as_bool().unwrap_or(false));
            ctx.case(&compof_texts(b, l, m).0, true);
            match compof_eval(b, l, m) {
                Ok(Some(d)) => {
                    ctx.fail(crate::ev::Failure { finding: None, what: format!("COMPONENTS OF: {d}"), replay: v.clone() });
                }
                Ok(None) => {}
                Err(e) => ctx.inconclusive.push(e),
            }
            return ctx.finish();
        }
        if v["kind"] == "c18-param" {
            let g = |k: &str| v[k].as_u64().unwrap_or(0) as usize;
            ctx.case(&param_texts(g("body"), g("a"), g("b")).0, true);
            match param_eval(g("body"), g("a"), g("b")) {
                Ok(Some(d)) => {
                    ctx.fail(crate::ev::Failure { finding: None, what: format!("instance of a parameterized type: {d}"), replay: v.clone() });
                }
                Ok(None) => {}
                Err(e) => ctx.inconclusive.push(e),
            }
            return ctx.finish();
        }
    }
    if let Some(p) = replay {
        let r = replay_generic(&mut ctx, &run, "c18", &p);
        let code = ctx.finish();
        return if r == 2 { 2 } else { code };
    }
    // a fifth of the cases with extension groups (finding F-ts-group is re-confirmed there); the
    // rest without, so that the finding does not mask other discrepancies of the same module set
    let with_groups = GenericRun { n: run.n / 5, ..run };
    run_generic(&mut ctx, &with_groups, "c18");
    let without = GenericRun { gcfg: GenCfg { groups: false, ..gen_cfg() }, n: run.n - run.n / 5, stream_len: 4000, salt: 1018, shrink_budget: 300, max_violations: 3, eval: &e };
    ctx.class_n("excluded_by_finding[F-ts-group]:cases_generated_without_groups", without.n as u64);
    run_generic_no_replay(&mut ctx, &without, "c18");
    param_leg(&mut ctx);
    compof_leg(&mut ctx);
    ctx.finish()
}
