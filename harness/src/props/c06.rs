//! C06 — the chosen Rust integer type can hold every permitted value.
use crate::comp::{self, Cfg, Outcome};
use crate::ev::{Ctx, Driver, Failure, Tier};
use crate::proj::{self, RItem, RModule};
use crate::rcon::{IntSet, Iv};
use crate::src::Src;
use rayon::prelude::*;
use serde_json::{json, Value};

#[derive(Clone, Copy, Debug, PartialEq, Eq, Hash, serde::Serialize, serde::Deserialize)]
pub enum Pos {
    Assignment,
    Component,
    Element,
    /// `R ::= Unc (lo..hi)` on an unconstrained INTEGER parent
    RefUnconstrained,
    /// `R ::= Wide (lo..hi)` on a wider constrained parent (only when it fits)
    RefWide,
    /// `v T ::= x` with T the assignment type
    Value,
    /// `f INTEGER (lo..hi) DEFAULT x`
    Default,
    /// `s INTEGER (lo..lo) ::= lo` and `v SEQUENCE OF INTEGER (lo..hi) ::= { s, x }`: the element
    /// type of the constant must not be taken from its first (narrower) item; two spellings of
    /// the constant's name, sorting before and after `s`
    SeqOfValue,
    /// `T ::= Bounded {lo, hi}` with `Bounded {INTEGER:plo, INTEGER:phi} ::= INTEGER (plo..phi)`,
    /// next to module-level values that are spelled like the dummy references (`plo INTEGER ::= 3`)
    ParamInstance,
    /// the same as a SEQUENCE component
    ParamComponent,
    /// `T ::= INTEGER (vlo..vhi)` with the bounds given by value references, next to an
    /// ENUMERATED and an INTEGER with named numbers that use the same identifiers
    ValueRefBound,
    /// the same as a SEQUENCE component
    ValueRefComponent,
    /// `f INTEGER { nn(x) } (lo..hi) DEFAULT nn` next to a value assignment `nn INTEGER ::= <far
    /// outside lo..hi>`: inside the value notation of the type the named number wins (X.680 19.13)
    NamedDefault,
    /// `v INTEGER { nn(x) } (lo..hi) ::= nn` next to the same value assignment
    NamedValue,
    /// union / serial combination (random)
    Combo,
    /// the same as a SEQUENCE component (a different width-selection routine)
    ComboComponent,
    /// ... and as a SEQUENCE OF element
    ComboElement,
}

#[derive(Clone, Debug, PartialEq, Eq, Hash, serde::Serialize, serde::Deserialize)]
pub struct Case {
    pub pos: Pos,
    /// None = MIN / MAX
    pub lo: Option<i128>,
    pub hi: Option<i128>,
    pub ext: bool,
    /// value for Value/Default positions
    pub x: Option<i128>,
    /// Combo: constraint text and its permitted set
    /// (text, permitted root set, marker on the last constraint, cap = intersection of the
    /// constraints without a marker: extension values of a serially constrained type stay
    /// inside it)
    pub combo: Option<(String, Vec<(Option<i128>, Option<i128>)>, bool, Vec<(Option<i128>, Option<i128>)>)>,
}

pub fn boundary_set() -> Vec<i128> {
    let mut v = vec![0i128, 1, -1];
    for k in [7u32, 8, 15, 16, 31, 32, 63, 64] {
        let p = 1i128 << k;
        v.extend([p, p + 1, p - 1, -p, -p + 1, -p - 1]);
    }
    v.sort();
    v.dedup();
    v
}

fn range_of(t: &str) -> Option<(i128, i128)> {
    Some(match t {
        "u8" => (0, u8::MAX as i128),
        "u16" => (0, u16::MAX as i128),
        "u32" => (0, u32::MAX as i128),
        "u64" => (0, u64::MAX as i128),
        "i8" => (i8::MIN as i128, i8::MAX as i128),
        "i16" => (i16::MIN as i128, i16::MAX as i128),
        "i32" => (i32::MIN as i128, i32::MAX as i128),
        "i64" => (i64::MIN as i128, i64::MAX as i128),
        _ => return None,
    })
}

fn b(x: Option<i128>, lo: bool) -> String {
    match x {
        Some(v) => v.to_string(),
        None => if lo { "MIN".into() } else { "MAX".into() },
    }
}

fn con_text(c: &Case) -> String {
    if let Some((t, _, _, _)) = &c.combo {
        return t.clone();
    }
    let inner = if c.lo.is_some() && c.lo == c.hi {
        b(c.lo, true)
    } else {
        format!("{}..{}", b(c.lo, true), b(c.hi, false))
    };
    format!("({inner}{})", if c.ext { ", ..." } else { "" })
}

const WIDE: i128 = 1i128 << 70;

fn case_text(i: usize, c: &Case) -> String {
    let k = con_text(c);
    match c.pos {
        Pos::Assignment | Pos::Combo => format!("T{i} ::= INTEGER {k}"),
        Pos::Component | Pos::ComboComponent => format!("T{i} ::= SEQUENCE {{ f INTEGER {k} }}"),
        Pos::Element | Pos::ComboElement => format!("T{i} ::= SEQUENCE OF INTEGER {k}"),
        Pos::RefUnconstrained => format!("T{i} ::= Unc {k}"),
        Pos::RefWide => format!("T{i} ::= Wide {k}"),
        Pos::ValueRefBound | Pos::ValueRefComponent => {
            let (lo, hi) = (c.lo.unwrap(), c.hi.unwrap());
            let ty = format!("INTEGER (vlo{i}..vhi{i})");
            format!(
                "vlo{i} INTEGER ::= {lo}\nvhi{i} INTEGER ::= {hi}\nAa-Decoy{i} ::= ENUMERATED {{ vlo{i}, vhi{i} }}\nZz-Decoy{i} ::= INTEGER {{ vhi{i}(3), vlo{i}(2) }}\n{}",
                if c.pos == Pos::ValueRefBound { format!("T{i} ::= {ty}") } else { format!("T{i} ::= SEQUENCE {{ f {ty} }}") }
            )
        }
        Pos::ParamInstance => format!("T{i} ::= Bounded {{ {}, {} }}", c.lo.unwrap(), c.hi.unwrap()),
        Pos::ParamComponent => format!("T{i} ::= SEQUENCE {{ f Bounded {{ {}, {} }} }}", c.lo.unwrap(), c.hi.unwrap()),
        Pos::Value => format!("T{i} ::= INTEGER {k}\nv{i} T{i} ::= {}", c.x.unwrap()),
        Pos::Default => format!("T{i} ::= SEQUENCE {{ f INTEGER {k} DEFAULT {} }}", c.x.unwrap()),
        Pos::NamedDefault | Pos::NamedValue => {
            let x = c.x.unwrap();
            let decoy = match (c.lo, c.hi) {
                (_, Some(h)) => h + 1000,
                (Some(l), None) => l - 1000,
                (None, None) => x + 1000,
            };
            let ty = format!("INTEGER {{ nn{i}({x}), other{i}(0) }} {k}");
            if c.pos == Pos::NamedDefault {
                format!("nn{i} INTEGER ::= {decoy}\nT{i} ::= SEQUENCE {{ f {ty} DEFAULT nn{i} }}")
            } else {
                format!("nn{i} INTEGER ::= {decoy}\nT{i} ::= NULL\nv{i} {ty} ::= nn{i}")
            }
        }
        Pos::SeqOfValue => {
            let lo = c.lo.unwrap();
            format!("T{i} ::= NULL\nm-first{i} INTEGER ({lo}..{lo}) ::= {lo}\na-list{i} SEQUENCE OF INTEGER {k} ::= {{ m-first{i}, {x} }}\nz-list{i} SEQUENCE OF INTEGER {k} ::= {{ m-first{i}, {x} }}\np-list{i} SEQUENCE OF INTEGER {k} ::= {{ {lo}, {x} }}", x = c.x.unwrap())
        }
    }
}

fn module_text(cases: &[Case]) -> String {
    let mut s = format!("Int-Mod DEFINITIONS AUTOMATIC TAGS ::= BEGIN\nUnc ::= INTEGER\nWide ::= INTEGER (-{WIDE}..{WIDE})\nMid ::= INTEGER (0..300)\nBounded {{INTEGER:plo, INTEGER:phi}} ::= INTEGER (plo..phi)\nplo INTEGER ::= 3\nphi INTEGER ::= 4\n");
    for (i, c) in cases.iter().enumerate() {
        s.push_str(&case_text(i, c));
        s.push('\n');
    }
    s.push_str("END\n");
    s
}

/// the integer token a named newtype finally wraps (through delegate newtypes)
fn payload_int(m: &RModule, name: &str, depth: usize) -> Option<String> {
    if depth > 8 {
        return None;
    }
    if name == "Integer" || range_of(name).is_some() {
        return Some(name.to_string());
    }
    let s = m.find_struct(name)?;
    if s.named || s.fields.len() != 1 {
        return None;
    }
    payload_int(m, &s.fields[0].ty, depth + 1)
}

fn int_literals(init: &str) -> Vec<(i128, Option<String>)> {
    // tokens like `- 5`, `5i128`, `300`
    let toks: Vec<&str> = init.split_whitespace().collect();
    let mut out = vec![];
    let mut i = 0;
    while i < toks.len() {
        let t = toks[i].trim_matches(|c| c == '(' || c == ')' || c == ',' || c == '[' || c == ']');
        let neg = i > 0 && toks[i - 1].ends_with('-');
        let digits: String = t.chars().take_while(|c| c.is_ascii_digit()).collect();
        if !digits.is_empty() && t.starts_with(|c: char| c.is_ascii_digit()) {
            let suffix: String = t.chars().skip(digits.len()).take_while(|c| c.is_ascii_alphanumeric()).collect();
            if let Ok(v) = digits.parse::<i128>() {
                out.push((if neg { -v } else { v }, if suffix.is_empty() { None } else { Some(suffix) }));
            }
        }
        i += 1;
    }
    out
}

struct Obs {
    /// (what, integer type token)
    types: Vec<(String, String)>,
    /// (what, declared integer type, literal)
    literals: Vec<(String, String, i128)>,
}

fn observe(m: &RModule, i: usize, c: &Case) -> Result<Obs, String> {
    let t = format!("T{i}");
    let mut o = Obs { types: vec![], literals: vec![] };
    match c.pos {
        Pos::Assignment | Pos::Combo | Pos::Value | Pos::RefUnconstrained | Pos::RefWide | Pos::ParamInstance | Pos::ValueRefBound => {
            let tok = payload_int(m, &t, 0).ok_or_else(|| format!("{t}: no integer payload"))?;
            o.types.push((format!("{t} payload"), tok.clone()));
            if c.pos == Pos::Value {
                let k = m
                    .find_const(&format!("V{i}"))
                    .ok_or_else(|| format!("constant V{i} missing"))?;
                let decl = payload_int(m, &k.ty, 0).ok_or_else(|| format!("V{i}: type {} has no integer payload", k.ty))?;
                o.types.push((format!("V{i} type"), decl.clone()));
                for (v, suffix) in int_literals(&k.init) {
                    let declared = match suffix {
                        Some(s) if s == "i128" => "Integer".to_string(),
                        Some(s) => s,
                        None => decl.clone(),
                    };
                    o.literals.push((format!("V{i} = {}", k.init), declared, v));
                }
            }
        }
        Pos::NamedValue => {
            let k = m.find_const(&format!("V{i}")).ok_or_else(|| format!("constant V{i} missing"))?;
            let decl = payload_int(m, &k.ty, 0).ok_or_else(|| format!("V{i}: type {} has no integer payload", k.ty))?;
            o.types.push((format!("V{i} type"), decl.clone()));
            for (v, suffix) in int_literals(&k.init) {
                let declared = match suffix {
                    Some(s) if s == "i128" => "Integer".to_string(),
                    Some(s) => s,
                    None => decl.clone(),
                };
                o.literals.push((format!("V{i} = {}", k.init), declared, v));
            }
        }
        Pos::Component | Pos::Default | Pos::NamedDefault | Pos::ComboComponent | Pos::ParamComponent | Pos::ValueRefComponent => {
            let s = m.find_struct(&t).ok_or_else(|| format!("{t} missing"))?;
            let f = s.fields.first().ok_or("no field")?;
            let ty = f.ty.trim_start_matches("Option<").trim_end_matches('>').to_string();
            o.types.push((format!("{t}.f"), ty.clone()));
            if c.pos == Pos::Default || c.pos == Pos::NamedDefault {
                let fname = f.attrs.default.clone().ok_or("no default fn")?;
                let func = m.find_fn(&fname).ok_or("default fn missing")?;
                o.types.push((format!("{fname} return"), func.ret.clone()));
                for (v, suffix) in int_literals(&func.body) {
                    let declared = match suffix {
                        Some(s) if s == "i128" => "Integer".to_string(),
                        Some(s) => s,
                        None => func.ret.clone(),
                    };
                    o.literals.push((format!("{fname}() {{ {} }}", func.body), declared, v));
                }
            }
        }
        Pos::SeqOfValue => {
            for name in [format!("A_LIST{i}"), format!("Z_LIST{i}"), format!("P_LIST{i}")] {
                let k = m.find_const(&name).ok_or_else(|| format!("constant {name} missing"))?;
                let inner = k.ty.trim_start_matches("Vec<").trim_start_matches("SequenceOf<").trim_end_matches('>').to_string();
                let decl = payload_int(m, &inner, 0).ok_or_else(|| format!("{name}: type {} has no integer element", k.ty))?;
                o.types.push((format!("{name} element type"), decl.clone()));
                for (v, suffix) in int_literals(&k.init) {
                    let declared = match suffix {
                        Some(s) if s == "i128" => "Integer".to_string(),
                        Some(s) => s,
                        None => decl.clone(),
                    };
                    o.literals.push((format!("{name} = {}", k.init), declared, v));
                }
            }
        }
        Pos::Element | Pos::ComboElement => {
            let tok = payload_int(m, &format!("Anonymous{t}"), 0).ok_or_else(|| format!("Anonymous{t}: no integer payload"))?;
            o.types.push((format!("Anonymous{t} payload"), tok));
        }
    }
    Ok(o)
}

/// (set every value of which must be representable, fixed width forbidden outright)
fn permitted(c: &Case) -> (IntSet, bool) {
    let mk = |ivs: &Vec<(Option<i128>, Option<i128>)>| IntSet(ivs.iter().map(|(l, h)| Iv { lo: *l, hi: *h }).collect());
    match &c.combo {
        // serial constraints: with a marker on the last constraint the extension values are
        // capped by the non-extensible constraints before it (X.680: a subtype cannot add
        // values to its parent); a marker on an inner constraint only is not inherited
        Some((_, ivs, ext_last, cap)) => {
            if *ext_last {
                (mk(cap), false)
            } else {
                (mk(ivs), false)
            }
        }
        None => (IntSet::range(c.lo, c.hi), c.ext),
    }
}

fn judge(c: &Case, o: &Obs) -> Option<(&'static str, String)> {
    let (set, ext) = permitted(c);
    for (what, tok) in &o.types {
        if tok == "Integer" {
            continue;
        }
        let Some((tl, th)) = range_of(tok) else {
            return Some(("type", format!("{what}: `{tok}` is not an integer type of the statement")));
        };
        if ext {
            return Some(("fixed-width", format!("{what}: fixed-width `{tok}` for an extensible constraint")));
        }
        let hull = set.hull().unwrap();
        let (Some(lo), Some(hi)) = (hull.lo, hull.hi) else {
            return Some(("fixed-width", format!("{what}: fixed-width `{tok}` although a bound is infinite")));
        };
        if lo < tl || hi > th {
            return Some(("holds", format!("{what}: `{tok}` cannot hold {lo}..{hi}")));
        }
    }
    for (what, declared, v) in &o.literals {
        if declared == "Integer" {
            continue;
        }
        match range_of(declared) {
            Some((tl, th)) => {
                if *v < tl || *v > th {
                    return Some(("literal", format!("{what}: literal {v} does not fit `{declared}`")));
                }
            }
            None => return Some(("literal", format!("{what}: literal {v} declared as `{declared}`"))),
        }
    }
    None
}

fn nontrivial(c: &Case) -> bool {
    let near = |x: Option<i128>| match x {
        None => false,
        Some(v) => [7u32, 8, 15, 16, 31, 32, 63, 64].iter().any(|k| {
            let p = 1i128 << k;
            (v.abs() - p).abs() <= 1
        }),
    };
    near(c.lo) || near(c.hi) || c.ext || c.combo.is_some()
}

fn run_cases(ctx: &mut Ctx, cases: Vec<Case>) {
    let chunks: Vec<&[Case]> = cases.chunks(400).collect();
    type R = Vec<(Case, String, Result<Obs, String>)>;
    let results: Vec<Result<R, (String, String)>> = chunks
        .par_iter()
        .map(|ch| {
            let text = module_text(ch);
            let c = match comp::compile_rasn1(&text, &Cfg::default()) {
                Outcome::Ok(c) => c,
                Outcome::Err(e) => return Err((text, format!("Err: {e}"))),
                Outcome::Panic(p) => return Err((text, format!("panic: {p}"))),
            };
            let mods = proj::project(&c.generated).map_err(|e| (text.clone(), e))?;
            let m = mods.first().ok_or((text.clone(), "no module".to_string()))?;
            Ok(ch
                .iter()
                .enumerate()
                .map(|(i, case)| {
                    let line = case_text(i, case);
                    let present = m.items.iter().any(|it| matches!(it, RItem::Struct(s) if s.name == format!("T{i}")));
                    let r = if !present { Err("not-generated".into()) } else { observe(m, i, case) };
                    (case.clone(), line, r)
                })
                .collect())
        })
        .collect();
    for res in results {
        match res {
            Err((text, e)) => {
                ctx.case(&text, true);
                ctx.fail(Failure {
                    finding: None,
                    what: format!("module of valid INTEGER types did not compile: {e}"),
                    replay: json!({"kind": "c06-module", "sources": [{"name": "int.asn", "text": text}], "observed": e}),
                });
            }
            Ok(v) => {
                for (case, line, r) in v {
                    match r {
                        Err(w) if w == "not-generated" => ctx.class("skipped:not-generated"),
                        Err(w) if w.contains("constant V") => ctx.class("skipped:constant-not-generated"),
                        Err(w) => {
                            ctx.case(&line, nontrivial(&case));
                            if ctx.violations.len() < 4 {
                                ctx.fail(Failure { finding: None, what: format!("cannot observe {line}: {w}"), replay: payload(&case, &line, &w) });
                            }
                        }
                        Ok(o) => {
                            ctx.case(&line, nontrivial(&case));
                            ctx.class(&format!("pos:{:?}", case.pos));
                            if case.combo.as_ref().map_or(false, |k| k.0.contains("((")) {
                                ctx.class("combo:parenthesised-element-set");
                            }
                            if case.combo.as_ref().map_or(false, |k| k.0.contains("Wide") || k.0.contains("Mid")) {
                                ctx.class("combo:contained-subtype-operand");
                            }
                            for (_, t) in &o.types {
                                ctx.class(&format!("type:{t}"));
                            }
                            if let Some((clause, detail)) = judge(&case, &o) {
                                ctx.class(&format!("fails:{clause}"));
                                if ctx.violations.len() < 4 {
                                    ctx.fail(Failure { finding: None, what: format!("{clause}: {line}: {detail}"), replay: payload(&case, &line, &detail) });
                                }
                            }
                        }
                    }
                }
            }
        }
    }
}

fn payload(c: &Case, line: &str, observed: &str) -> Value {
    json!({"kind": "c06", "case_json": serde_json::to_string(c).unwrap_or_default(), "sources": [{"name": "int.asn", "text": module_text(std::slice::from_ref(c))}], "line": line, "observed": observed})
}

fn combo_case(src: &mut Src, bs: &[i128]) -> Case {
    // pure unions / pure intersections / serial constraints (no operator mixing, so that the
    // grouping finding of C04 cannot colour this check)
    let pick = |src: &mut Src| -> (Option<i128>, Option<i128>) {
        let a = bs[src.pick(bs.len())];
        let c = bs[src.pick(bs.len())];
        let (l, h) = if a <= c { (a, c) } else { (c, a) };
        match src.weighted(&[6, 1, 1, 4]) {
            0 => (Some(l), Some(h)),
            1 => (None, Some(h)),
            2 => (Some(l), None),
            // a single value (written `a`, in whatever order the draws come)
            _ => (Some(a), Some(a)),
        }
    };
    let nser = 1 + src.pick(3);
    let mut text = String::new();
    let mut set = IntSet::all();
    let mut cap = IntSet::all();
    let mut ext = false;
    for _ in 0..nser {
        let n = 1 + src.pick(3);
        let union = src.chance(50);
        // an operand is a range / single value or, now and then, a contained subtype (the
        // values of another constrained INTEGER type, X.680 51.3)
        let parts: Vec<(String, IntSet)> = (0..n)
            .map(|_| {
                if src.chance(15) {
                    match src.pick(3) {
                        0 => ("Wide".to_string(), IntSet::range(Some(-WIDE), Some(WIDE))),
                        1 => ("INCLUDES Mid".to_string(), IntSet::range(Some(0), Some(300))),
                        _ => ("Mid".to_string(), IntSet::range(Some(0), Some(300))),
                    }
                } else {
                    let (l, h) = pick(src);
                    (if l.is_some() && l == h { b(l, true) } else { format!("{}..{}", b(l, true), b(h, false)) }, IntSet::range(l, h))
                }
            })
            .collect();
        let mut cur = if union { IntSet::empty() } else { IntSet::all() };
        for (_, s) in &parts {
            cur = if union { cur.union(s) } else { cur.intersect(s) };
        }
        let e = src.chance(20);
        // an element may be written in parentheses, and so may the whole element set
        // (X.680 50.5: Elements ::= ... | "(" ElementSetSpec ")"): the meaning stays the same
        let wrap_all = n == 1 && src.chance(25);
        let strs: Vec<String> = parts.iter().map(|(t, _)| if !wrap_all && src.chance(10) && !t.starts_with("INCLUDES") { format!("({t})") } else { t.clone() }).collect();
        // (a parenthesised set of several operands, `((a | b), ...)`, is a syntax error for the pinned lexer: reported, so outside this check)
        let joined = strs.join(if union { " | " } else { " ^ " });
        let joined = if wrap_all { format!("({joined})") } else { joined };
        text.push_str(&format!("({joined}{})", if e { ", ..." } else { "" }));
        set = set.intersect(&cur);
        if !e {
            cap = cap.intersect(&cur);
        }
        ext = e;
    }
    Case {
        pos: [Pos::Combo, Pos::ComboComponent, Pos::ComboElement][src.pick(3)],
        lo: None,
        hi: None,
        ext,
        x: None,
        combo: Some((text, set.0.iter().map(|i| (i.lo, i.hi)).collect(), ext, cap.0.iter().map(|i| (i.lo, i.hi)).collect())),
    }
}


/// ranges with open ends (X.680 51.4.2: `lo<..hi`, `lo..<hi`, `lo<..<hi`): the permitted set
/// loses the end itself. The spellings the compiler rejects are counted, not judged.
fn open_range_leg(ctx: &mut Ctx) {
    let bs = boundary_set();
    let mut upper_open = vec![];
    let mut others = vec![];
    for (k, &lo) in bs.iter().enumerate() {
        for &hi in bs.iter().skip(k) {
            if hi - lo < 3 || lo < -(1i128 << 100) || hi > (1i128 << 100) {
                continue;
            }
            for (form, plo, phi) in [(1u8, lo, hi - 1), (2, lo + 1, hi), (3, lo + 1, hi - 1)] {
                let text = match form {
                    1 => format!("({lo}..<{hi})"),
                    2 => format!("({lo}<..{hi})"),
                    _ => format!("({lo}<..<{hi})"),
                };
                let iv = vec![(Some(plo), Some(phi))];
                for pos in [Pos::Combo, Pos::ComboComponent, Pos::ComboElement] {
                    let c = Case { pos, lo: None, hi: None, ext: false, x: None, combo: Some((text.clone(), iv.clone(), false, iv.clone())) };
                    if form == 1 { upper_open.push(c) } else { others.push(c) }
                }
            }
        }
    }
    ctx.class_n("leg:open-range-ends (upper end open)", upper_open.len() as u64);
    run_cases(ctx, upper_open);
    // one probe decides whether the lower-open spelling is accepted at all
    let probe = module_text(&others[..1]);
    if matches!(comp::compile_rasn1(&probe, &Cfg::default()), Outcome::Ok(_)) {
        ctx.class_n("leg:open-range-ends (lower end open)", others.len() as u64);
        run_cases(ctx, others);
    } else {
        ctx.class_n("open-range-ends:lower-open spelling rejected by the compiler (not judged)", others.len() as u64);
    }
}

pub fn run(tier: Tier, seed: u64, replay: Option<String>) -> i32 {
    let mut ctx = Ctx::new("C06", tier, seed);
    ctx.rule = "exhaustive over all (lower, upper) pairs of the 53-point boundary set {MIN, MAX, 0, +-1, +-2^k, +-2^k+-1 : k in 7,8,15,16,31,32,63,64}, \
                with and without an extension marker, as type assignment, SEQUENCE component, SEQUENCE OF element (quick: every pair in the first two \
                positions, every 3rd elsewhere; thorough: everything), constrained references on an unconstrained and a wider parent, value \
                assignments and DEFAULTs for x in {lower, upper, midpoint}; plus random pure-union / pure-intersection / serial combinations; \
                oracle: the integer token read with syn must hold the permitted set, be fixed-width only for finite non-extensible constraints, and every \
                emitted literal must fit its declared type; non-trivial = a bound within +-1 of a width boundary, or a marker, or a combination"
        .into();
    ctx.assumptions = vec!["with an extension marker every integer is a permitted (extension) value, so only Integer can hold them".into()];
    if let Some(path) = replay {
        let v: Value = serde_json::from_str(&std::fs::read_to_string(&path).expect("replay")).expect("json");
        let c: Case = case_from(&v).expect("case");
        run_cases(&mut ctx, vec![c]);
        return ctx.finish();
    }
    let mut replays = vec![];
    for (_p, v) in crate::ev::replay_files("C06") {
        if let Some(c) = case_from(&v) {
            replays.push(c);
        }
    }
    run_cases(&mut ctx, replays);
    let bs = boundary_set();
    let mut los: Vec<Option<i128>> = vec![None];
    los.extend(bs.iter().map(|v| Some(*v)));
    let mut his: Vec<Option<i128>> = bs.iter().map(|v| Some(*v)).collect();
    his.push(None);
    let mut cases = vec![];
    let mut pair_idx = 0usize;
    for lo in &los {
        for hi in &his {
            if let (Some(l), Some(h)) = (lo, hi) {
                if l > h {
                    continue;
                }
            }
            pair_idx += 1;
            for ext in [false, true] {
                let base = Case { pos: Pos::Assignment, lo: *lo, hi: *hi, ext, x: None, combo: None };
                cases.push(base.clone());
                cases.push(Case { pos: Pos::Component, ..base.clone() });
                let sampled = tier == Tier::Thorough || pair_idx % 3 == 0;
                if sampled {
                    cases.push(Case { pos: Pos::Element, ..base.clone() });
                    cases.push(Case { pos: Pos::RefUnconstrained, ..base.clone() });
                    let fits_wide = lo.map_or(false, |l| l >= -WIDE) && hi.map_or(false, |h| h <= WIDE);
                    if fits_wide {
                        cases.push(Case { pos: Pos::RefWide, ..base.clone() });
                    }
                    if !ext && lo.is_some() && hi.is_some() {
                        cases.push(Case { pos: Pos::ParamInstance, ..base.clone() });
                        cases.push(Case { pos: Pos::ValueRefBound, ..base.clone() });
                        cases.push(Case { pos: Pos::ValueRefComponent, ..base.clone() });
                        cases.push(Case { pos: Pos::ParamComponent, ..base.clone() });
                    }
                    // values: lower, upper, midpoint (finite ones)
                    let mut xs = vec![];
                    if let Some(l) = lo {
                        xs.push(*l);
                    }
                    if let Some(h) = hi {
                        xs.push(*h);
                    }
                    match (lo, hi) {
                        (Some(l), Some(h)) => xs.push(l + (h - l) / 2),
                        (None, Some(h)) => xs.push(h - 1000),
                        (Some(l), None) => xs.push(l + 1000),
                        (None, None) => xs.push(0),
                    }
                    xs.dedup();
                    for x in xs {
                        cases.push(Case { pos: Pos::Value, x: Some(x), ..base.clone() });
                        cases.push(Case { pos: Pos::Default, x: Some(x), ..base.clone() });
                        if pair_idx % 2 == 1 || tier == Tier::Thorough {
                            cases.push(Case { pos: Pos::NamedDefault, x: Some(x), ..base.clone() });
                            cases.push(Case { pos: Pos::NamedValue, x: Some(x), ..base.clone() });
                        }
                        if lo.is_some() && hi.is_some() && !ext && pair_idx % 2 == 0 {
                            cases.push(Case { pos: Pos::SeqOfValue, x: Some(x), ..base.clone() });
                        }
                    }
                }
            }
        }
    }
    ctx.extra.insert("pairs".into(), json!(pair_idx));
    ctx.extra.insert("exhaustive_cases".into(), json!(cases.len()));
    ctx.exhaustive = true;
    for c in cases.iter().step_by(cases.len() / 3 + 1).take(3) {
        ctx.sample(json!(case_text(0, c)));
    }
    run_cases(&mut ctx, cases);
    let n = tier.pick(60000, 600000);
    let mut drv = Driver::new(seed, 6, 60);
    let rnd: Vec<Case> = drv
        .draw(n)
        .iter()
        .map(|t| {
            let s = t.current();
            combo_case(&mut Src::new(&s), &bs)
        })
        .filter(|c| !permitted(c).0.is_empty() && c.combo.as_ref().map_or(true, |k| !k.1.is_empty()))
        .collect();
    ctx.sample(json!(case_text(0, &rnd[0])));
    ctx.extra.insert("random_combinations".into(), json!(rnd.len()));
    run_cases(&mut ctx, rnd);
    open_range_leg(&mut ctx);
    ctx.finish()
}

/// replay files carry the case either as a JSON object (hand-written) or as a JSON string
/// (written by the check: serde_json::Value cannot hold i128 numbers)
fn case_from(v: &Value) -> Option<Case> {
    if let Some(s) = v["case_json"].as_str() {
        return serde_json::from_str(s).ok();
    }
    serde_json::from_value(v["case"].clone()).ok()
}
