//! C05 — extension markers, additions and addition groups are preserved.
use crate::asn::*;
use crate::ev::{Ctx, Tier};
use crate::gen::GenCfg;
use crate::props::common::*;

pub fn gen_cfg() -> GenCfg {
    GenCfg {
        values: false,
        defaults: false,
        ext_pct: 75,
        max_comps: 5,
        ..GenCfg::default()
    }
}

// ---------------------------------------------------------------------------------------
// a component typed by a fixed-type class field (`id MY-CLASS.&id`) is resolved by the linker,
// which rebuilds the enclosing SEQUENCE / SET: the extension marker, the additions and the
// groups must come out of that exactly as for the same type written with the field's type

#[derive(Clone, Debug, serde::Serialize, serde::Deserialize)]
struct ClsCase {
    set: bool,
    /// number of root components in front of the marker (the class field is root component `field_at`, or addition `field_at - n_root`)
    n_root: usize,
    n_add: usize,
    /// group of two components after the k-th addition (SEQUENCE only), if any
    group_after: Option<usize>,
    field_at: usize,
    implied: bool,
}

fn cls_text(c: &ClsCase, with_field: bool) -> String {
    let fty = if with_field { "ZC-CLASS.&id" } else { "INTEGER" };
    let comp = |k: usize| -> String {
        if k == c.field_at {
            format!("f{k} {fty}")
        } else {
            format!("f{k} {}", ["BOOLEAN", "NULL", "OCTET STRING", "INTEGER"][k % 4])
        }
    };
    let mut parts: Vec<String> = (0..c.n_root).map(comp).collect();
    parts.push("...".into());
    for a in 0..c.n_add {
        parts.push(format!("{} OPTIONAL", comp(c.n_root + a)));
        if !c.set && c.group_after == Some(a) {
            parts.push(format!("[[ g{a}a BOOLEAN, g{a}b NULL OPTIONAL ]]"));
        }
    }
    format!("{} ::= {} {{ {} }}", if with_field { "With-Field" } else { "Plain" }, if c.set { "SET" } else { "SEQUENCE" }, parts.join(", "))
}

fn cls_module(c: &ClsCase) -> String {
    format!(
        "Cls-Mod DEFINITIONS AUTOMATIC TAGS{} ::= BEGIN\nZC-CLASS ::= CLASS {{ &id INTEGER UNIQUE, &Type }} WITH SYNTAX {{ ID &id TYPE &Type }}\n{}\n{}\nEND\n",
        if c.implied { " EXTENSIBILITY IMPLIED" } else { "" },
        cls_text(c, true),
        cls_text(c, false)
    )
}

fn cls_eval(c: &ClsCase) -> Result<Option<String>, String> {
    use crate::comp::{self, Cfg, Outcome};
    let out = match comp::compile_rasn1(&cls_module(c), &Cfg::default()) {
        Outcome::Ok(o) if o.warnings.is_empty() => o,
        Outcome::Ok(o) => return Err(format!("warnings: {}", o.warnings[0])),
        Outcome::Err(e) => return Err(e),
        Outcome::Panic(p) => return Err(format!("panic: {p}")),
    };
    let mods = crate::proj::project(&out.generated)?;
    let m = mods.first().ok_or("no module")?;
    let (Some(w), Some(p)) = (m.find_struct("WithField"), m.find_struct("Plain")) else { return Err("types not generated".into()) };
    if w.attrs.non_exhaustive != p.attrs.non_exhaustive {
        return Ok(Some(format!("With-Field: #[non_exhaustive] = {}, the same type with the field's type written out: {}", w.attrs.non_exhaustive, p.attrs.non_exhaustive)));
    }
    if w.fields.len() != p.fields.len() {
        return Ok(Some(format!("With-Field has {} members, the same type with the field's type written out has {}", w.fields.len(), p.fields.len())));
    }
    for (wf, pf) in w.fields.iter().zip(p.fields.iter()) {
        let marks = |f: &crate::proj::RField| {
            let mut v: Vec<&str> = ["extension_addition", "extension_addition_group"].into_iter().filter(|k| f.attrs.flags.contains(*k)).collect();
            if f.ty.starts_with("Option<") {
                v.push("Option");
            }
            v
        };
        if wf.name != pf.name || marks(wf) != marks(pf) {
            return Ok(Some(format!("member `{}` of With-Field is marked {:?}, member `{}` of the same type with the field's type written out {:?}", wf.name, marks(wf), pf.name, marks(pf))));
        }
    }
    Ok(None)
}

fn classfield_leg(ctx: &mut Ctx, tier: Tier, seed: u64) {
    use rayon::prelude::*;
    let mut cases: Vec<ClsCase> = vec![];
    for (_p, v) in crate::ev::replay_files("C05") {
        if v["kind"] == "c05-classfield" {
            if let Ok(c) = serde_json::from_value::<ClsCase>(v["case"].clone()) {
                cases.push(c);
            }
        }
    }
    // small enough to enumerate: root 1..3, additions 0..3, group position, field position, SEQUENCE/SET, IMPLIED
    for set in [false, true] {
        for n_root in 1..=3usize {
            for n_add in 0..=3usize {
                for g in 0..=n_add {
                    let group_after = if g < n_add && !set { Some(g) } else { None };
                    if set && g > 0 {
                        continue;
                    }
                    for field_at in 0..n_root + n_add {
                        for implied in [false, true] {
                            if implied && tier == Tier::Quick && (n_root + n_add + field_at) % 2 == 1 {
                                continue;
                            }
                            cases.push(ClsCase { set, n_root, n_add, group_after, field_at, implied });
                        }
                    }
                }
            }
        }
    }
    let _ = seed;
    let results: Vec<(ClsCase, Result<Option<String>, String>)> = cases.into_par_iter().map(|c| { let r = cls_eval(&c); (c, r) }).collect();
    let mut reported = 0;
    for (c, r) in results {
        match r {
            Err(_) => ctx.class("classfield:skipped (rejected / not generated)"),
            Ok(res) => {
                ctx.case(&format!("classfield:{}", cls_module(&c)), c.n_add > 0);
                ctx.class("leg:class-field-component-keeps-extension-marks");
                if let Some(d) = res {
                    ctx.class("fails:classfield");
                    if reported < 3 {
                        reported += 1;
                        ctx.fail(crate::ev::Failure { finding: None, what: format!("extension marks change when a component is typed by a class field: {d}"), replay: serde_json::json!({"kind": "c05-classfield", "case": c, "sources": [{"name": "cls.asn", "text": cls_module(&c)}], "observed": d}) });
                    }
                }
            }
        }
    }
}


// ---------------------------------------------------------------------------------------
// COMPONENTS OF (X.680 25.5): the including type takes the *root* components of the type it
// names and nothing else - not its extension marker, not its additions. The including type is
// extensible exactly when it has a marker of its own (or the module says IMPLIED).

#[derive(Clone, Debug, serde::Serialize, serde::Deserialize)]
struct CofCase {
    set: bool,
    /// base: 0 no marker, 1 marker last, 2 marker + one addition, 3 marker + addition + group (SEQUENCE) / two additions
    base: usize,
    own_marker: bool,
    implied: bool,
    /// COMPONENTS OF first (own component behind it) or last
    first: bool,
    /// the including type is an inline component of another type
    nested: bool,
    /// the including type sorts before the type it names
    before: bool,
}

fn cof_text(c: &CofCase) -> String {
    let kw = if c.set { "SET" } else { "SEQUENCE" };
    let base = match (c.base, c.set) {
        (0, _) => "r1 INTEGER, r2 BOOLEAN OPTIONAL",
        (1, _) => "r1 INTEGER, r2 BOOLEAN OPTIONAL, ...",
        (2, _) => "r1 INTEGER, r2 BOOLEAN OPTIONAL, ..., a1 NULL OPTIONAL",
        (_, false) => "r1 INTEGER, r2 BOOLEAN OPTIONAL, ..., a1 NULL OPTIONAL, [[ g1 BOOLEAN, g2 NULL OPTIONAL ]]",
        (_, true) => "r1 INTEGER, r2 BOOLEAN OPTIONAL, ..., a1 NULL OPTIONAL, a2 OCTET STRING OPTIONAL",
    };
    let marker = if c.own_marker { ", ..." } else { "" };
    let body = if c.first { format!("COMPONENTS OF Mm-Base, extra BOOLEAN{marker}") } else { format!("extra BOOLEAN, COMPONENTS OF Mm-Base{marker}") };
    let name = if c.before { "Aa-Derived" } else { "Zz-Derived" };
    let derived = if c.nested { format!("{name} ::= SEQUENCE {{ lead NULL, inner {kw} {{ {body} }} }}") } else { format!("{name} ::= {kw} {{ {body} }}") };
    format!("Cof-Mod DEFINITIONS AUTOMATIC TAGS{} ::= BEGIN\nMm-Base ::= {kw} {{ {base} }}\n{derived}\nEND\n", if c.implied { " EXTENSIBILITY IMPLIED" } else { "" })
}

fn cof_eval(c: &CofCase) -> Result<Option<String>, String> {
    use crate::comp::{self, Cfg, Outcome};
    let text = cof_text(c);
    let out = match comp::compile_rasn1(&text, &Cfg::default()) {
        Outcome::Ok(o) if o.warnings.is_empty() => o,
        Outcome::Ok(o) => return Err(format!("warnings: {}", o.warnings[0])),
        Outcome::Err(e) => return Err(e),
        Outcome::Panic(p) => return Err(format!("panic: {p}")),
    };
    let mods = crate::proj::project(&out.generated)?;
    let m = mods.first().ok_or("no module")?;
    let top = if c.before { "AaDerived" } else { "ZzDerived" };
    let sname = if c.nested { format!("{top}Inner") } else { top.to_string() };
    let Some(d) = m.find_struct(&sname) else { return Err(format!("{sname} not generated")) };
    let want_ext = c.own_marker || c.implied;
    if d.attrs.non_exhaustive != want_ext {
        return Ok(Some(format!("rasn: the including type has #[non_exhaustive] = {}, its notation has {} extension marker{}", d.attrs.non_exhaustive, if c.own_marker { "an" } else { "no" }, if c.implied { " (EXTENSIBILITY IMPLIED)" } else { "" })));
    }
    let mut names: Vec<&str> = d.fields.iter().map(|f| f.name.as_str()).collect();
    names.sort();
    if names != ["extra", "r1", "r2"] {
        return Ok(Some(format!("rasn: the including type has the members {names:?}; its own component and the root components of the named type are extra, r1, r2")));
    }
    for f in &d.fields {
        if f.attrs.flags.contains("extension_addition") || f.attrs.flags.contains("extension_addition_group") {
            return Ok(Some(format!("rasn: member {} of the including type is marked as an extension addition; every member stands in front of the marker", f.name)));
        }
    }
    // the TypeScript backend (EXTENSIBILITY IMPLIED is its listed finding F-ts-ext-implied: not judged there)
    if !c.implied {
        let ts = match comp::compile_ts(&[text.clone()]) {
            Outcome::Ok(o) => o,
            _ => return Err("typescript: rejected".into()),
        };
        let nss = crate::tsparse::parse(&ts.generated)?;
        let ns = nss.first().ok_or("no namespace")?;
        let dm = crate::tsparse::decl_map(ns);
        let ts_top = if c.before { "Aa_Derived" } else { "Zz_Derived" };
        let Some(decl) = dm.get(ts_top).and_then(|v| v.first()) else { return Err(format!("typescript: {ts_top} not declared")) };
        let crate::tsparse::Decl::Type(mut t) = (*decl).clone() else { return Err("typescript: not a type".into()) };
        if c.nested {
            let crate::tsparse::TsType::Object { members, .. } = &t else { return Err("typescript: not an object".into()) };
            let Some((_, _, inner)) = members.iter().find(|(n, _, _)| n == "inner") else { return Err("typescript: no inner".into()) };
            t = inner.clone();
        }
        let crate::tsparse::TsType::Object { members, index_signature } = &t else { return Err("typescript: not an object".into()) };
        if *index_signature != c.own_marker {
            return Ok(Some(format!("typescript: the including type has {} index signature, its notation has {} extension marker", if *index_signature { "an" } else { "no" }, if c.own_marker { "an" } else { "no" })));
        }
        let mut names: Vec<&str> = members.iter().map(|(n, _, _)| n.as_str()).collect();
        names.sort();
        if names != ["extra", "r1", "r2"] {
            return Ok(Some(format!("typescript: the including type has the members {names:?}; expected extra, r1, r2")));
        }
    }
    Ok(None)
}

fn compof_leg(ctx: &mut Ctx) {
    use rayon::prelude::*;
    let mut cases = vec![];
    for set in [false, true] {
        for base in 0..4 {
            for own_marker in [false, true] {
                for implied in [false, true] {
                    for first in [false, true] {
                        for nested in [false, true] {
                            for before in [false, true] {
                                cases.push(CofCase { set, base, own_marker, implied, first, nested, before });
                            }
                        }
                    }
                }
            }
        }
    }
    let results: Vec<(CofCase, Result<Option<String>, String>)> = cases.into_par_iter().map(|c| { let r = cof_eval(&c); (c, r) }).collect();
    let mut reported = 0;
    for (c, r) in results {
        match r {
            Err(e) => ctx.class(&format!("compof:skipped ({})", e.chars().take(36).collect::<String>())),
            Ok(res) => {
                ctx.case(&format!("compof:{}", cof_text(&c)), c.base > 0);
                ctx.class("leg:COMPONENTS-OF-takes-root-components-only");
                if let Some(d) = res {
                    ctx.class("fails:compof");
                    if reported < 3 {
                        reported += 1;
                        ctx.fail(crate::ev::Failure { finding: None, what: format!("COMPONENTS OF: {d}"), replay: serde_json::json!({"kind": "c05-compof", "case": c, "sources": [{"name": "cof.asn", "text": cof_text(&c)}], "observed": d}) });
                    }
                }
            }
        }
    }
}

pub fn run(tier: Tier, seed: u64, replay: Option<String>) -> i32 {
    let mut ctx = Ctx::new("C05", tier, seed);
    ctx.rule = "module sets from the §3 generator with extension markers on ~75% of SEQUENCE/SET/CHOICE/ENUMERATED (marker at any \
                position incl. first, 0..3 additions, [[ ]] groups with/without version number, nested, EXTENSIBILITY IMPLIED in ~20% of \
                modules); oracle: #[non_exhaustive] <=> marker or IMPLIED, extension_addition exactly on items after the marker, \
                each group one Option<_> extension_addition_group member whose hoisted struct holds the grouped components in order; \
                non-trivial = a type with a marker (or IMPLIED module); distinct by input text"
        .into();
    ctx.assumptions = vec![
        "[[ ]] groups are generated in SEQUENCE only (lexer/set.rs has no group alternative: such input is Err, outside the premise)".into(),
        "the #[non_exhaustive] of a hoisted group struct is not judged (not a type of the source)".into(),
        "TypeScript backend: only the index signature of SEQUENCE / SET types with a marker is judged here (C18's clause; EXTENSIBILITY IMPLIED is not judged there)".into(),
    ];
    let e = |m: &ModuleSet| match crate::props::c02::eval(m, "C05") {
        Verdict::Pass { mut classes, .. } => {
            let nontrivial = classes.iter().any(|c| c == "extension_marker" || c == "ext_implied");
            // the TypeScript backend: an index signature exactly on the SEQUENCE / SET types with a marker
            if let Some((key, what)) = crate::props::c18::ts_clause_failure(m, &["index-signature"]) {
                return Verdict::Fail { key: format!("ts:{key}"), finding: None, what: format!("TypeScript backend: {what}"), observed: serde_json::json!(null), nontrivial: true };
            }
            classes.push("backend:typescript (index signature)".into());
            Verdict::Pass { nontrivial, classes }
        }
        other => other,
    };
    let run = GenericRun {
        gcfg: gen_cfg(),
        n: tier.pick(20000, 300000),
        stream_len: 4000,
        salt: 5,
        shrink_budget: 400,
        max_violations: 4,
        eval: &e,
    };
    if let Some(p) = &replay {
        let v: serde_json::Value = serde_json::from_str(&std::fs::read_to_string(p).unwrap_or_default()).unwrap_or_default();
        if v["kind"] == "c05-compof" {
            if let Ok(c) = serde_json::from_value::<CofCase>(v["case"].clone()) {
                match cof_eval(&c) {
                    Err(e) => ctx.inconclusive.push(e),
                    Ok(res) => {
                        ctx.case(&cof_text(&c), true);
                        if let Some(d) = res {
                            ctx.fail(crate::ev::Failure { finding: None, what: format!("COMPONENTS OF: {d}"), replay: v.clone() });
                        }
                    }
                }
            }
            return ctx.finish();
        }
        if v["kind"] == "c05-classfield" {
            if let Ok(c) = serde_json::from_value::<ClsCase>(v["case"].clone()) {
                match cls_eval(&c) {
                    Err(e) => ctx.inconclusive.push(e),
                    Ok(res) => {
                        ctx.case(&cls_module(&c), true);
                        if let Some(d) = res {
                            ctx.fail(crate::ev::Failure { finding: None, what: format!("extension marks change when a component is typed by a class field: {d}"), replay: v.clone() });
                        }
                    }
                }
            }
            return ctx.finish();
        }
    }
    if let Some(p) = replay {
        let r = replay_generic(&mut ctx, &run, "c05", &p);
        let code = ctx.finish();
        return if r == 2 { 2 } else { code };
    }
    run_generic(&mut ctx, &run, "c05");
    classfield_leg(&mut ctx, tier, seed);
    compof_leg(&mut ctx);
    ctx.finish()
}
