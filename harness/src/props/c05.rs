//! C05 — extension markers, additions and addition groups are preserved.
use crate::asn::*;
use crate::ev::{Ctx, Tier};
use crate::gen::GenCfg;
use crate::props::common::*;

pub fn gen_cfg() -> GenCfg {
    GenCfg {
        values: false,
        defaults: false,
        ext_pct: 75,
        max_comps: 5,
        ..GenCfg::default()
    }
}

pub fn run(tier: Tier, seed: u64, replay: Option<String>) -> i32 {
    let mut ctx = Ctx::new("C05", tier, seed);
    ctx.rule = "module sets from the §3 generator with extension markers on ~75% of SEQUENCE/SET/CHOICE/ENUMERATED (marker at any \
                position incl. first, 0..3 additions, [[ ]] groups with/without version number, nested, EXTENSIBILITY IMPLIED in ~20% of \
                modules); oracle: #[non_exhaustive] <=> marker or IMPLIED, extension_addition exactly on items after the marker, \
                each group one Option<_> extension_addition_group member whose hoisted struct holds the grouped components in order; \
                non-trivial = a type with a marker (or IMPLIED module); distinct by input text"
        .into();
    ctx.assumptions = vec![
        "[[ ]] groups are generated in SEQUENCE only (lexer/set.rs has no group alternative: such input is Err, outside the premise)".into(),
        "the #[non_exhaustive] of a hoisted group struct is not judged (not a type of the source)".into(),
        "TypeScript backend: only the index signature of SEQUENCE / SET types with a marker is judged here (C18's clause; EXTENSIBILITY IMPLIED is not judged there)".into(),
    ];
    let e = |m: &ModuleSet| match crate::props::c02::eval(m, "C05") {
        Verdict::Pass { mut classes, .. } => {
            let nontrivial = classes.iter().any(|c| c == "extension_marker" || c == "ext_implied");
            // the TypeScript backend: an index signature exactly on the SEQUENCE / SET types with a marker
            if let Some((key, what)) = crate::props::c18::ts_clause_failure(m, &["index-signature"]) {
                return Verdict::Fail { key: format!("ts:{key}"), finding: None, what: format!("TypeScript backend: {what}"), observed: serde_json::json!(null), nontrivial: true };
            }
            classes.push("backend:typescript (index signature)".into());
            Verdict::Pass { nontrivial, classes }
        }
        other => other,
    };
    let run = GenericRun {
        gcfg: gen_cfg(),
        n: tier.pick(20000, 300000),
        stream_len: 4000,
        salt: 5,
        shrink_budget: 400,
        max_violations: 4,
        eval: &e,
    };
    if let Some(p) = replay {
        let r = replay_generic(&mut ctx, &run, "c05", &p);
        let code = ctx.finish();
        return if r == 2 { 2 } else { code };
    }
    run_generic(&mut ctx, &run, "c05");
    ctx.finish()
}
