//! C03 — tags and tagging mode follow X.680 under the module's tagging environment.
//!
//! Oracle: the rasn tag attribute (class, number, explicit marking) of every item, field, variant
//! and hoisted element type is compared with the tag the source writes at the corresponding
//! position, and `automatic_tags` with the X.680 rule; the model <-> bindings correspondence is the
//! structure walker of C02/C05. The marking on a CHOICE-typed position is not judged (rasn applies
//! explicit tagging to CHOICE types on its own).
use crate::asn::*;
use crate::comp::{self, Cfg, Outcome};
use crate::ev::{Ctx, Failure, Tier};
use crate::gen::GenCfg;
use crate::props::common::*;
use crate::structure::{self, TagDisc};
use serde_json::{json, Value};
use std::collections::BTreeMap;

pub fn gen_cfg() -> GenCfg {
    GenCfg { values: false, constraints: false, defaults: false, tags: true, header_variety: true, any: true, max_depth: 3, ..GenCfg::default() }
}

/// known findings: input class AND deviation shape
fn classify(d: &TagDisc) -> Option<&'static str> {
    match d.clause {
        "C03:explicit" if d.keyword.is_none() && d.expected_explicit == Some(true) && d.got_explicit == Some(false) => match d.tagging {
            // a module without a TAGS clause is treated as IMPLICIT TAGS
            Tagging::NoClause => Some("F-no-clause-implicit"),
            // the EXPLICIT default is not applied to tags inside anonymous nested types
            Tagging::Explicit if d.depth >= 1 && d.position != "assignment" => Some("F-nested-default"),
            // a tagged open type needs explicit tagging whatever the default says
            Tagging::Implicit | Tagging::Automatic if d.target == "open" => Some("F-open-type-implicit"),
            _ => None,
        },
        // a tag inside an extension addition group does not stop automatic tagging of the enclosing type
        "C03:automatic" if d.position == "item:tags-only-in-groups" && d.got_explicit == Some(true) => Some("F-auto-group-tag"),
        // tags written on the element type of SEQUENCE OF / SET OF are dropped
        "C03:tag-missing" if d.position == "element" => Some("F-element-tag-dropped"),
        _ => None,
    }
}

/// what stands between the two keywords of the TagDefault (`EXPLICIT TAGS`) and of the
/// ExtensionDefault: any white space and comments (X.680 12.1.2); real modules break the line there
pub const HEADER_LAYOUTS: [&str; 6] = [" ", "\n", "  ", "\t", " -- default\n", " /* default */ "];

/// the layout the lattice is printed with (it is run once per layout); random module sets take
/// theirs from their text
static LATTICE_LAYOUT: std::sync::atomic::AtomicUsize = std::sync::atomic::AtomicUsize::new(usize::MAX);

fn relayout_header(text: &str, layout: usize) -> String {
    let sep = HEADER_LAYOUTS[layout % HEADER_LAYOUTS.len()];
    let mut out = text.to_string();
    for kw in ["EXPLICIT", "IMPLICIT", "AUTOMATIC"] {
        out = out.replace(&format!("{kw} TAGS"), &format!("{kw}{sep}TAGS"));
    }
    out.replace("EXTENSIBILITY IMPLIED", &format!("EXTENSIBILITY{sep}IMPLIED"))
}

fn observe(ms: &ModuleSet) -> Result<(Vec<TagDisc>, structure::TagStats), &'static str> {
    let text = print(ms);
    let layout = match LATTICE_LAYOUT.load(std::sync::atomic::Ordering::SeqCst) {
        usize::MAX => (crate::ev::hash_str(&text) % 11) as usize, // 6..10: the usual single blank
        l => l,
    };
    let text = if layout < HEADER_LAYOUTS.len() { relayout_header(&text, layout) } else { text };
    let out = comp::compile_rasn1(&text, &Cfg::default());
    let c = match &out {
        Outcome::Ok(c) => c,
        Outcome::Err(_) => return Err("compile_err"),
        Outcome::Panic(_) => return Err("panic"),
    };
    if !c.warnings.is_empty() {
        return Err("warnings");
    }
    let rmods = crate::proj::project(&c.generated).map_err(|_| "unparsable")?;
    let (structural, tags, stats) = structure::check_set_full(ms, &rmods);
    // positions the walker could not reach (a C02 discrepancy) are not judged here
    let _ = structural;
    Ok((tags, stats))
}

pub fn eval(ms: &ModuleSet) -> Verdict {
    let (tags, stats) = match observe(ms) {
        Ok(x) => x,
        Err(l) => return Verdict::Skip(l),
    };
    let nontrivial = stats.source_tags >= 2 && stats.max_depth_tagged >= 1;
    let mut classes = vec![];
    if stats.source_tags > 0 {
        classes.push("has_source_tags".to_string());
    }
    if stats.max_depth_tagged >= 1 {
        classes.push("tag_below_first_level".to_string());
    }
    if stats.max_depth_tagged >= 2 {
        classes.push("tag_at_depth>=2".to_string());
    }
    for m in &ms.modules {
        classes.push(format!("module_default:{:?}", m.tagging));
    }
    let unknown: Vec<&TagDisc> = tags.iter().filter(|d| classify(d).is_none()).collect();
    if let Some(d) = unknown.first() {
        return Verdict::Fail {
            key: d.clause.to_string(),
            finding: None,
            what: format!("{} at {}: {}", d.clause, d.at, d.detail),
            observed: json!(unknown.iter().take(5).collect::<Vec<_>>()),
            nontrivial,
        };
    }
    if let Some(d) = tags.first() {
        return Verdict::Fail {
            key: d.clause.to_string(),
            finding: classify(d),
            what: format!("{} at {}: {}", d.clause, d.at, d.detail),
            observed: json!(tags.iter().take(5).collect::<Vec<_>>()),
            nontrivial,
        };
    }
    Verdict::Pass { nontrivial, classes }
}

// ------------------------------------------------------------------------------------------
// the lattice

#[derive(Clone, Debug, serde::Serialize)]
struct Point {
    default: Tagging,
    keyword: Option<bool>,
    class: Class,
    position: &'static str,
    kind: &'static str,
    type_name: String,
}

fn comp(name: &str, tag: Option<Tag>, ty: Ty) -> Comp {
    Comp { name: name.into(), tag, ty, opt: Opt::Req }
}

fn seq(comps: Vec<Comp>) -> Ty {
    Ty::Sequence(Fields { root: comps, ext: None })
}

fn set(comps: Vec<Comp>) -> Ty {
    Ty::Set(Fields { root: comps, ext: None })
}

fn choice(comps: Vec<Comp>) -> Ty {
    Ty::Choice(Alts { root: comps, ext: None })
}

fn rf(name: &str) -> Ty {
    Ty::Ref { module: None, name: name.into(), cons: vec![] }
}

fn kind_ty(kind: &str) -> Ty {
    match kind {
        "primitive" => Ty::Integer { named: vec![], cons: vec![] },
        "referenced SEQUENCE" => rf("Seq-Base"),
        "referenced CHOICE" => rf("Ch-Base"),
        "inline CHOICE" => choice(vec![comp("u", None, Ty::Null), comp("v", None, Ty::Boolean)]),
        _ => Ty::Any,
    }
}

const POSITIONS: [&str; 8] = [
    "type assignment",
    "SEQUENCE component",
    "SET component",
    "CHOICE alternative",
    "component of an anonymous nested type (depth 2)",
    "component of an anonymous nested type (depth 3)",
    "SEQUENCE OF element",
    "SET OF element",
];
const KINDS: [&str; 5] = ["primitive", "referenced SEQUENCE", "referenced CHOICE", "inline CHOICE", "open type"];

fn lattice() -> (ModuleSet, Vec<Point>, usize) {
    let mut modules = vec![];
    let mut points = vec![];
    let mut illegal = 0;
    for (mi, default) in [Tagging::Explicit, Tagging::Implicit, Tagging::Automatic, Tagging::NoClause].into_iter().enumerate() {
        let mut items = vec![
            Item::Type { name: format!("Seq-Base{mi}"), tag: None, ty: seq(vec![comp("x", None, Ty::Null)]) },
            Item::Type { name: format!("Ch-Base{mi}"), tag: None, ty: choice(vec![comp("p", None, Ty::Null), comp("q", None, Ty::Boolean)]) },
        ];
        let fix = |t: Ty| -> Ty {
            // base types are per module (definitions are indexed by bare name across modules: C10 F-dup)
            match t {
                Ty::Ref { name, .. } => rf(&format!("{name}{mi}")),
                o => o,
            }
        };
        let mut n = 0;
        for keyword in [None, Some(false), Some(true)] {
            for class in [Class::Context, Class::Application, Class::Private, Class::Universal] {
                for position in POSITIONS {
                    for kind in KINDS {
                        // X.680 31.2.9: IMPLICIT cannot be written on a CHOICE or open type
                        if keyword == Some(false) && kind != "primitive" && kind != "referenced SEQUENCE" {
                            illegal += 1;
                            continue;
                        }
                        n += 1;
                        let num = match class {
                            // stay clear of the universal numbers of the neighbouring components
                            Class::Universal => 29,
                            _ => (n % 30) as u32,
                        };
                        let tag = Some(Tag { class, num, mode: keyword });
                        let k = fix(kind_ty(kind));
                        let name = format!("Lat{mi}x{n}");
                        let (itag, ty) = match position {
                            "type assignment" => (tag, k),
                            "SEQUENCE component" => (None, seq(vec![comp("a", tag, k), comp("b", None, Ty::Boolean)])),
                            "SET component" => (None, set(vec![comp("a", tag, k), comp("b", None, Ty::Boolean)])),
                            "CHOICE alternative" => (None, choice(vec![comp("a", tag, k), comp("b", None, Ty::Boolean)])),
                            "component of an anonymous nested type (depth 2)" => (None, seq(vec![comp("o", None, seq(vec![comp("a", tag, k), comp("b", None, Ty::Boolean)]))])),
                            "component of an anonymous nested type (depth 3)" => {
                                (None, seq(vec![comp("o", None, choice(vec![comp("i", None, seq(vec![comp("a", tag, k), comp("b", None, Ty::Boolean)])), comp("j", None, Ty::Null)]))]))
                            }
                            "SEQUENCE OF element" => (None, Ty::SeqOf(OfTy { size: None, size_paren: false, etag: tag, elem: Box::new(k) })),
                            _ => (None, Ty::SetOf(OfTy { size: None, size_paren: false, etag: tag, elem: Box::new(k) })),
                        };
                        items.push(Item::Type { name: name.clone(), tag: itag, ty });
                        points.push(Point { default, keyword, class, position, kind, type_name: name });
                    }
                }
            }
        }
        modules.push(Module { name: format!("Lattice-Mod{mi}"), tagging: default, ext_implied: false, imports: vec![], items });
    }
    (ModuleSet { modules }, points, illegal)
}

/// one small module set holding a single lattice point (replay / reporting unit)
fn point_set(all: &ModuleSet, p: &Point) -> ModuleSet {
    let m = all.modules.iter().find(|m| m.items.iter().any(|i| matches!(i, Item::Type { name, .. } if *name == p.type_name))).unwrap();
    let items: Vec<Item> = m
        .items
        .iter()
        .filter(|i| matches!(i, Item::Type { name, .. } if *name == p.type_name || name.starts_with("Seq-Base") || name.starts_with("Ch-Base")))
        .cloned()
        .collect();
    ModuleSet { modules: vec![Module { name: m.name.clone(), tagging: m.tagging, ext_implied: false, imports: vec![], items }] }
}

fn run_lattice(ctx: &mut Ctx, layout: usize) -> Result<(), String> {
    let (ms, points, illegal) = lattice();
    ctx.extra.insert("lattice_points".into(), json!(points.len()));
    ctx.extra.insert("lattice_points_illegal_in_x680".into(), json!(illegal));
    // compiled module by module: an Err in one module must not hide the others
    let mut by_type: BTreeMap<String, Vec<TagDisc>> = BTreeMap::new();
    for m in &ms.modules {
        let one = ModuleSet { modules: vec![m.clone()] };
        match observe(&one) {
            Ok((tags, _)) => {
                for d in tags {
                    let head = d.at.split(|c| c == '.' || c == '[').next().unwrap_or("").to_string();
                    by_type.entry(head).or_default().push(d);
                }
            }
            Err(why) => {
                ctx.case(&print(&one), true);
                ctx.fail(Failure {
                    finding: None,
                    what: format!("the lattice module with default {:?} does not compile cleanly ({why}): nothing can be judged", m.tagging),
                    replay: json!({"kind": "c03", "model_json": serde_json::to_string(&one).unwrap(), "sources": [{"name": "lattice.asn", "text": print(&one)}]}),
                });
            }
        }
    }
    let mut reported: BTreeMap<String, usize> = BTreeMap::new();
    for p in &points {
        let id = format!("{:?}/{:?}/{:?}/{}/{}/header-layout-{layout}", p.default, p.keyword, p.class, p.position, p.kind);
        ctx.case(&id, true);
        ctx.class(&format!("lattice:header-layout:{:?}", HEADER_LAYOUTS[layout]));
        ctx.class(&format!("lattice:default:{:?}", p.default));
        ctx.class(&format!("lattice:position:{}", p.position));
        ctx.class(&format!("lattice:kind:{}", p.kind));
        let Some(ds) = by_type.get(&p.type_name) else { continue };
        for d in ds {
            let finding = classify(d);
            ctx.class(&format!("fails:{}", d.clause));
            let known = finding.map_or(false, |f| ctx.is_known(f));
            if !known {
                // one report per (clause, default, keyword, position, kind) signature
                let sig = format!("{}/{:?}/{:?}/{}/{}", d.clause, p.default, p.keyword, p.position, p.kind);
                let c = reported.entry(sig).or_insert(0);
                *c += 1;
                if *c > 1 {
                    ctx.violations.push((String::new(), d.detail.clone()));
                    continue;
                }
            }
            let small = point_set(&ms, p);
            ctx.fail(Failure {
                finding,
                what: format!("lattice point {id}: {} at {}: {}", d.clause, d.at, d.detail),
                replay: json!({"kind": "c03", "point": p, "header_layout": layout, "model_json": serde_json::to_string(&small).unwrap(), "sources": [{"name": "point.asn", "text": relayout_header(&print(&small), layout)}], "observed": d}),
            });
        }
    }
    Ok(())
}

// ---------------------------------------------------------------------------------------
// COMPONENTS OF: "every tag written in the source is applied to the corresponding field" also
// where the field is a copy. The included components carry, in the including type, the tag
// attributes they carry in the type they are written in. (Not judged: an including type
// without any tag of its own in an AUTOMATIC TAGS module, which is re-tagged as a whole.)

#[derive(Clone, Debug, serde::Serialize, serde::Deserialize)]
struct CompOf {
    default: usize,
    /// (class 0 context / 1 APPLICATION / 2 PRIVATE, number, keyword 0 none / 1 IMPLICIT / 2 EXPLICIT, type index, OPTIONAL)
    members: Vec<(u8, u8, u8, u8, bool)>,
}

const CO_DEFAULTS: [&str; 4] = ["", "EXPLICIT TAGS", "IMPLICIT TAGS", "AUTOMATIC TAGS"];
const CO_TYPES: [&str; 5] = ["INTEGER", "BOOLEAN", "OCTET STRING", "CHOICE { c1 INTEGER, c2 BOOLEAN }", "SEQUENCE { s1 INTEGER }"];

fn co_text(c: &CompOf) -> String {
    let members: Vec<String> = c
        .members
        .iter()
        .enumerate()
        .map(|(i, m)| {
            format!(
                "m{i} [{}{}] {}{}{}",
                ["", "APPLICATION ", "PRIVATE "][m.0 as usize % 3],
                m.1,
                ["", "IMPLICIT ", "EXPLICIT "][m.2 as usize % 3],
                CO_TYPES[m.3 as usize % CO_TYPES.len()],
                if m.4 { " OPTIONAL" } else { "" }
            )
        })
        .collect();
    format!(
        "Co-Mod DEFINITIONS {} ::= BEGIN\nBase ::= SEQUENCE {{ {} }}\nIncl-Plain ::= SEQUENCE {{ lead NULL, COMPONENTS OF Base }}\nIncl-Tagged ::= SEQUENCE {{ lead [30] NULL, COMPONENTS OF Base }}\nIncl-Set ::= SET {{ lead [31] NULL, COMPONENTS OF Base-Set }}\nBase-Set ::= SET {{ {} }}\nEND\n",
        CO_DEFAULTS[c.default % 4],
        members.join(", "),
        members.join(", ")
    )
}

fn co_eval(c: &CompOf) -> Result<Option<String>, String> {
    let text = co_text(c);
    let out = match comp::compile_rasn1(&text, &Cfg::default()) {
        Outcome::Ok(o) if o.warnings.is_empty() => o,
        Outcome::Ok(o) => return Err(format!("warnings: {}", o.warnings[0])),
        Outcome::Err(e) => return Err(e),
        Outcome::Panic(p) => return Err(format!("panic: {p}")),
    };
    let mods = crate::proj::project(&out.generated)?;
    let m = mods.first().ok_or("no module")?;
    for (base, incls) in [("Base", vec!["InclPlain", "InclTagged"]), ("BaseSet", vec!["InclSet"])] {
        let Some(b) = m.find_struct(base) else { return Err(format!("{base} not generated")) };
        for incl in incls {
            if incl == "InclPlain" && c.default % 4 == 3 {
                continue;
            }
            let Some(s) = m.find_struct(incl) else { return Err(format!("{incl} not generated")) };
            for bf in &b.fields {
                let Some(f) = s.fields.iter().find(|f| f.name == bf.name) else {
                    return Ok(Some(format!("{incl} lacks the included component {}", bf.name)));
                };
                if f.attrs.tag != bf.attrs.tag {
                    return Ok(Some(format!("component {} carries {:?} in {base} and {:?} where it is included in {incl} (module default `{}`)", bf.name, bf.attrs.tag, f.attrs.tag, CO_DEFAULTS[c.default % 4])));
                }
            }
        }
    }
    Ok(None)
}

fn compof_leg(ctx: &mut Ctx, tier: Tier, seed: u64) {
    use rayon::prelude::*;
    let mut cases: Vec<CompOf> = vec![];
    for (_p, v) in crate::ev::replay_files("C03") {
        if v["kind"] == "c03-compof" {
            if let Ok(c) = serde_json::from_value::<CompOf>(v["case"].clone()) {
                cases.push(c);
            }
        }
    }
    let n = tier.pick(800, 8000);
    let mut drv = crate::ev::Driver::new(seed, 303, 40);
    for t in drv.draw(n) {
        let s = t.current();
        let mut src = crate::src::Src::new(&s);
        let default = src.pick(4);
        let k = 1 + src.pick(4);
        let members = (0..k).map(|i| (src.pick(3) as u8, (i * 3 + src.pick(3)) as u8, src.weighted(&[6, 2, 2]) as u8, src.pick(CO_TYPES.len()) as u8, src.chance(25))).collect();
        cases.push(CompOf { default, members });
    }
    let results: Vec<(CompOf, Result<Option<String>, String>)> = cases.into_par_iter().map(|c| { let r = co_eval(&c); (c, r) }).collect();
    let mut reported = 0;
    for (c, r) in results {
        match r {
            Err(_) => ctx.class("compof:skipped (rejected / not generated)"),
            Ok(res) => {
                ctx.case(&format!("compof:{}", co_text(&c)), true);
                ctx.class("leg:COMPONENTS-OF-keeps-tags");
                ctx.class(&format!("compof:default={}", CO_DEFAULTS[c.default % 4]));
                if let Some(d) = res {
                    ctx.class("fails:compof");
                    if reported < 3 {
                        reported += 1;
                        let mut small = c.clone();
                        while small.members.len() > 1 {
                            let mut t2 = small.clone();
                            t2.members.pop();
                            if matches!(co_eval(&t2), Ok(Some(_))) { small = t2 } else { break }
                        }
                        let d = match co_eval(&small) { Ok(Some(d2)) => d2, _ => d };
                        ctx.fail(Failure { finding: None, what: format!("COMPONENTS OF changes a tag: {d}"), replay: json!({"kind": "c03-compof", "case": small, "sources": [{"name": "co.asn", "text": co_text(&small)}], "observed": d}) });
                    }
                }
            }
        }
    }
}


// ---------------------------------------------------------------------------------------
// Instances of parameterized types: `R ::= [t] E {BOOLEAN}` with `E {T} ::= [u] BODY` is
// `[t] [u] BODY[T := BOOLEAN]`. The reference is the same module with the instance written
// out: when R's tag is applied implicitly it replaces the template's; when R has none the
// template's is R's. (Not judged, counted: both tags present and R's applied explicitly - two
// tags on one definition, which the bindings cannot carry.)

const TI_TAGS: [(&str, u8); 6] = [("", 0), ("[APPLICATION 1] ", 0), ("[5] EXPLICIT ", 2), ("[PRIVATE 2] IMPLICIT ", 1), ("[2] ", 0), ("[APPLICATION 7] IMPLICIT ", 1)];
const TI_BODIES: [(&str, &str); 3] = [
    ("SEQUENCE { x T, y [1] INTEGER OPTIONAL }", "SEQUENCE { x BOOLEAN, y [1] INTEGER OPTIONAL }"),
    ("SET { x [0] T, y [1] EXPLICIT BOOLEAN }", "SET { x [0] BOOLEAN, y [1] EXPLICIT BOOLEAN }"),
    ("SEQUENCE { x [3] EXPLICIT T, z NULL }", "SEQUENCE { x [3] EXPLICIT BOOLEAN, z NULL }"),
];

fn ti_text(default: usize, te: usize, tr: usize, body: usize, cross: bool) -> Option<String> {
    let (e_tag, _e_kw) = TI_TAGS[te];
    let (r_tag, r_kw) = TI_TAGS[tr];
    let (tb, wb) = TI_BODIES[body];
    // what the instance is, written out
    let explicit_default = default % 4 == 1;
    let r_explicit = !r_tag.is_empty() && (r_kw == 2 || (r_kw == 0 && explicit_default));
    let written = if r_tag.is_empty() {
        format!("{e_tag}{wb}")
    } else if e_tag.is_empty() || !r_explicit {
        format!("{r_tag}{wb}")
    } else {
        return None;
    };
    let d = CO_DEFAULTS[default % 4];
    Some(if cross {
        format!("Ti-Lib DEFINITIONS {d} ::= BEGIN\nEnv {{T}} ::= {e_tag}{tb}\nEND\nTi-Use DEFINITIONS {d} ::= BEGIN\nIMPORTS Env{{}} FROM Ti-Lib;\nInst ::= {r_tag}Env {{BOOLEAN}}\nWritten ::= {written}\nEND\n")
    } else {
        format!("Ti-Use DEFINITIONS {d} ::= BEGIN\nEnv {{T}} ::= {e_tag}{tb}\nInst ::= {r_tag}Env {{BOOLEAN}}\nWritten ::= {written}\nEND\n")
    })
}

fn ti_eval(text: &str) -> Result<Option<String>, String> {
    let out = match comp::compile_rasn1(text, &Cfg::default()) {
        Outcome::Ok(o) if o.warnings.is_empty() => o,
        Outcome::Ok(o) => return Err(format!("warnings: {}", o.warnings[0])),
        Outcome::Err(e) => return Err(e),
        Outcome::Panic(p) => return Err(format!("panic: {p}")),
    };
    let mods = crate::proj::project(&out.generated)?;
    let m = mods.iter().find(|m| m.find_struct("Written").is_some()).ok_or("Written not generated")?;
    let w = m.find_struct("Written").unwrap();
    let Some(i) = m.find_struct("Inst") else { return Ok(Some("the instance is not generated as a struct".into())) };
    if i.attrs.tag != w.attrs.tag {
        return Ok(Some(format!("the instance carries {:?}, the same type written out {:?}", i.attrs.tag, w.attrs.tag)));
    }
    if i.attrs.flags.contains("automatic_tags") != w.attrs.flags.contains("automatic_tags") {
        return Ok(Some(format!("automatic_tags differs: instance {:?}, written out {:?}", i.attrs.flags, w.attrs.flags)));
    }
    for wf in &w.fields {
        let Some(f) = i.fields.iter().find(|f| f.name == wf.name) else { return Ok(Some(format!("the instance lacks component {}", wf.name))) };
        if f.attrs.tag != wf.attrs.tag {
            return Ok(Some(format!("component {} carries {:?} in the instance and {:?} written out", wf.name, f.attrs.tag, wf.attrs.tag)));
        }
    }
    Ok(None)
}

/// the instance as a *component*: `a Env {BOOLEAN}` is `a [u] BODY`, `b [3] Env {BOOLEAN}`
/// (implicit) is `b [3] BODY`; finding F-instance-component-tag: the template's tag is lost
/// on the component that has no tag of its own
fn ti_component_eval(default: usize, te: usize, body: usize) -> Result<Option<(String, bool)>, String> {
    let (e_tag, _) = TI_TAGS[te];
    let (tb, wb) = TI_BODIES[body];
    let d = CO_DEFAULTS[default % 4];
    let text = format!(
        "Ti-Use DEFINITIONS {d} ::= BEGIN\nEnv {{T}} ::= {e_tag}{tb}\nHolder ::= SEQUENCE {{ a Env {{BOOLEAN}}, b [30] IMPLICIT Env {{BOOLEAN}}, z NULL }}\nWritten ::= SEQUENCE {{ a {e_tag}{wb}, b [30] IMPLICIT {wb}, z NULL }}\nEND\n"
    );
    let out = match comp::compile_rasn1(&text, &Cfg::default()) {
        Outcome::Ok(o) if o.warnings.is_empty() => o,
        Outcome::Ok(o) => return Err(format!("warnings: {}", o.warnings[0])),
        Outcome::Err(e) => return Err(e),
        Outcome::Panic(p) => return Err(format!("panic: {p}")),
    };
    let mods = crate::proj::project(&out.generated)?;
    let m = mods.first().ok_or("no module")?;
    let (Some(h), Some(w)) = (m.find_struct("Holder"), m.find_struct("Written")) else { return Err("not generated".into()) };
    for wf in &w.fields {
        let Some(f) = h.fields.iter().find(|f| f.name == wf.name) else { return Ok(Some((format!("Holder lacks component {}", wf.name), false))) };
        // the tag of an inline SEQUENCE / SET component stands on the hoisted type or on the field
        let tag_of = |s: &crate::proj::RStruct, f: &crate::proj::RField| f.attrs.tag.clone().or_else(|| m.find_struct(f.ty.trim_start_matches("Option<").trim_end_matches('>')).and_then(|t| t.attrs.tag.clone())).or_else(|| { let _ = s; None });
        let (ht, wt) = (tag_of(h, f), tag_of(w, wf));
        if ht != wt {
            let listed = wf.name == "a" && ht.is_none() && !e_tag.is_empty();
            return Ok(Some((format!("component {} of Holder carries {:?}, the same type written out {:?}\n{text}", wf.name, ht, wt), listed)));
        }
    }
    Ok(None)
}

fn template_instance_leg(ctx: &mut Ctx) {
    let mut reported = 0;
    for default in 0..4 {
        for te in 0..TI_TAGS.len() {
            for body in 0..TI_BODIES.len() {
                match ti_component_eval(default, te, body) {
                    Err(_) => ctx.class("template-instance-component:skipped (rejected / warnings)"),
                    Ok(res) => {
                        ctx.case(&format!("tic:{default}:{te}:{body}"), true);
                        ctx.class("leg:instances-of-tagged-templates-as-components");
                        if let Some((d, listed)) = res {
                            if listed && ctx.is_known("F-instance-component-tag") {
                                ctx.fail(Failure { finding: Some("F-instance-component-tag"), what: String::new(), replay: Value::Null });
                            } else if reported < 3 {
                                reported += 1;
                                ctx.fail(Failure { finding: None, what: format!("instance of a parameterized type as a component: {d}"), replay: json!({"kind": "c03-template-instance-component", "default": default, "template_tag": te, "body": body, "observed": d}) });
                            }
                        }
                    }
                }
            }
        }
    }
    for default in 0..4 {
        for te in 0..TI_TAGS.len() {
            for tr in 0..TI_TAGS.len() {
                for body in 0..TI_BODIES.len() {
                    for cross in [false, true] {
                        let Some(text) = ti_text(default, te, tr, body, cross) else {
                            ctx.class("template-instance:not judged (two tags, the instance's applied explicitly)");
                            continue;
                        };
                        match ti_eval(&text) {
                            Err(_) => ctx.class("template-instance:skipped (rejected / warnings)"),
                            Ok(res) => {
                                ctx.case(&format!("ti:{text}"), true);
                                ctx.class("leg:tagged-instances-of-tagged-templates");
                                if let Some(d) = res {
                                    ctx.class("fails:template-instance");
                                    if reported < 3 {
                                        reported += 1;
                                        ctx.fail(Failure { finding: None, what: format!("instance of a parameterized type: {d}"), replay: json!({"kind": "c03-template-instance", "sources": [{"name": "ti.asn", "text": text}], "observed": d}) });
                                    }
                                }
                            }
                        }
                    }
                }
            }
        }
    }
}

pub fn run(tier: Tier, seed: u64, replay: Option<String>) -> i32 {
    let mut ctx = Ctx::new("C03", tier, seed);
    ctx.max_replays = 12;
    ctx.rule = "exhaustive lattice: header layout {blank, line break, two blanks, tab, `--` comment, `/* */` comment between the keywords of the TagDefault} x module default {EXPLICIT, IMPLICIT, AUTOMATIC, none} x keyword {none, IMPLICIT, EXPLICIT} x class {context, APPLICATION, \
                PRIVATE, UNIVERSAL} x position {type assignment, SEQUENCE component, SET component, CHOICE alternative, component of an anonymous nested type at \
                depth 2 and 3, SEQUENCE OF element, SET OF element} x tagged type {primitive, referenced SEQUENCE, referenced CHOICE, inline CHOICE, open type} \
                (IMPLICIT on CHOICE/open type is illegal and left out, counted); plus random module sets of the §3 generator with tags at every level and all \
                four module defaults; oracle: the rasn tag attribute (class, number, explicit) at the position the structure walker maps the source position \
                to must equal the source tag with X.680 31.2.7 explicitness (not judged on CHOICE-typed positions, where rasn tags explicitly by itself), \
                no tag attribute where the source has none, and automatic_tags <=> AUTOMATIC module and no own component tagged; one evaluation = one lattice \
                point or one random module set; non-trivial = every lattice point; a random set with >= 2 source tags, one of them below the first nesting level"
        .into();
    ctx.assumptions = vec![
        "the correspondence between source positions and generated items is the naming rule the C02 walker checks (hoisted Parent+Component, Anonymous+Parent)".into(),
        "`tag(class, n)` is implicit and `tag(explicit(class, n))` explicit tagging in rasn 0.27 (checked against rasn's DER output at design time, DESIGN.md §5 C03)".into(),
        "explicitness is not judged where the tagged type is an untagged CHOICE (through references): the property itself says the marking there is not observable".into(),
    ];
    let e = |m: &ModuleSet| eval(m);
    let grun = GenericRun { gcfg: gen_cfg(), n: tier.pick(30000, 300000), stream_len: 4000, salt: 3, shrink_budget: 300, max_violations: 4, eval: &e };
    if let Some(p) = &replay {
        let v: Value = serde_json::from_str(&std::fs::read_to_string(p).unwrap_or_default()).unwrap_or_default();
        if v["kind"] == "c03-template-instance-component" {
            let (d, te, b) = (v["default"].as_u64().unwrap_or(0) as usize, v["template_tag"].as_u64().unwrap_or(0) as usize, v["body"].as_u64().unwrap_or(0) as usize);
            match ti_component_eval(d, te, b) {
                Err(e) => ctx.inconclusive.push(e),
                Ok(res) => {
                    ctx.case(&format!("tic:{d}:{te}:{b}"), true);
                    if let Some((what, listed)) = res {
                        if listed && ctx.is_known("F-instance-component-tag") {
                            ctx.fail(Failure { finding: Some("F-instance-component-tag"), what: String::new(), replay: Value::Null });
                        } else {
                            ctx.fail(Failure { finding: None, what: format!("instance of a parameterized type as a component: {what}"), replay: v.clone() });
                        }
                    }
                }
            }
            return ctx.finish();
        }
        if v["kind"] == "c03-template-instance" {
            let text = v["sources"][0]["text"].as_str().unwrap_or_default().to_string();
            match ti_eval(&text) {
                Err(e) => ctx.inconclusive.push(e),
                Ok(res) => {
                    ctx.case(&text, true);
                    if let Some(d) = res {
                        ctx.fail(Failure { finding: None, what: format!("instance of a parameterized type: {d}"), replay: v.clone() });
                    }
                }
            }
            return ctx.finish();
        }
        if v["kind"] == "c03-compof" {
            if let Ok(c) = serde_json::from_value::<CompOf>(v["case"].clone()) {
                match co_eval(&c) {
                    Err(e) => ctx.inconclusive.push(e),
                    Ok(res) => {
                        ctx.case(&co_text(&c), true);
                        if let Some(d) = res {
                            ctx.fail(Failure { finding: None, what: format!("COMPONENTS OF changes a tag: {d}"), replay: v.clone() });
                        }
                    }
                }
            }
            return ctx.finish();
        }
    }
    if let Some(p) = replay {
        let v: Value = serde_json::from_str(&std::fs::read_to_string(&p).unwrap_or_default()).unwrap_or_default();
        if let Some(l) = v["header_layout"].as_u64() {
            LATTICE_LAYOUT.store(l as usize, std::sync::atomic::Ordering::SeqCst);
        }
        let r = replay_generic(&mut ctx, &grun, "c03", &p);
        let code = ctx.finish();
        return if r == 2 { 2 } else { code };
    }
    for layout in 0..HEADER_LAYOUTS.len() {
        LATTICE_LAYOUT.store(layout, std::sync::atomic::Ordering::SeqCst);
        let r = run_lattice(&mut ctx, layout);
        LATTICE_LAYOUT.store(usize::MAX, std::sync::atomic::Ordering::SeqCst);
        if let Err(e) = r {
            eprintln!("{e}");
            return 2;
        }
    }
    ctx.exhaustive = true;
    run_generic(&mut ctx, &grun, "c03");
    compof_leg(&mut ctx, tier, seed);
    template_instance_leg(&mut ctx);
    let _: Option<Value> = None;
    ctx.finish()
}
