//! C11 — the result is a deterministic function of the set of definitions.
use crate::asn::*;
use crate::comp::{self, Cfg, Outcome};
use crate::ev::{Ctx, Driver, Failure, Tier};
use crate::gen::GenCfg;
use crate::props::common::*;
use crate::src::Src;
use rayon::prelude::*;
use serde_json::{json, Value};
use std::sync::{Arc, Barrier};

pub const MODULE_DIR: &str = "/repo/rasn-compiler-tests/tests/modules";

fn canon(o: &Outcome) -> (String, String, Vec<String>) {
    match o {
        Outcome::Ok(c) => {
            let mut w = c.warnings.clone();
            w.sort();
            ("ok".into(), c.generated.clone(), w)
        }
        Outcome::Err(e) => ("err".into(), e.clone(), vec![]),
        Outcome::Panic(p) => ("panic".into(), p.clone(), vec![]),
    }
}

fn differ(a: &Outcome, b: &Outcome) -> Option<String> {
    let (ka, ga, wa) = canon(a);
    let (kb, gb, wb) = canon(b);
    if ka != kb {
        return Some(format!("status {ka} vs {kb}"));
    }
    if ga != gb {
        let pos = ga.bytes().zip(gb.bytes()).position(|(x, y)| x != y).unwrap_or(ga.len().min(gb.len()));
        let ctx_a: String = ga.chars().skip(pos.saturating_sub(60)).take(140).collect();
        let ctx_b: String = gb.chars().skip(pos.saturating_sub(60)).take(140).collect();
        return Some(format!("generated text differs at byte {pos}:\n  A: {ctx_a}\n  B: {ctx_b}"));
    }
    if wa != wb {
        return Some(format!("warnings differ: {wa:?} vs {wb:?}"));
    }
    None
}

pub fn real_modules(max: usize, seed: u64) -> Vec<(String, String)> {
    let mut files: Vec<std::path::PathBuf> = std::fs::read_dir(MODULE_DIR)
        .map(|rd| rd.filter_map(|e| e.ok().map(|e| e.path())).collect())
        .unwrap_or_default();
    files.sort();
    let n = files.len();
    if n == 0 {
        return vec![];
    }
    let stride = (n / max.max(1)).max(1);
    let off = (seed as usize) % stride;
    files
        .into_iter()
        .skip(off)
        .step_by(stride)
        .filter_map(|p| std::fs::read_to_string(&p).ok().map(|t| (p.file_name().unwrap().to_string_lossy().to_string(), t)))
        .filter(|(_, t)| t.len() < 200_000)
        .take(max)
        .collect()
}

fn permute<T: Clone>(v: &[T], src: &mut Src) -> Vec<T> {
    // Fisher-Yates driven by the choice stream
    let mut out = v.to_vec();
    for i in (1..out.len()).rev() {
        let j = src.pick(i + 1);
        out.swap(i, j);
    }
    out
}

/// the non-default backend configurations of the `configured-*` legs (replays name them by index)
fn configured() -> Vec<Cfg> {
    vec![
            Cfg {
                type_annotations: Some(vec![
                    "#[derive(AsnType, Debug, Clone, Decode, Encode, PartialEq, Eq, Hash)]".into(),
                    "#[allow(dead_code)]".into(),
                    "#[doc(hidden)]".into(),
                    "#[allow(unused_variables)]".into(),
                    "#[allow(clippy::all)]".into(),
                ]),
                custom_imports: vec!["core::fmt::Display".into(), "core::convert::TryFrom".into(), "alloc::string::String".into()],
                ..Cfg::default()
            },
            Cfg { generate_from_impls: true, default_wildcard_imports: true, no_std_compliant_bindings: true, opaque_open_types: false, ..Cfg::default() },
    ]
}

fn fail(ctx: &mut Ctx, leg: &str, sources: &[String], variant: &[String], detail: &str) {
    if ctx.violations.len() >= 4 {
        ctx.class("further_failures_not_written");
        return;
    }
    ctx.fail(Failure {
        finding: None,
        what: format!("{leg}: {detail}"),
        replay: json!({
            "kind": "c11",
            "leg": leg,
            "sources": sources.iter().enumerate().map(|(i, t)| json!({"name": format!("base{i}.asn"), "text": t})).collect::<Vec<_>>(),
            "variant_sources": variant,
            "observed": detail,
        }),
    });
}

/// the bindings `compile()` leaves in a file are a function of the input, not of what an
/// earlier compilation left at that path: a sequence of inputs of different sizes is compiled
/// into the same file and into the same directory, and after each step the file must hold
/// exactly the text `compile_to_string()` returns for that input
fn file_history_leg(ctx: &mut Ctx, tier: Tier, seed: u64) {
    use rasn_compiler::prelude::{Compiler, RasnBackend, TypescriptBackend};
    use rasn_compiler::OutputMode;
    let gcfg = GenCfg { max_modules: 2, ..GenCfg::default() };
    let mut drv = Driver::new(seed, 1111, 3000);
    let n = tier.pick(40, 400);
    let texts: Vec<String> = drv.draw(n).iter().map(|t| print(&gen_set(&t.current(), &gcfg))).collect();
    let small = "Tiny DEFINITIONS AUTOMATIC TAGS ::= BEGIN\nT ::= NULL\nEND\n".to_string();
    let work = tempfile::tempdir().expect("tempdir");
    for ts in [false, true] {
        for dir_mode in [false, true] {
            let dir = work.path().join(format!("h-{ts}-{dir_mode}"));
            let _ = std::fs::create_dir_all(&dir);
            let (target, file) = if dir_mode { (dir.clone(), dir.join(if ts { "generated.ts" } else { "generated.rs" })) } else { (dir.join("out.txt"), dir.join("out.txt")) };
            // long and short inputs alternate, so that every other step has to shorten the file
            let mut seq: Vec<&String> = vec![];
            for (i, t) in texts.iter().enumerate() {
                seq.push(t);
                if i % 2 == 1 {
                    seq.push(&small);
                }
            }
            let mut prev_len = 0usize;
            for (step, text) in seq.iter().enumerate() {
                let (want, got) = if ts {
                    (
                        comp::guarded(|| Compiler::<TypescriptBackend, _>::new().add_asn_literal((*text).clone()).compile_to_string()),
                        comp::guarded(|| Compiler::<TypescriptBackend, _>::new().add_asn_literal((*text).clone()).set_output_mode(OutputMode::SingleFile(target.clone())).compile()),
                    )
                } else {
                    (
                        comp::guarded(|| Compiler::<RasnBackend, _>::new().add_asn_literal((*text).clone()).compile_to_string()),
                        comp::guarded(|| Compiler::<RasnBackend, _>::new().add_asn_literal((*text).clone()).set_output_mode(OutputMode::SingleFile(target.clone())).compile()),
                    )
                };
                let (Ok(Ok(want)), Ok(Ok(_))) = (want, got) else { continue };
                let on_disk = std::fs::read_to_string(&file).unwrap_or_default();
                let shrinks = want.generated.len() < prev_len;
                prev_len = on_disk.len();
                ctx.case(&format!("file-history:{ts}:{dir_mode}:{step}:{text}"), shrinks);
                ctx.class_n("leg:file-output-after-other-compilations", 1);
                // (rustfmt may or may not be found for the file: compare without white space)
                let squash = |t: &str| t.chars().filter(|c| !c.is_whitespace()).collect::<String>();
                if squash(&on_disk) != squash(&want.generated) {
                    let d = format!(
                        "step {step} ({} backend, {}): the file holds {} bytes, compile_to_string returns {}; tail of the file: {:?}",
                        if ts { "TypeScript" } else { "rasn" },
                        if dir_mode { "output directory" } else { "output file" },
                        on_disk.len(),
                        want.generated.len(),
                        on_disk.chars().rev().take(80).collect::<String>().chars().rev().collect::<String>()
                    );
                    fail(ctx, "file-history", &[(*text).clone()], &[(*text).clone()], &d);
                    break;
                }
            }
        }
    }
}

pub fn run(tier: Tier, seed: u64, replay: Option<String>) -> i32 {
    let mut ctx = Ctx::new("C11", tier, seed);
    ctx.rule = "inputs: real-world modules of the repository that compile (each alone) and generator outputs; legs: repeat, fresh thread, after k other \
                compilations in the same thread, N in {2,8,16} concurrent copies (barrier start) interleaved with unrelated compilations, permutation of the \
                assignments inside a module (reversal + random permutations), of the modules inside a source, and of the sources; oracle: generated text \
                byte-identical and sorted warnings identical to the baseline; one evaluation = one comparison; non-trivial = input with >=3 assignments under \
                a non-identity permutation or a concurrent schedule; distinct by (input, leg, variant)"
        .into();
    ctx.assumptions = vec![
        "thread interleavings are not controlled: the concurrent leg is a differential test for process-global state".into(),
        "assignment permutations are applied to generator outputs (token lists known); real-world modules take the repeat/thread/history/concurrency legs".into(),
        "rustfmt is made unreachable (CARGO, CARGO_HOME removed) so formatting is not an environmental variable".into(),
    ];
    if let Some(path) = replay {
        let v: Value = serde_json::from_str(&std::fs::read_to_string(&path).expect("replay")).expect("json");
        let base: Vec<String> = v["sources"].as_array().unwrap().iter().map(|s| s["text"].as_str().unwrap().to_string()).collect();
        let var: Vec<String> = v["variant_sources"].as_array().unwrap().iter().map(|s| s.as_str().unwrap().to_string()).collect();
        if v["leg"].as_str() == Some("file-history") {
            // a long text first, then the recorded one, into the same file, for both backends
            use rasn_compiler::prelude::{Compiler, RasnBackend, TypescriptBackend};
            use rasn_compiler::OutputMode;
            let long = format!("Long DEFINITIONS AUTOMATIC TAGS ::= BEGIN\n{}END\n", (0..200).map(|i| format!("Filler-Type{i} ::= SEQUENCE {{ a INTEGER, b BOOLEAN OPTIONAL }}\n")).collect::<String>());
            let work = tempfile::tempdir().expect("tempdir");
            let squash = |t: &str| t.chars().filter(|c| !c.is_whitespace()).collect::<String>();
            for ts in [false, true] {
                let file = work.path().join(format!("out-{ts}.txt"));
                for text in [&long, &base[0]] {
                    let mode = OutputMode::SingleFile(file.clone());
                    let _ = if ts { comp::guarded(|| Compiler::<TypescriptBackend, _>::new().add_asn_literal(text.clone()).set_output_mode(mode).compile().map(|_| ())) } else { comp::guarded(|| Compiler::<RasnBackend, _>::new().add_asn_literal(text.clone()).set_output_mode(mode).compile().map(|_| ())) };
                }
                let want = if ts { comp::compile_ts(&base) } else { comp::compile_rasn(&base, &Cfg::default()) };
                if let Outcome::Ok(w) = want {
                    let on_disk = std::fs::read_to_string(&file).unwrap_or_default();
                    ctx.case(&format!("file-history-replay:{ts}:{}", base[0]), true);
                    if squash(&on_disk) != squash(&w.generated) {
                        fail(&mut ctx, "file-history", &base, &var, &format!("after a longer compilation into the same file it holds {} bytes, compile_to_string returns {}", on_disk.len(), w.generated.len()));
                    }
                }
            }
            return ctx.finish();
        }
        // (several rounds and both backends: a dependence on a per-process random state does
        // not show in every pair of runs)
        let rcfg = match v["leg"].as_str() {
            Some(l) if l.starts_with("configured-") => l.rsplit(':').next().and_then(|i| i.parse::<usize>().ok()).and_then(|i| configured().get(i).cloned()).unwrap_or_default(),
            _ => Cfg::default(),
        };
        let a = comp::compile_rasn(&base, &rcfg);
        let at = comp::compile_ts(&base);
        'rounds: for round in 0..6 {
            let b = comp::compile_rasn(&var, &rcfg);
            ctx.case(&format!("replay:rasn:{round}"), true);
            if let Some(d) = differ(&a, &b) {
                fail(&mut ctx, "replay", &base, &var, &d);
                break 'rounds;
            }
            if matches!(at, Outcome::Ok(_)) {
                let bt = comp::compile_ts(&var);
                ctx.case(&format!("replay:typescript:{round}"), true);
                if let Some(d) = differ(&at, &bt) {
                    fail(&mut ctx, "replay(typescript)", &base, &var, &d);
                    break 'rounds;
                }
            }
        }
        return ctx.finish();
    }
    let cfg = Cfg::default();
    for (_p, v) in crate::ev::replay_files("C11") {
        let base: Vec<String> = v["sources"].as_array().map(|a| a.iter().filter_map(|s| s["text"].as_str().map(|x| x.to_string())).collect()).unwrap_or_default();
        let var: Vec<String> = v["variant_sources"].as_array().map(|a| a.iter().filter_map(|s| s.as_str().map(|x| x.to_string())).collect()).unwrap_or_default();
        if base.is_empty() || var.is_empty() {
            continue;
        }
        let a = comp::compile_rasn(&base, &cfg);
        let b = comp::compile_rasn(&var, &cfg);
        ctx.case(&format!("replay:{}", var.join("\n")), true);
        if let Some(d) = differ(&a, &b) {
            fail(&mut ctx, "replay", &base, &var, &d);
        }
    }
    // ---- real-world modules
    let reals = real_modules(tier.pick(160, 900), seed);
    let baselines: Vec<(String, String, Outcome)> = reals
        .par_iter()
        .map(|(n, t)| (n.clone(), t.clone(), comp::compile_rasn1(t, &cfg)))
        .collect();
    let compiling: Vec<&(String, String, Outcome)> = baselines.iter().filter(|b| matches!(b.2, Outcome::Ok(_))).collect();
    ctx.extra.insert("real_modules_tried".into(), json!(baselines.len()));
    ctx.extra.insert("real_modules_compiling".into(), json!(compiling.len()));
    if let Some(b) = compiling.first() {
        ctx.sample(json!({"real_module": b.0, "bytes": b.1.len()}));
    }
    // repeat (same thread) and fresh thread
    let rep: Vec<(usize, Option<String>, Option<String>)> = compiling
        .par_iter()
        .enumerate()
        .map(|(i, b)| {
            let again = comp::compile_rasn1(&b.1, &cfg);
            let text = b.1.clone();
            let cfg2 = cfg.clone();
            let fresh = std::thread::spawn(move || {
                comp::install_panic_hook();
                comp::compile_rasn1(&text, &cfg2)
            })
            .join()
            .unwrap_or(Outcome::Panic("thread join".into()));
            (i, differ(&b.2, &again), differ(&b.2, &fresh))
        })
        .collect();
    for (i, d1, d2) in rep {
        let b = compiling[i];
        ctx.case(&format!("repeat:{}", b.0), false);
        ctx.case(&format!("fresh-thread:{}", b.0), false);
        ctx.class_n("leg:repeat", 1);
        ctx.class_n("leg:fresh_thread", 1);
        if let Some(d) = d1 {
            fail(&mut ctx, "repeat", &[b.1.clone()], &[b.1.clone()], &d);
        }
        if let Some(d) = d2 {
            fail(&mut ctx, "fresh-thread", &[b.1.clone()], &[b.1.clone()], &d);
        }
    }
    // history: one thread compiles a long random sequence; every result must equal the baseline
    if !compiling.is_empty() {
        let mut drv = Driver::new(seed, 111, 400);
        let t = drv.draw(1).pop().unwrap().current();
        let mut src = Src::new(&t);
        let steps = tier.pick(300, 3000);
        for _ in 0..steps {
            let i = src.pick(compiling.len());
            let b = compiling[i];
            let out = comp::compile_rasn1(&b.1, &cfg);
            ctx.case(&format!("history:{}:{}", ctx.evaluations, b.0), false);
            ctx.class_n("leg:history", 1);
            if let Some(d) = differ(&b.2, &out) {
                fail(&mut ctx, "after-other-compilations", &[b.1.clone()], &[b.1.clone()], &d);
                break;
            }
        }
    }
    // concurrent rounds
    if compiling.len() >= 4 {
        let rounds = tier.pick(6, 200);
        let mut drv = Driver::new(seed, 112, 200);
        let t = drv.draw(1).pop().unwrap().current();
        let mut src = Src::new(&t);
        for r in 0..rounds {
            let n = [2usize, 8, 16][r % 3];
            let target = compiling[src.pick(compiling.len())];
            let others: Vec<&(String, String, Outcome)> = (0..16 - n.min(16) + 2).map(|_| compiling[src.pick(compiling.len())]).collect();
            let total = n + others.len();
            let barrier = Arc::new(Barrier::new(total));
            let mut handles = vec![];
            for k in 0..total {
                let text = if k < n { target.1.clone() } else { others[k - n].1.clone() };
                let bar = barrier.clone();
                let cfg2 = cfg.clone();
                handles.push(std::thread::spawn(move || {
                    comp::install_panic_hook();
                    bar.wait();
                    comp::compile_rasn1(&text, &cfg2)
                }));
            }
            let outs: Vec<Outcome> = handles.into_iter().map(|h| h.join().unwrap_or(Outcome::Panic("join".into()))).collect();
            for (k, o) in outs.iter().enumerate() {
                let base = if k < n { &target.2 } else { &others[k - n].2 };
                let name = if k < n { &target.0 } else { &others[k - n].0 };
                ctx.case(&format!("concurrent:{r}:{k}:{name}"), true);
                ctx.class_n("leg:concurrent", 1);
                if let Some(d) = differ(base, o) {
                    let t = if k < n { target.1.clone() } else { others[k - n].1.clone() };
                    fail(&mut ctx, &format!("concurrent(n={n})"), &[t.clone()], &[t], &d);
                }
            }
        }
    }
    // ---- modules assembled from the library of less common notations (classes, objects,
    // COMPONENTS OF inside extension groups, parameterization, ...): permutation of the
    // assignments and concurrent compilation
    {
        let n_lib = tier.pick(300, 3000);
        let mut drv = Driver::new(seed, 113, 200);
        let streams: Vec<Vec<u32>> = drv.draw(n_lib).iter().map(|t| t.current()).collect();
        type LibRes = Vec<(String, Vec<String>, Vec<String>, Option<String>)>;
        let results: Vec<LibRes> = streams
            .par_iter()
            .map(|s| {
                let mut src = Src::new(s);
                let k = 3 + src.pick(10);
                let mut lines: Vec<&str> = vec![crate::props::c08::EXOTIC[0], "Base ::= SEQUENCE { x INTEGER, y BOOLEAN OPTIONAL, ..., w NULL }"];
                for _ in 0..k {
                    let l = crate::props::c08::EXOTIC[src.pick(crate::props::c08::EXOTIC.len())];
                    if !lines.contains(&l) {
                        lines.push(l);
                    }
                }
                let module = |ls: &[&str]| format!("Lib-Mod DEFINITIONS AUTOMATIC TAGS ::= BEGIN\n{}\nEND\n", ls.join("\n"));
                let base_src = vec![module(&lines)];
                let base = comp::compile_rasn(&base_src, &cfg);
                let mut out: LibRes = vec![];
                if !matches!(base, Outcome::Ok(_)) {
                    return out;
                }
                let mut rev = lines.clone();
                rev.reverse();
                let mut variants = vec![("library-assignments-reversed".to_string(), vec![module(&rev)])];
                for kk in 0..2 {
                    let p = permute(&lines, &mut src);
                    variants.push((format!("library-assignments-permuted-{kk}"), vec![module(&p)]));
                }
                for (leg, srcs) in variants {
                    let o = comp::compile_rasn(&srcs, &cfg);
                    out.push((leg, base_src.clone(), srcs, differ(&base, &o)));
                }
                // the same text on 6 threads at once
                let handles: Vec<_> = (0..6)
                    .map(|_| {
                        let t = base_src.clone();
                        let cfg2 = cfg.clone();
                        std::thread::spawn(move || {
                            comp::install_panic_hook();
                            comp::compile_rasn(&t, &cfg2)
                        })
                    })
                    .collect();
                for h in handles {
                    let o = h.join().unwrap_or(Outcome::Panic("join".into()));
                    out.push(("library-concurrent".to_string(), base_src.clone(), base_src.clone(), differ(&base, &o)));
                }
                out
            })
            .collect();
        for res in results {
            for (leg, base, var, d) in res {
                ctx.case(&format!("{leg}:{}", var.join("\n")), true);
                ctx.class_n(&format!("leg:{}", leg.trim_end_matches(|c: char| c.is_ascii_digit() || c == '-')), 1);
                if let Some(d) = d {
                    fail(&mut ctx, &leg, &base, &var, &d);
                }
            }
        }
    }
    // ---- module sets in which one module imports several values (and nothing else) whose
    // governing types are defined, and stay, in the exporting module: the compiler has to
    // add those types to the importing module on its own. The same sources are compiled
    // repeatedly, on one thread and on several, with both backends.
    {
        let n_ti = tier.pick(120, 1500);
        let mut drv = Driver::new(seed, 114, 60);
        let streams: Vec<Vec<u32>> = drv.draw(n_ti).iter().map(|t| t.current()).collect();
        type TiRes = Vec<(String, Vec<String>, Option<String>)>;
        let results: Vec<TiRes> = streams
            .par_iter()
            .map(|s| {
                let mut src = Src::new(s);
                let k = 2 + src.pick(5);
                let stems = ["Alpha", "Bravo", "Delta", "Gamma", "Kappa", "Omega", "Sigma", "Theta"];
                let first = src.pick(stems.len());
                let mut defs = String::from("Ti-Defs DEFINITIONS AUTOMATIC TAGS ::= BEGIN\n");
                let mut user = String::from("Ti-User DEFINITIONS AUTOMATIC TAGS ::= BEGIN\nIMPORTS ");
                let mut uses = String::new();
                for i in 0..k {
                    let st = stems[(first + i) % stems.len()];
                    let (ty, val) = [("INTEGER (0..100)", "7"), ("BOOLEAN", "TRUE"), ("OCTET STRING", "'0A'H"), ("INTEGER", "-3"), ("IA5String", "\"x\"")][src.pick(5)];
                    defs.push_str(&format!("{st}-Type ::= {ty}\n{}-val {st}-Type ::= {val}\n", st.to_lowercase()));
                    user.push_str(&format!("{}{}-val", if i > 0 { ", " } else { "" }, st.to_lowercase()));
                    uses.push_str(&format!("u{i} {} ::= {}-val\n", ty.split(' ').next().unwrap_or("INTEGER").replace("OCTET", "OCTET STRING"), st.to_lowercase()));
                }
                defs.push_str("END\n");
                user.push_str(&format!(" FROM Ti-Defs;\n{uses}Holder ::= SEQUENCE {{ n NULL }}\nEND\n"));
                let sources = if src.chance(50) { vec![defs, user] } else { vec![user, defs] };
                let mut out: TiRes = vec![];
                for ts in [false, true] {
                    let run = |srcs: &Vec<String>| if ts { comp::compile_ts(srcs) } else { comp::compile_rasn(srcs, &cfg) };
                    let base = run(&sources);
                    if !matches!(base, Outcome::Ok(_)) {
                        continue;
                    }
                    let be = if ts { "typescript" } else { "rasn" };
                    for _ in 0..5 {
                        let again = run(&sources);
                        out.push((format!("typed-imports-repeat:{be}"), sources.clone(), differ(&base, &again)));
                    }
                    let handles: Vec<_> = (0..4)
                        .map(|_| {
                            let t = sources.clone();
                            let cfg2 = cfg.clone();
                            std::thread::spawn(move || {
                                comp::install_panic_hook();
                                if ts { comp::compile_ts(&t) } else { comp::compile_rasn(&t, &cfg2) }
                            })
                        })
                        .collect();
                    for h in handles {
                        let o = h.join().unwrap_or(Outcome::Panic("join".into()));
                        out.push((format!("typed-imports-threads:{be}"), sources.clone(), differ(&base, &o)));
                    }
                }
                out
            })
            .collect();
        let mut sampled = false;
        for res in results {
            for (n, (leg, srcs, d)) in res.into_iter().enumerate() {
                if !sampled {
                    ctx.sample(json!({"typed_imports_input": srcs}));
                    sampled = true;
                }
                ctx.case(&format!("{leg}:{n}:{}", srcs.join("\n")), true);
                ctx.class_n(&format!("leg:{leg}"), 1);
                if let Some(d) = d {
                    fail(&mut ctx, &leg, &srcs, &srcs, &d);
                }
            }
        }
    }
    // ---- non-default backend configurations (several attributes that are not derives, several
    // custom imports, every boolean option on): the same input compiled repeatedly and on
    // several threads
    {
        let n_cf = tier.pick(150, 2000);
        let mut drv = Driver::new(seed, 115, 2000);
        let streams: Vec<Vec<u32>> = drv.draw(n_cf).iter().map(|t| t.current()).collect();
        let cfgs: Vec<Cfg> = configured();
        type CfRes = Vec<(String, Vec<String>, Option<String>)>;
        let results: Vec<CfRes> = streams
            .par_iter()
            .enumerate()
            .map(|(i, s)| {
                let ms = gen_set(s, &GenCfg { max_modules: 3, ..GenCfg::default() });
                let sources = vec![print(&ms)];
                let cfg = &cfgs[i % cfgs.len()];
                let mut out: CfRes = vec![];
                let base = comp::compile_rasn(&sources, cfg);
                if !matches!(base, Outcome::Ok(_)) {
                    return out;
                }
                for _ in 0..5 {
                    out.push((format!("configured-repeat:{}", i % cfgs.len()), sources.clone(), differ(&base, &comp::compile_rasn(&sources, cfg))));
                }
                let handles: Vec<_> = (0..3)
                    .map(|_| {
                        let t = sources.clone();
                        let c2 = cfg.clone();
                        std::thread::spawn(move || {
                            comp::install_panic_hook();
                            comp::compile_rasn(&t, &c2)
                        })
                    })
                    .collect();
                for h in handles {
                    let o = h.join().unwrap_or(Outcome::Panic("join".into()));
                    out.push((format!("configured-threads:{}", i % cfgs.len()), sources.clone(), differ(&base, &o)));
                }
                out
            })
            .collect();
        for res in results {
            for (n, (leg, srcs, d)) in res.into_iter().enumerate() {
                ctx.case(&format!("{leg}:{n}:{}", srcs.join("\n")), true);
                ctx.class_n(&format!("leg:{}", leg.split(':').next().unwrap_or("")), 1);
                if let Some(d) = d {
                    fail(&mut ctx, &leg, &srcs, &srcs, &format!("(backend configuration {}) {d}", leg.rsplit(':').next().unwrap_or("")));
                }
            }
        }
    }
    // ---- the TypeScript backend under concurrency: inputs of different kinds (with and without
    // EXTENSIBILITY IMPLIED, with and without imports) compiled at the same time on 8 threads;
    // every result must equal the one obtained alone
    {
        let n_in = tier.pick(24, 120);
        let rounds = tier.pick(60, 300);
        let mut drv = Driver::new(seed, 116, 2000);
        let inputs: Vec<Vec<String>> = drv
            .draw(n_in)
            .iter()
            .enumerate()
            .map(|(i, t)| {
                let mut ms = gen_set(&t.current(), &GenCfg { max_modules: 2, max_types: 5, ..GenCfg::default() });
                // every second input says EXTENSIBILITY IMPLIED in all its headers, the others in none
                for m in ms.modules.iter_mut() {
                    m.ext_implied = i % 2 == 0;
                }
                vec![print(&ms)]
            })
            .collect();
        let base: Vec<Outcome> = inputs.iter().map(|s| comp::compile_ts(s)).collect();
        let usable: Vec<usize> = (0..inputs.len()).filter(|i| matches!(base[*i], Outcome::Ok(_))).collect();
        if usable.len() >= 4 {
            let inputs = Arc::new(inputs);
            let usable = Arc::new(usable);
            let barrier = Arc::new(Barrier::new(8));
            let handles: Vec<_> = (0..8usize)
                .map(|t| {
                    let (inputs, usable, barrier) = (inputs.clone(), usable.clone(), barrier.clone());
                    std::thread::spawn(move || {
                        comp::install_panic_hook();
                        barrier.wait();
                        let mut out = vec![];
                        for r in 0..rounds {
                            let i = usable[(t * 7 + r * 3 + (r / 5)) % usable.len()];
                            out.push((i, comp::compile_ts(&inputs[i])));
                        }
                        out
                    })
                })
                .collect();
            let mut n_cmp = 0;
            for h in handles {
                for (i, o) in h.join().unwrap_or_default() {
                    n_cmp += 1;
                    ctx.case(&format!("ts-concurrent:{n_cmp}:{}", inputs[i][0]), true);
                    ctx.class_n("leg:typescript-concurrent", 1);
                    if let Some(d) = differ(&base[i], &o) {
                        fail(&mut ctx, "typescript-concurrent", &inputs[i], &inputs[i], &format!("compiled while other TypeScript compilations were running: {d}"));
                    }
                }
            }
        }
    }
    // ---- generator outputs: permutations
    let gcfg = GenCfg { max_modules: 4, ..GenCfg::default() };
    let n_gen = tier.pick(400, 5000);
    let mut drv = Driver::new(seed, 11, 4000);
    let streams: Vec<Vec<u32>> = drv.draw(n_gen).iter().map(|t| t.current()).collect();
    type Res = Vec<(String, bool, Vec<String>, Vec<String>, Option<String>)>;
    let results: Vec<Res> = streams
        .par_iter()
        .map(|s| {
            let ms = gen_set(s, &gcfg);
            let base_src = vec![print(&ms)];
            let base = comp::compile_rasn(&base_src, &cfg);
            let n_items: usize = ms.modules.iter().map(|m| m.items.len()).sum();
            let nontrivial = n_items >= 3;
            let mut out: Res = vec![];
            let mut psrc = Src::new(s);
            // skip some of the stream so permutations are not correlated with generation
            for _ in 0..7 {
                psrc.raw();
            }
            let mut variants: Vec<(String, Vec<String>)> = vec![];
            // reversal + 3 random permutations of the assignments of every module
            let mut rev = ms.clone();
            for m in rev.modules.iter_mut() {
                m.items.reverse();
            }
            variants.push(("assignments-reversed".into(), vec![print(&rev)]));
            for k in 0..3 {
                let mut p = ms.clone();
                for m in p.modules.iter_mut() {
                    m.items = permute(&m.items, &mut psrc);
                }
                variants.push((format!("assignments-permuted-{k}"), vec![print(&p)]));
            }
            if ms.modules.len() > 1 {
                let mut p = ms.clone();
                p.modules.reverse();
                variants.push(("modules-reversed".into(), vec![print(&p)]));
                let mut p2 = ms.clone();
                p2.modules = permute(&p2.modules, &mut psrc);
                variants.push(("modules-permuted".into(), vec![print(&p2)]));
                // separate sources, in source order and permuted
                let sep: Vec<String> = ms.modules.iter().map(|m| print(&ModuleSet { modules: vec![m.clone()] })).collect();
                variants.push(("separate-sources".into(), sep.clone()));
                let mut seprev = sep.clone();
                seprev.reverse();
                variants.push(("separate-sources-reversed".into(), seprev));
                variants.push(("separate-sources-permuted".into(), permute(&sep, &mut psrc)));
            }
            for (leg, srcs) in variants {
                let o = comp::compile_rasn(&srcs, &cfg);
                out.push((leg, nontrivial, base_src.clone(), srcs, differ(&base, &o)));
            }
            // the same with input that deserves a diagnostic: an IMPORTS clause naming a symbol its
            // source module does not define, and a reference to a type nobody defines; whatever is
            // reported (Ok with warnings, or Err) must not depend on the order either
            if ms.modules.len() > 1 {
                let mut bad = ms.clone();
                let k = psrc.pick(bad.modules.len());
                let other = (k + 1 + psrc.pick(bad.modules.len() - 1)) % bad.modules.len();
                let from = bad.modules[other].name.clone();
                match bad.modules[k].imports.iter_mut().find(|im| im.from == from) {
                    Some(im) => im.symbols.push("Ghost-Type".into()),
                    None => bad.modules[k].imports.push(Import { symbols: vec!["Ghost-Type".into()], from }),
                }
                if psrc.chance(50) {
                    bad.modules[other].items.push(Item::Type { name: "Dangling-User".into(), tag: None, ty: Ty::Ref { module: None, name: "Nobody-Defines-This".into(), cons: vec![] } });
                }
                let bad_src = vec![print(&bad)];
                let bad_base = comp::compile_rasn(&bad_src, &cfg);
                let mut bv: Vec<(String, Vec<String>)> = vec![];
                let mut p = bad.clone();
                p.modules.reverse();
                bv.push(("diagnostic-input:modules-reversed".into(), vec![print(&p)]));
                let sep: Vec<String> = bad.modules.iter().map(|m| print(&ModuleSet { modules: vec![m.clone()] })).collect();
                bv.push(("diagnostic-input:separate-sources".into(), sep.clone()));
                let mut seprev = sep.clone();
                seprev.reverse();
                bv.push(("diagnostic-input:separate-sources-reversed".into(), seprev));
                for (leg, srcs) in bv {
                    let o = comp::compile_rasn(&srcs, &cfg);
                    out.push((leg, true, bad_src.clone(), srcs, differ(&bad_base, &o)));
                }
            }
            out
        })
        .collect();
    let mut sampled = false;
    for res in results {
        for (leg, nontrivial, base, var, d) in res {
            ctx.case(&format!("{leg}:{}", var.join("\n")), nontrivial);
            ctx.class_n(&format!("leg:{}", leg.trim_end_matches(|c: char| c.is_ascii_digit() || c == '-')), 1);
            if !sampled {
                ctx.sample_text(&format!("generated input, variant {leg}"), &var.join("\n"));
                sampled = true;
            }
            if let Some(d) = d {
                fail(&mut ctx, &leg, &base, &var, &d);
            }
        }
    }
    file_history_leg(&mut ctx, tier, seed);
    ctx.finish()
}
