//! C09 — notations defined by expansion compile like their hand-expanded form.
use crate::comp::{self, Cfg, Outcome};
use crate::ev::{Ctx, Driver, Failure, Tier};
use crate::proj::{self, RItem};
use crate::src::Src;
use crate::structure::{snake_case, title_case};
use rayon::prelude::*;
use serde_json::{json, Value};

#[derive(Clone, Debug, serde::Serialize, serde::Deserialize)]
pub struct Pair {
    pub kind: String,
    /// module body lines: helpers (only in the sugared module) and the target definition
    pub sugared: Vec<String>,
    pub expanded: Vec<String>,
    /// hypotheses of known wrong expansions: (finding id, module body)
    pub wrong: Vec<(String, Vec<String>)>,
    pub header: String,
    pub nontrivial: bool,
}

const TARGET: &str = "Mm-Target";

fn module(header: &str, body: &[String]) -> String {
    format!("Exp-Mod DEFINITIONS {header} ::= BEGIN\n{}\nEND\n", body.join("\n"))
}

/// bindings that belong to the target type (struct/enum, hoisted children, impls, default fns)
fn target_items(generated: &str) -> Result<Vec<String>, String> {
    let mods = proj::project(generated)?;
    let m = mods.first().ok_or("no module")?;
    let rust = title_case(TARGET);
    let fnp = format!("{}_", snake_case(&rust));
    let owns = |n: &str| {
        for base in [n, n.strip_prefix("Anonymous").unwrap_or(n)] {
            if let Some(rest) = base.strip_prefix(rust.as_str()) {
                if rest.is_empty() || rest.starts_with(|c: char| c.is_uppercase()) {
                    return true;
                }
            }
        }
        false
    };
    Ok(m.items
        .iter()
        .filter(|it| match it {
            RItem::Struct(_) | RItem::Enum(_) => owns(it.name().unwrap()),
            RItem::Fn(f) => f.name.starts_with(&fnp),
            RItem::Impl(i) => owns(&i.target),
            _ => false,
        })
        .map(|it| it.text().to_string())
        .collect())
}

fn compile_target(header: &str, body: &[String]) -> Result<Vec<String>, String> {
    match comp::compile_rasn1(&module(header, body), &Cfg::default()) {
        Outcome::Ok(c) => {
            let items = target_items(&c.generated)?;
            if items.is_empty() {
                return Err(format!("target not generated (warnings: {:?})", c.warnings.iter().take(3).collect::<Vec<_>>()));
            }
            Ok(items)
        }
        Outcome::Err(e) => Err(format!("Err: {e}")),
        Outcome::Panic(p) => Err(format!("panic: {p}")),
    }
}

fn leaf(src: &mut Src) -> &'static str {
    ["INTEGER", "BOOLEAN", "NULL", "IA5String", "OCTET STRING", "INTEGER (0..7)", "UTF8String (SIZE (1..4))", "BIT STRING"][src.pick(8)]
}

/// helper name that sorts before or after the target name
fn hname(src: &mut Src, stem: &str, ty: bool) -> String {
    let before = src.chance(50);
    if ty {
        format!("{}-{stem}", if before { "Aa" } else { "Zz" })
    } else {
        format!("{}-{stem}", if before { "aa" } else { "zz" })
    }
}

/// place helper definitions before or after the target definition
fn arrange(src: &mut Src, helpers: Vec<String>, target: String) -> Vec<String> {
    let mut v = vec![];
    if src.chance(50) {
        v.extend(helpers);
        v.push(target);
    } else {
        v.push(target);
        v.extend(helpers);
    }
    v
}

fn gen_pair(src: &mut Src) -> Pair {
    let header = ["AUTOMATIC TAGS", "EXPLICIT TAGS", "IMPLICIT TAGS", "AUTOMATIC TAGS EXTENSIBILITY IMPLIED"][src.pick(4)].to_string();
    match src.pick(9) {
        // (a) value reference / named number in a constraint, with reference chains
        0 => {
            let n = [1i128, 5, 255, 256, 65535, 70000][src.pick(6)];
            let levels = 1 + src.pick(4);
            let size = src.chance(30);
            let mut helpers = vec![];
            let mut prev = n.to_string();
            let mut last = String::new();
            for l in 0..levels {
                let name = hname(src, &format!("lim{l}"), false);
                helpers.push(format!("{name} INTEGER ::= {prev}"));
                prev = name.clone();
                last = name;
            }
            // where the reference stands: upper bound of a closed range, or the only finite bound
            // of a half-open one (`ref..MAX`, `MIN..ref`), or a single value
            let shape = src.pick(4);
            let (sug, exp, unc) = match (size, shape) {
                (true, 0) | (true, 3) => (format!("{TARGET} ::= OCTET STRING (SIZE (1..{last}))"), format!("{TARGET} ::= OCTET STRING (SIZE (1..{n}))"), format!("{TARGET} ::= OCTET STRING (SIZE (1..MAX))")),
                (true, 1) => (format!("{TARGET} ::= OCTET STRING (SIZE ({last}..MAX))"), format!("{TARGET} ::= OCTET STRING (SIZE ({n}..MAX))"), format!("{TARGET} ::= OCTET STRING")),
                (true, _) => (format!("{TARGET} ::= SEQUENCE (SIZE ({last}..MAX)) OF BOOLEAN"), format!("{TARGET} ::= SEQUENCE (SIZE ({n}..MAX)) OF BOOLEAN"), format!("{TARGET} ::= SEQUENCE OF BOOLEAN")),
                (false, 0) => (format!("{TARGET} ::= INTEGER (0..{last})"), format!("{TARGET} ::= INTEGER (0..{n})"), format!("{TARGET} ::= INTEGER (0..MAX)")),
                (false, 1) => (format!("{TARGET} ::= INTEGER ({last}..MAX)"), format!("{TARGET} ::= INTEGER ({n}..MAX)"), format!("{TARGET} ::= INTEGER")),
                (false, 2) => (format!("{TARGET} ::= INTEGER (MIN..{last})"), format!("{TARGET} ::= INTEGER (MIN..{n})"), format!("{TARGET} ::= INTEGER")),
                (false, _) => (format!("{TARGET} ::= SEQUENCE {{ f INTEGER ({last}..MAX), g INTEGER ({last}) }}"), format!("{TARGET} ::= SEQUENCE {{ f INTEGER ({n}..MAX), g INTEGER ({n}) }}"), format!("{TARGET} ::= SEQUENCE {{ f INTEGER, g INTEGER }}")),
            };
            let wrong = if levels >= 2 { vec![("F-valref-chain".to_string(), vec![unc])] } else { vec![] };
            Pair { kind: format!("value-reference x{levels} shape={shape}"), sugared: arrange(src, helpers, sug), expanded: vec![exp], wrong, header, nontrivial: levels >= 2 }
        }
        1 => {
            let n = [1i128, 5, 255, 70000][src.pick(4)];
            // another type (sorting before or after) may declare the same identifiers with other
            // numbers; the named numbers may belong to the type itself or to a referenced type
            let decoy = hname(src, "Decoy", true);
            let with_decoy = src.chance(60);
            let via_ref = src.chance(40);
            let owner = hname(src, "Owner", true);
            let mut helpers = vec![];
            if with_decoy {
                helpers.push(format!("{decoy} ::= INTEGER {{ low(3), top({}) }}", n + 4));
            }
            let (sug, exp) = if via_ref {
                helpers.push(format!("{owner} ::= INTEGER {{ low(0), top({n}) }}"));
                (format!("{TARGET} ::= {owner} (low..top)"), format!("{TARGET} ::= {owner} (0..{n})"))
            } else {
                (format!("{TARGET} ::= INTEGER {{ low(0), top({n}) }} (low..top)"), format!("{TARGET} ::= INTEGER {{ low(0), top({n}) }} (0..{n})"))
            };
            let mut expanded = helpers.clone();
            expanded.push(exp);
            Pair {
                kind: format!("named-number decoy={with_decoy} via_ref={via_ref}"),
                sugared: arrange(src, helpers, sug),
                expanded,
                wrong: if via_ref { vec![] } else { vec![("F-named-number-bound".to_string(), vec![format!("{TARGET} ::= INTEGER {{ low(0), top({n}) }} (MIN..MAX)")])] },
                header,
                nontrivial: with_decoy || via_ref,
            }
        }
        // (b) COMPONENTS OF
        2 => {
            let base = hname(src, "Base", true);
            let nb = 1 + src.pick(3);
            // a component of the referenced type may be constrained through a value reference
            let lim = [7i128, 255, 70000][src.pick(3)];
            let vname = hname(src, "lim", false);
            let mut uses_ref = false;
            let mut base_comps: Vec<String> = vec![];
            let mut base_comps_sug: Vec<String> = vec![];
            for i in 0..nb {
                let opt = if src.chance(30) { " OPTIONAL" } else { "" };
                if src.chance(25) {
                    uses_ref = true;
                    base_comps_sug.push(format!("b{i} INTEGER (0..{vname}){opt}"));
                    base_comps.push(format!("b{i} INTEGER (0..{lim}){opt}"));
                } else {
                    let l = leaf(src);
                    base_comps_sug.push(format!("b{i} {l}{opt}"));
                    base_comps.push(format!("b{i} {l}{opt}"));
                }
            }
            let base_ext = src.chance(35);
            let base_def = if base_ext {
                format!("{base} ::= SEQUENCE {{ {}, ..., bx NULL }}", base_comps_sug.join(", "))
            } else {
                format!("{base} ::= SEQUENCE {{ {} }}", base_comps_sug.join(", "))
            };
            let npre = src.pick(3);
            let npost = src.pick(3);
            let pre: Vec<String> = (0..npre).map(|i| format!("p{i} {}", leaf(src))).collect();
            let post: Vec<String> = (0..npost).map(|i| format!("q{i} {}", leaf(src))).collect();
            // the referencing type may have extension additions of its own
            let nadd = if src.chance(35) { 1 + src.pick(2) } else { 0 };
            let adds: Vec<String> = (0..nadd).map(|i| format!("e{i} {}", leaf(src))).collect();
            let mut sug = pre.clone();
            sug.push(format!("COMPONENTS OF {base}"));
            sug.extend(post.clone());
            let mut exp = pre.clone();
            exp.extend(base_comps.clone());
            exp.extend(post.clone());
            // known wrong expansion: the referenced components appended at the end (after the
            // referencing type's own additions, which thereby become root components, the marker
            // moving to the very end)
            let mut appended = pre.clone();
            appended.extend(post.clone());
            appended.extend(adds.clone());
            appended.extend(base_comps.clone());
            let mut wrong = vec![];
            if nadd > 0 {
                sug.push("...".into());
                sug.extend(adds.clone());
                exp.push("...".into());
                exp.extend(adds.clone());
                // the marker index is shifted by the number of appended components: depending on
                // the counts it lands between the appended components or behind them
                for k in 0..=appended.len() {
                    let mut h = appended.clone();
                    h.insert(k, "...".into());
                    wrong.push(("F-compof".to_string(), vec![format!("{TARGET} ::= SEQUENCE {{ {} }}", h.join(", "))]));
                }
            } else {
                wrong.push(("F-compof".to_string(), vec![format!("{TARGET} ::= SEQUENCE {{ {} }}", appended.join(", "))]));
            }
            Pair {
                kind: format!("components-of pre={npre} post={npost} base_ext={base_ext} own_additions={nadd}"),
                sugared: arrange(src, if uses_ref { vec![base_def, format!("{vname} INTEGER ::= {lim}")] } else { vec![base_def] }, format!("{TARGET} ::= SEQUENCE {{ {} }}", sug.join(", "))),
                expanded: vec![format!("{TARGET} ::= SEQUENCE {{ {} }}", exp.join(", "))],
                wrong,
                header,
                nontrivial: npost > 0 || base_ext || nadd > 0,
                // (COMPONENTS OF in last position expands correctly)
            }
        }
        // (c) parameterized type
        3 => {
            let p = hname(src, "Param", true);
            let np = 1 + src.pick(3);
            // the first type argument: a builtin type, or (30 %) one that needs linking of its
            // own: a constraint with a value reference, or an instantiation of another template
            let mut arg_helpers: Vec<String> = vec![];
            let mut arg_expanded_helpers: Vec<String> = vec![];
            let arg_kind = if src.chance(30) { 1 + src.pick(2) } else { 0 };
            let (t1s, t1x): (String, String) = match arg_kind {
                1 => {
                    let r = hname(src, "pmax", false);
                    arg_helpers.push(format!("{r} INTEGER ::= 10"));
                    arg_expanded_helpers.push(format!("{r} INTEGER ::= 10"));
                    (format!("INTEGER (0..{r})"), format!("INTEGER (0..{r})"))
                }
                2 => {
                    let b = hname(src, "Bounded", true);
                    arg_helpers.push(format!("{b} {{INTEGER:bn}} ::= INTEGER (0..bn)"));
                    (format!("{b} {{7}}"), "INTEGER (0..7)".to_string())
                }
                _ => {
                    let l = leaf(src);
                    (l.to_string(), l.to_string())
                }
            };
            let t1 = t1s.as_str();
            let v1 = [3i128, 255, 70000][src.pick(3)];
            let t2 = leaf(src);
            // tags on the template's components (half of the cases): the module's TAGS default
            // applies to them in the instantiation exactly as in the type written out
            let (ta, tb, tc) = match src.pick(6) {
                0 => ("[0] ", "[1] ", "[2] "),
                1 => ("[0] EXPLICIT ", "[1] ", "[2] IMPLICIT "),
                2 => ("[APPLICATION 4] ", "[PRIVATE 5] ", "[6] "),
                _ => ("", "", ""),
            };
            // a CHOICE-typed first argument cannot be tagged implicitly
            let ta = if ta.contains("IMPLICIT") { "[0] " } else { ta };
            let (params, tmpl, args, expd) = match np {
                1 => ("Tp".to_string(), format!("a {ta}Tp, b {tb}INTEGER"), t1.to_string(), format!("a {ta}{t1x}, b {tb}INTEGER")),
                2 => ("Tp, INTEGER:vp".to_string(), format!("a {ta}Tp, b {tb}INTEGER (0..vp)"), format!("{t1}, {v1}"), format!("a {ta}{t1x}, b {tb}INTEGER (0..{v1})")),
                _ => (
                    "Tp, INTEGER:vp, Tq".to_string(),
                    format!("a {ta}Tp, b {tb}INTEGER (0..vp), c {tc}SEQUENCE OF Tq"),
                    format!("{t1}, {v1}, {t2}"),
                    format!("a {ta}{t1x}, b {tb}INTEGER (0..{v1}), c {tc}SEQUENCE OF {t2}"),
                ),
            };
            // a tag in front of the template's type: the instance carries it
            let tt = match src.pick(6) {
                0 => "[APPLICATION 3] ",
                1 => "[9] EXPLICIT ",
                _ => "",
            };
            let mut helpers = vec![format!("{p} {{{params}}} ::= {tt}SEQUENCE {{ {tmpl} }}")];
            helpers.extend(arg_helpers);
            // the dummy references are local to the template: a value assignment (and a type)
            // spelled like one of them, but not like the others, must not reach the instance
            let clash = if np >= 2 { src.pick(3) } else { 0 };
            let mut clash_helpers: Vec<String> = vec![];
            if clash == 1 {
                clash_helpers.push("vp INTEGER ::= 99".to_string());
            } else if clash == 2 {
                clash_helpers.push("vp INTEGER ::= 99".to_string());
                clash_helpers.push("Tp ::= OCTET STRING".to_string());
            }
            helpers.extend(clash_helpers.iter().cloned());
            // further instantiations of the same template must not disturb this one
            for k in 0..src.pick(3) {
                let other_args = match np {
                    1 => "NULL".to_string(),
                    2 => format!("NULL, {}", 7 + k),
                    _ => format!("NULL, {}, BOOLEAN", 7 + k),
                };
                helpers.push(format!("Other-Inst{k} ::= {p} {{{other_args}}}"));
            }
            Pair {
                kind: format!("parameterized x{np}{}{}", ["", " (argument constrained by a value reference)", " (argument is an instantiation)"][arg_kind], if ta.is_empty() { "" } else { " (tagged template components)" }) + if tt.is_empty() { "" } else { " (tagged template)" } + ["", " (a value is spelled like a dummy reference)", " (a value and a type are spelled like dummy references)"][clash],
                sugared: arrange(src, helpers, format!("{TARGET} ::= {p} {{{args}}}")),
                expanded: {
                    let mut e = arg_expanded_helpers;
                    e.extend(clash_helpers.iter().cloned());
                    e.push(format!("{TARGET} ::= {tt}SEQUENCE {{ {expd} }}"));
                    e
                },
                // NULL as a type argument is taken for the NULL value: the instantiation stays an alias of the template name
                wrong: if t1 == "NULL" || (np == 3 && t2 == "NULL") { vec![("F-param-null-arg".to_string(), vec![format!("{TARGET} ::= {p}")])] } else { vec![] },
                header,
                nontrivial: np >= 2 || arg_kind > 0,
            }
        }
        // (d) selection type
        4 => {
            let ch = hname(src, "Choice", true);
            let n = 2 + src.pick(3);
            let alts: Vec<(String, &str)> = (0..n).map(|i| (format!("alt{i}"), leaf(src))).collect();
            let k = src.pick(n);
            let ch_def = format!("{ch} ::= CHOICE {{ {} }}", alts.iter().map(|(a, t)| format!("{a} {t}")).collect::<Vec<_>>().join(", "));
            let as_comp = src.chance(50);
            let (sug, exp, whole) = if as_comp {
                (
                    format!("{TARGET} ::= SEQUENCE {{ f {} < {ch}, g NULL }}", alts[k].0),
                    format!("{TARGET} ::= SEQUENCE {{ f {}, g NULL }}", alts[k].1),
                    format!("{TARGET} ::= SEQUENCE {{ f CHOICE {{ {} }}, g NULL }}", alts.iter().map(|(a, t)| format!("{a} {t}")).collect::<Vec<_>>().join(", ")),
                )
            } else {
                (
                    format!("{TARGET} ::= {} < {ch}", alts[k].0),
                    format!("{TARGET} ::= {}", alts[k].1),
                    format!("{TARGET} ::= CHOICE {{ {} }}", alts.iter().map(|(a, t)| format!("{a} {t}")).collect::<Vec<_>>().join(", ")),
                )
            };
            Pair {
                kind: format!("selection alt {k}/{n} comp={as_comp}"),
                sugared: arrange(src, vec![ch_def.clone()], sug),
                expanded: vec![exp],
                wrong: vec![("F-select".to_string(), vec![ch_def, whole])],
                header,
                nontrivial: k > 0,
            }
        }
        // (f) a DEFAULT whose governing type is a reference to a type constrained through a value
        // reference: the literal's Rust type must follow the resolved constraint wherever the
        // names sort
        5 => {
            let lim = [7i128, 255, 70000][src.pick(3)];
            let vname = hname(src, "max-val", false);
            let tname = hname(src, "Bounded", true);
            let dv = src.range(0, lim.min(7));
            let ty_sug = format!("{tname} ::= INTEGER (0..{vname})");
            let ty_exp = format!("{tname} ::= INTEGER (0..{lim})");
            let target = format!("{TARGET} ::= SEQUENCE {{ mm {tname} DEFAULT {dv}, nn BOOLEAN }}");
            Pair {
                kind: "default-on-reference-constrained-by-reference".into(),
                sugared: arrange(src, vec![ty_sug, format!("{vname} INTEGER ::= {lim}")], target.clone()),
                expanded: vec![ty_exp, target],
                wrong: vec![],
                header,
                nontrivial: true,
            }
        }
        // (e) fixed-type class field; the fixed type may carry a constraint, written with a literal
        // or with a value reference (which the expansion resolves)
        // (h) COMPONENTS OF a type that uses COMPONENTS OF itself (always in last position,
        // where the expansion keeps the order), two to four levels, names in any order
        7 => {
            let levels = 2 + src.pick(3);
            let set = src.chance(30);
            let kw = if set { "SET" } else { "SEQUENCE" };
            let mut names: Vec<String> = vec![TARGET.to_string()];
            for l in 1..levels {
                let pre = ["Aa", "Bb", "Yy", "Zz"][src.pick(4)];
                names.push(format!("{pre}-Lvl{l}"));
            }
            let mut own: Vec<Vec<String>> = vec![];
            for l in 0..levels {
                let k = 1 + src.pick(2);
                own.push((0..k).map(|i| format!("c{l}x{i} {}{}", leaf(src), if src.chance(25) { " OPTIONAL" } else { "" })).collect());
            }
            // an inner level may be extensible: only its root components travel on
            let ext_level = if src.chance(30) { 1 + src.pick(levels - 1) } else { 0 };
            let mut helpers = vec![];
            for l in (1..levels).rev() {
                let mut comps = own[l].clone();
                if l + 1 < levels {
                    comps.push(format!("COMPONENTS OF {}", names[l + 1]));
                }
                if l == ext_level {
                    comps.push("...".into());
                    // (additions of its own next to COMPONENTS OF are finding F-compof)
                    if l + 1 == levels {
                        comps.push(format!("x{l} NULL OPTIONAL"));
                    }
                }
                helpers.push(format!("{} ::= {kw} {{ {} }}", names[l], comps.join(", ")));
            }
            if src.chance(50) {
                helpers.reverse();
            }
            let mut sug = own[0].clone();
            sug.push(format!("COMPONENTS OF {}", names[1]));
            let exp: Vec<String> = own.iter().flatten().cloned().collect();
            Pair {
                kind: format!("components-of-chain levels={levels} set={set} ext_level={ext_level} order={}", names[1..].iter().map(|n| &n[..2]).collect::<Vec<_>>().join(">")),
                sugared: arrange(src, helpers, format!("{TARGET} ::= {kw} {{ {} }}", sug.join(", "))),
                expanded: vec![format!("{TARGET} ::= {kw} {{ {} }}", exp.join(", "))],
                wrong: vec![],
                header,
                nontrivial: true,
            }
        }
        // (i) an instance of a parameterized type whose body uses COMPONENTS OF
        8 => {
            let p = hname(src, "Tmpl", true);
            let base = hname(src, "Incl", true);
            let nb = 1 + src.pick(2);
            let base_comps: Vec<String> = (0..nb).map(|i| format!("b{i} {}", leaf(src))).collect();
            // (NULL as an actual parameter is finding F-param-null-arg)
            let arg = match leaf(src) { "NULL" => "BOOLEAN", l => l };
            let lead = if src.chance(50) { format!("lead {}, ", leaf(src)) } else { String::new() };
            let helpers = vec![format!("{p} {{ T }} ::= SEQUENCE {{ {lead}t T, COMPONENTS OF {base} }}"), format!("{base} ::= SEQUENCE {{ {} }}", base_comps.join(", "))];
            Pair {
                kind: format!("parameterized-with-components-of template={} included={}", &p[..2], &base[..2]),
                sugared: arrange(src, helpers, format!("{TARGET} ::= {p} {{ {arg} }}")),
                expanded: vec![format!("{TARGET} ::= SEQUENCE {{ {lead}t {arg}, {} }}", base_comps.join(", "))],
                wrong: vec![],
                header,
                nontrivial: true,
            }
        }
        _ => {
            let lim = [7i128, 255, 70000][src.pick(3)];
            let vname = hname(src, "max-id", false);
            let (t_sug, t_exp, helper): (String, String, Option<String>) = match src.pick(7) {
                0 => ("INTEGER".into(), "INTEGER".into(), None),
                1 => ("BOOLEAN".into(), "BOOLEAN".into(), None),
                2 => ("OBJECT IDENTIFIER".into(), "OBJECT IDENTIFIER".into(), None),
                3 => ("IA5String".into(), "IA5String".into(), None),
                4 => (format!("INTEGER (0..{lim})"), format!("INTEGER (0..{lim})"), None),
                5 => (format!("INTEGER (0..{vname})"), format!("INTEGER (0..{lim})"), Some(format!("{vname} INTEGER ::= {lim}"))),
                _ => (format!("IA5String (SIZE (1..{vname}))"), format!("IA5String (SIZE (1..{lim}))"), Some(format!("{vname} INTEGER ::= {lim}"))),
            };
            let cls = if src.chance(50) { "AA-CLASS" } else { "ZZ-CLASS" };
            let cls_def = format!("{cls} ::= CLASS {{ &id {t_sug} UNIQUE, &Type }} WITH SYNTAX {{ ID &id TYPE &Type }}");
            // positions 3..5: below an anonymous nested type (inline SEQUENCE as a CHOICE
            // alternative, the same one level deeper, SEQUENCE in SEQUENCE)
            let pos = src.pick(6);
            let shape = |t: &str| -> String {
                match pos {
                    0 => format!("{TARGET} ::= {t}"),
                    1 => format!("{TARGET} ::= SEQUENCE {{ f {t}, g NULL }}"),
                    2 => format!("{TARGET} ::= CHOICE {{ f {t}, g NULL }}"),
                    3 => format!("{TARGET} ::= CHOICE {{ attr SEQUENCE {{ f {t}, g NULL }}, flag BOOLEAN }}"),
                    4 => format!("{TARGET} ::= SEQUENCE {{ w CHOICE {{ attr SEQUENCE {{ f {t} }}, flag BOOLEAN }}, g NULL }}"),
                    _ => format!("{TARGET} ::= SEQUENCE {{ inner SEQUENCE {{ f {t}, h BOOLEAN }}, g NULL }}"),
                }
            };
            let (sug, exp) = (shape(&format!("{cls}.&id")), shape(&t_exp));
            let mut helpers = vec![cls_def];
            let with_ref = helper.is_some();
            helpers.extend(helper);
            Pair { kind: format!("class-field pos={pos} constrained_by_reference={with_ref}"), sugared: arrange(src, helpers, sug), expanded: vec![exp], wrong: vec![], header, nontrivial: with_ref || pos >= 3 }
        }
    }
}

/// (failure detail, finding) — None when the pair holds
fn judge(p: &Pair) -> Result<Option<(String, Option<&'static str>)>, String> {
    let exp = compile_target(&p.header, &p.expanded).map_err(|e| format!("expanded side: {e}"))?;
    let sug = match compile_target(&p.header, &p.sugared) {
        Ok(s) => s,
        Err(e) if e.starts_with("target not generated") => {
            return Ok(Some((format!("the expanded form compiles but the sugared form yields no bindings for the target: {e}"), None)));
        }
        Err(e) if e.starts_with("panic") => return Err(e),
        Err(e) => return Ok(Some((format!("the expanded form compiles but the sugared form does not: {e}"), None))),
    };
    if sug == exp {
        return Ok(None);
    }
    let d = exp
        .iter()
        .zip(sug.iter())
        .find(|(a, b)| a != b)
        .map(|(a, b)| format!("\n  expanded: {}\n  sugared : {}", a.chars().take(260).collect::<String>(), b.chars().take(260).collect::<String>()))
        .unwrap_or_else(|| format!("{} vs {} items", exp.len(), sug.len()));
    // does the sugared side equal one of the known wrong expansions?
    for (fid, body) in &p.wrong {
        if let Ok(w) = compile_target(&p.header, body) {
            if w == sug {
                let f: &'static str = match fid.as_str() {
                    "F-compof" => "F-compof",
                    "F-select" => "F-select",
                    "F-valref-chain" => "F-valref-chain",
                    "F-named-number-bound" => "F-named-number-bound",
                    "F-param-null-arg" => "F-param-null-arg",
                    _ => continue,
                };
                return Ok(Some((format!("bindings differ: {d}"), Some(f))));
            }
        }
    }
    Ok(Some((format!("bindings differ: {d}"), None)))
}

pub fn run(tier: Tier, seed: u64, replay: Option<String>) -> i32 {
    let mut ctx = Ctx::new("C09", tier, seed);
    ctx.rule = "pairs (sugared module, hand-expanded module) built from one description: value references (chains of 1..4) and named numbers in value/SIZE constraints, \
                COMPONENTS OF at any position of types with/without extension markers, parameterized types with 1..3 type/value parameters (and 0..2 further instantiations), \
                selection of any alternative as a type or a component, fixed-type class fields; helper names drawn to sort before or after the target's name, helper \
                definitions before or after the target; oracle: the target's bindings (struct/enum, hoisted children, impls, default fns) are token-identical on both sides; \
                non-trivial = >=2 levels of reference, COMPONENTS OF not last or of an extensible type, >=2 parameters, or a non-first alternative; distinct by module texts"
        .into();
    ctx.assumptions = vec![
        "COMPONENTS OF T splices T's root components (not its extension additions) at the position of the notation (X.680 §25.5)".into(),
        "a listed finding is attributed only when the sugared bindings equal the compilation of that finding's specific wrong expansion".into(),
    ];
    let handle = |ctx: &mut Ctx, p: &Pair, r: Result<Option<(String, Option<&'static str>)>, String>| {
        let canon = format!("{}\n{}\n{}", p.header, p.sugared.join("\n"), p.expanded.join("\n"));
        match r {
            Err(e) => ctx.class(&format!("skipped:{}", e.chars().take(40).collect::<String>())),
            Ok(v) => {
                ctx.case(&canon, p.nontrivial);
                ctx.class(&format!("kind:{}", p.kind.split(' ').next().unwrap_or("")));
                if let Some((detail, fid)) = v {
                    let known = fid.map_or(false, |f| ctx.is_known(f));
                    if known || ctx.violations.len() < 4 {
                        ctx.fail(Failure {
                            finding: fid,
                            what: format!("{}: {detail}", p.kind),
                            replay: json!({"kind": "c09", "pair": p, "sources": [{"name": "sugared.asn", "text": module(&p.header, &p.sugared)}, {"name": "expanded.asn", "text": module(&p.header, &p.expanded)}]}),
                        });
                    }
                }
            }
        }
    };
    if let Some(path) = replay {
        let v: Value = serde_json::from_str(&std::fs::read_to_string(&path).expect("replay")).expect("json");
        let p: Pair = serde_json::from_value(v["pair"].clone()).expect("pair");
        let r = judge(&p);
        handle(&mut ctx, &p, r);
        return ctx.finish();
    }
    let mut pairs: Vec<Pair> = vec![];
    for (_p, v) in crate::ev::replay_files("C09") {
        if let Ok(p) = serde_json::from_value::<Pair>(v["pair"].clone()) {
            pairs.push(p);
        }
    }
    let n = tier.pick(40000, 400000);
    let mut drv = Driver::new(seed, 9, 80);
    pairs.extend(drv.draw(n).iter().map(|t| {
        let s = t.current();
        gen_pair(&mut Src::new(&s))
    }));
    if let Some(p) = pairs.iter().find(|p| p.kind.starts_with("components-of")) {
        ctx.sample(json!({"kind": p.kind, "sugared": p.sugared, "expanded": p.expanded}));
    }
    if let Some(p) = pairs.iter().find(|p| p.kind.starts_with("parameterized")) {
        ctx.sample(json!({"kind": p.kind, "sugared": p.sugared, "expanded": p.expanded}));
    }
    let results: Vec<Result<Option<(String, Option<&'static str>)>, String>> = pairs.par_iter().map(judge).collect();
    for (p, r) in pairs.iter().zip(results) {
        handle(&mut ctx, p, r);
    }
    ctx.finish()
}
