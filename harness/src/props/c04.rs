//! C04 — emitted value and size bounds equal the PER-visible effective constraint.
use crate::asn::*;
use crate::comp::{self, Cfg, Outcome};
use crate::ev::{Ctx, Driver, Failure, Tier};
use crate::proj::{self, Attrs, RModule};
use crate::rcon::{self, IntSet, Iv};
use crate::src::Src;
use rayon::prelude::*;
use serde_json::{json, Value};

#[derive(Clone, Copy, Debug, PartialEq, Eq, Hash, serde::Serialize, serde::Deserialize)]
pub enum Host {
    Integer,
    BitString,
    OctetString,
    Ia5,
    SeqOf,
    SetOf,
    /// the other known-multiplier character string types (a SIZE on UTF8String and the other
    /// types that are not known-multiplier is not PER-visible: `Utf8` is kept for old replays only)
    Universal,
    Bmp,
    Numeric,
    Printable,
    Visible,
    Utf8,
}

#[derive(Clone, Copy, Debug, PartialEq, Eq, Hash, serde::Serialize, serde::Deserialize)]
pub enum Place {
    Assignment,
    Component,
    /// `T ::= P (expr)` with `P ::= INTEGER (-1..300)` (values) — serial on a constrained parent
    OnParent,
    /// endpoints spelled as value references
    ValueRefs,
    /// endpoints spelled as named numbers of the INTEGER itself
    NamedNumbers,
    /// `T ::= Nn-Parent (n0..n5)`: named numbers of a *referenced* INTEGER type, while two other
    /// types (sorting before and after) declare the same identifiers with other numbers
    NamedViaRef,
    /// named numbers of an INTEGER written in place as a SEQUENCE component,
    /// `T ::= SEQUENCE { f INTEGER { n0(0), n5(5) } (n0..n5) }`, next to the same decoy types
    NamedOnComponent,
}

#[derive(Clone, Debug, PartialEq, Eq, Hash, serde::Serialize, serde::Deserialize)]
pub struct Case {
    pub host: Host,
    pub place: Place,
    pub cons: Vec<Con>,
    /// size hosts: write the extension marker after the SIZE element, `(SIZE(1..5), ...)`, instead of inside it
    #[serde(default)]
    pub outer_marker: bool,
    /// Place::OnParent only: the constrained reference is the type of a SEQUENCE component,
    /// `T ::= SEQUENCE { f Parent-Int (expr) }`, instead of a type assignment
    #[serde(default)]
    pub ref_component: bool,
    /// size hosts: every operand is a SIZE element of its own, `(SIZE (1) | SIZE (5))`, instead
    /// of one SIZE around the whole element set (the same set of sizes)
    #[serde(default)]
    pub split_size: bool,
}

const PARENT_LO: i128 = -1;
const PARENT_HI: i128 = 300;

fn value_operands() -> Vec<Atom> {
    let fin: [i128; 5] = [-1, 0, 1, 5, 300];
    let mut v: Vec<Atom> = fin.iter().map(|x| Atom::Single(End::Int(*x))).collect();
    for (i, a) in fin.iter().enumerate() {
        for b in &fin[i + 1..] {
            v.push(Atom::Range(End::Int(*a), false, End::Int(*b), false));
        }
    }
    for a in fin {
        v.push(Atom::Range(End::Min, false, End::Int(a), false));
        v.push(Atom::Range(End::Int(a), false, End::Max, false));
    }
    v.push(Atom::Range(End::Min, false, End::Max, false));
    // contained subtypes (X.680 51.3): the values of another constrained INTEGER type
    v.push(Atom::Contained("Parent-Int".into(), false));
    v.push(Atom::Contained("Narrow-Int".into(), true));
    v
}

fn has_contained(c: &Case) -> bool {
    let is = |a: &Atom| matches!(a, Atom::Contained(..));
    c.cons.iter().any(|k| {
        k.root.all_except.as_ref().map_or(false, is) || k.root.unions.iter().any(|u| u.iter().any(|x| is(&x.atom) || x.except.as_ref().map_or(false, is)))
    })
}

fn size_operands() -> Vec<Atom> {
    let fin: [i128; 4] = [0, 1, 5, 300];
    let mut v: Vec<Atom> = fin.iter().map(|x| Atom::Single(End::Int(*x))).collect();
    for (i, a) in fin.iter().enumerate() {
        for b in &fin[i + 1..] {
            v.push(Atom::Range(End::Int(*a), false, End::Int(*b), false));
        }
    }
    for a in fin {
        v.push(Atom::Range(End::Int(a), false, End::Max, false));
    }
    v
}

fn ie(a: &Atom) -> IElem {
    IElem { atom: a.clone(), except: None }
}
fn iex(a: &Atom, x: &Atom) -> IElem {
    IElem { atom: a.clone(), except: Some(x.clone()) }
}
fn es(unions: Vec<Vec<IElem>>) -> ESet {
    ESet { all_except: None, unions, words: false }
}

/// all element sets with `n` operands (1..=3) over `ops`
fn esets(ops: &[Atom], n: usize) -> Vec<ESet> {
    let mut out = vec![];
    match n {
        1 => {
            for a in ops {
                out.push(es(vec![vec![ie(a)]]));
                out.push(ESet { all_except: Some(a.clone()), unions: vec![], words: false });
            }
        }
        2 => {
            for a in ops {
                for b in ops {
                    out.push(es(vec![vec![ie(a)], vec![ie(b)]]));
                    out.push(es(vec![vec![ie(a), ie(b)]]));
                    out.push(es(vec![vec![iex(a, b)]]));
                }
            }
        }
        _ => {
            for a in ops {
                for b in ops {
                    for c in ops {
                        out.push(es(vec![vec![ie(a)], vec![ie(b)], vec![ie(c)]]));
                        out.push(es(vec![vec![ie(a)], vec![ie(b), ie(c)]]));
                        out.push(es(vec![vec![ie(a), ie(b)], vec![ie(c)]]));
                        out.push(es(vec![vec![ie(a), ie(b), ie(c)]]));
                        out.push(es(vec![vec![iex(a, b)], vec![ie(c)]]));
                        out.push(es(vec![vec![ie(a)], vec![iex(b, c)]]));
                        out.push(es(vec![vec![iex(a, b), ie(c)]]));
                        out.push(es(vec![vec![ie(a), iex(b, c)]]));
                    }
                }
            }
        }
    }
    out
}

fn shape(e: &ESet) -> String {
    if e.all_except.is_some() {
        return "ALL EXCEPT a".into();
    }
    e.unions
        .iter()
        .map(|i| {
            i.iter()
                .map(|x| if x.except.is_some() { "a EXCEPT b" } else { "a" })
                .collect::<Vec<_>>()
                .join(" ^ ")
        })
        .collect::<Vec<_>>()
        .join(" | ")
}

fn cons_text(cons: &[Con]) -> String {
    let mut t = vec![];
    for c in cons {
        con_toks(c, &mut t);
    }
    t.join(" ")
}

fn split_size(cons: &[Con]) -> Vec<Con> {
    fn sz(a: &Atom) -> Atom {
        Atom::Size(Box::new(Con { root: ESet { all_except: None, unions: vec![vec![IElem { atom: a.clone(), except: None }]], words: false }, ext: false, add: None }))
    }
    fn eset(e: &ESet) -> ESet {
        ESet {
            all_except: e.all_except.as_ref().map(sz),
            unions: e.unions.iter().map(|i| i.iter().map(|x| IElem { atom: sz(&x.atom), except: x.except.as_ref().map(sz) }).collect()).collect(),
            words: e.words,
        }
    }
    cons.iter().map(|c| Con { root: eset(&c.root), ext: c.ext, add: c.add.as_ref().map(eset) }).collect()
}

fn wrap_size(cons: &[Con], outer_marker: bool) -> Vec<Con> {
    cons.iter()
        .map(|c| {
            if outer_marker && c.ext && c.add.is_none() {
                Con { ext: true, ..Con::size(Con { ext: false, ..c.clone() }) }
            } else {
                Con::size(c.clone())
            }
        })
        .collect()
}

/// rewrite integer endpoints as references (`v5`, `vm1`) or named numbers (`n5`)
fn spell_refs(cons: &[Con], prefix: &str) -> Vec<Con> {
    fn end(e: &End, p: &str) -> End {
        match e {
            End::Int(v) => End::Ref(if *v < 0 { format!("{p}m{}", -v) } else { format!("{p}{v}") }),
            o => o.clone(),
        }
    }
    fn atom(a: &Atom, p: &str) -> Atom {
        match a {
            Atom::Single(e) => Atom::Single(end(e, p)),
            Atom::Range(l, lo, h, ho) => Atom::Range(end(l, p), *lo, end(h, p), *ho),
            o => o.clone(),
        }
    }
    fn eset(e: &ESet, p: &str) -> ESet {
        ESet {
            all_except: e.all_except.as_ref().map(|a| atom(a, p)),
            unions: e
                .unions
                .iter()
                .map(|i| {
                    i.iter()
                        .map(|x| IElem {
                            atom: atom(&x.atom, p),
                            except: x.except.as_ref().map(|a| atom(a, p)),
                        })
                        .collect()
                })
                .collect(),
            words: e.words,
        }
    }
    cons.iter()
        .map(|c| Con {
            root: eset(&c.root, prefix),
            ext: c.ext,
            add: c.add.as_ref().map(|a| eset(a, prefix)),
        })
        .collect()
}

fn size_text(c: &Case) -> String {
    // (ValueRefs: the ends of the SIZE ranges are spelled as value references)
    let spelled;
    let cons = if c.place == Place::ValueRefs {
        spelled = spell_refs(&c.cons, "v");
        &spelled
    } else {
        &c.cons
    };
    if c.split_size {
        cons_text(&split_size(cons))
    } else {
        cons_text(&wrap_size(cons, c.outer_marker))
    }
}

fn case_text(i: usize, c: &Case) -> String {
    let (cons_s, base) = match c.host {
        Host::Integer => (cons_text(&c.cons), "INTEGER"),
        Host::BitString => (size_text(c), "BIT STRING"),
        Host::OctetString => (size_text(c), "OCTET STRING"),
        Host::Ia5 => (size_text(c), "IA5String"),
        Host::Universal => (size_text(c), "UniversalString"),
        Host::Bmp => (size_text(c), "BMPString"),
        Host::Numeric => (size_text(c), "NumericString"),
        Host::Printable => (size_text(c), "PrintableString"),
        Host::Visible => (size_text(c), "VisibleString"),
        Host::Utf8 => (size_text(c), "UTF8String"),
        Host::SeqOf | Host::SetOf => (size_text(c), ""),
    };
    let ty = match (c.host, c.place) {
        (Host::SeqOf, _) => format!("SEQUENCE {cons_s} OF BOOLEAN"),
        (Host::SetOf, _) => format!("SET {cons_s} OF BOOLEAN"),
        (Host::Integer, Place::OnParent) => format!("Parent-Int {cons_s}"),
        (Host::Integer, Place::ValueRefs) => format!("INTEGER {}", cons_text(&spell_refs(&c.cons, "v"))),
        (Host::Integer, Place::NamedViaRef) => format!("Nn-Parent {}", cons_text(&spell_refs(&c.cons, "n"))),
        (Host::Integer, Place::NamedNumbers | Place::NamedOnComponent) => format!(
            "INTEGER {{ nm1(-1), n0(0), n1(1), n5(5), n300(300) }} {}",
            cons_text(&spell_refs(&c.cons, "n"))
        ),
        _ => format!("{base} {cons_s}"),
    };
    match c.place {
        Place::Component | Place::NamedOnComponent => format!("T{i} ::= SEQUENCE {{ f {ty} }}"),
        Place::OnParent if c.ref_component => format!("T{i} ::= SEQUENCE {{ f {ty} }}"),
        _ => format!("T{i} ::= {ty}"),
    }
}

const PRELUDE: &str = "Aa-Decoy ::= INTEGER { nm1(7), n0(8), n1(9), n5(10), n300(11) }\nNn-Parent ::= INTEGER { nm1(-1), n0(0), n1(1), n5(5), n300(300) }\nZz-Decoy ::= INTEGER { nm1(17), n0(18), n1(19), n5(20), n300(21) }\nParent-Int ::= INTEGER (-1..300)\nNarrow-Int ::= INTEGER (0..5)\nvm1 INTEGER ::= -1\nv0 INTEGER ::= 0\nv1 INTEGER ::= 1\nv5 INTEGER ::= 5\nv300 INTEGER ::= 300\n";

fn module_text(cases: &[Case]) -> String {
    let mut s = String::from("Con-Mod DEFINITIONS AUTOMATIC TAGS ::= BEGIN\n");
    s.push_str(PRELUDE);
    for (i, c) in cases.iter().enumerate() {
        s.push_str(&case_text(i, c));
        s.push('\n');
    }
    s.push_str("END\n");
    s
}

fn reference(c: &Case) -> Option<rcon::Effective> {
    let values = |n: &str| -> Option<i128> {
        let d = n.trim_start_matches(|ch: char| ch == 'v' || ch == 'n');
        if let Some(m) = d.strip_prefix('m') {
            m.parse::<i128>().ok().map(|v| -v)
        } else {
            d.parse().ok()
        }
    };
    let types = |n: &str| -> Option<(IntSet, Option<Iv>)> {
        match n {
            "Parent-Int" => Some((IntSet::range(Some(PARENT_LO), Some(PARENT_HI)), Some(Iv { lo: Some(PARENT_LO), hi: Some(PARENT_HI) }))),
            "Narrow-Int" => Some((IntSet::range(Some(0), Some(5)), Some(Iv { lo: Some(0), hi: Some(5) }))),
            _ => None,
        }
    };
    let size = c.host != Host::Integer;
    let (pe, pv) = if size {
        (IntSet::range(Some(0), None), None)
    } else if c.place == Place::OnParent {
        (
            IntSet::range(Some(PARENT_LO), Some(PARENT_HI)),
            Some(Iv { lo: Some(PARENT_LO), hi: Some(PARENT_HI) }),
        )
    } else {
        (IntSet::all(), None)
    };
    rcon::effective(&c.cons, pe, pv, &values, &types, size)
}

#[derive(Clone, Debug, PartialEq, Eq)]
pub struct Emitted {
    pub bound: Iv,
    pub ext: bool,
    pub how: String,
}

fn observe(m: &RModule, i: usize, c: &Case) -> Result<Emitted, String> {
    let name = format!("T{i}");
    let s = m.find_struct(&name).ok_or_else(|| format!("no struct {name}"))?;
    let size = c.host != Host::Integer;
    let from_attrs = |a: &Attrs| -> Result<Emitted, String> {
        let slot = if size { &a.size } else { &a.value };
        let other = if size { &a.value } else { &a.size };
        if other.is_some() {
            return Err(format!("unexpected {} annotation", if size { "value" } else { "size" }));
        }
        match slot {
            Some((r, ext)) => Ok(Emitted {
                bound: rcon::parse_range_attr(r).ok_or_else(|| format!("unparsable range {r}"))?,
                ext: *ext,
                how: format!("{}({r}{})", if size { "size" } else { "value" }, if *ext { ", extensible" } else { "" }),
            }),
            None => Ok(Emitted {
                bound: Iv { lo: if size { Some(0) } else { None }, hi: None },
                ext: false,
                how: "no annotation".into(),
            }),
        }
    };
    match c.place {
        Place::Component | Place::NamedOnComponent => {
            let f = s.fields.first().ok_or("no field")?;
            from_attrs(&f.attrs)
        }
        Place::OnParent if c.ref_component => {
            let f = s.fields.first().ok_or("no field")?;
            from_attrs(&f.attrs)
        }
        _ => {
            // Fixed{Bit,Octet}String<n> for assignments
            let ty = s.fields.first().map(|f| f.ty.clone()).unwrap_or_default();
            for w in ["FixedBitString<", "FixedOctetString<"] {
                if let Some(rest) = ty.strip_prefix(w) {
                    let n: i128 = rest
                        .trim_end_matches('>')
                        .trim_end_matches("usize")
                        .parse()
                        .map_err(|_| format!("unparsable {ty}"))?;
                    if s.attrs.size.is_some() {
                        return Err("Fixed type together with a size annotation".into());
                    }
                    return Ok(Emitted {
                        bound: Iv { lo: Some(n), hi: Some(n) },
                        ext: false,
                        how: ty.clone(),
                    });
                }
            }
            from_attrs(&s.attrs)
        }
    }
}

fn iv_set(i: Iv) -> IntSet {
    IntSet(vec![i])
}

/// None = holds; Some((clause, detail))
fn judge(c: &Case, r: &rcon::Effective, e: &Emitted) -> Option<(&'static str, String)> {
    // a constrained reference is rendered as a delegate newtype around the parent; rasn
    // intersects the delegate's own annotation with the parent's (checked against rasn 0.27:
    // `..=-1` on a `-1..=300` parent encodes like `-1..=-1`), so the annotation is judged
    // after intersecting it with the parent's bound
    let mut e = e.clone();
    if c.place == Place::OnParent {
        let p = IntSet::range(Some(PARENT_LO), Some(PARENT_HI));
        if let Some(h) = iv_set(e.bound).intersect(&p).hull() {
            e.bound = h;
        }
    }
    let e = &e;
    let emitted = iv_set(e.bound);
    // sound: never excludes a permitted value
    if !emitted.contains_set(&r.exact) {
        return Some(("sound", format!("emitted {} excludes permitted values; exact set {:?}", e.how, r.exact.0)));
    }
    // exact: equals the PER-visible effective constraint (compositional reading, or the hull
    // of the permitted set with EXCEPT ignored — both readings of X.691 §10.3 are accepted)
    let size = c.host != Host::Integer;
    let unconstrained = Iv { lo: if size { Some(0) } else { None }, hi: None };
    let comp = r.visible.unwrap_or(unconstrained);
    let comp = if size { Iv { lo: Some(comp.lo.unwrap_or(0).max(0)), hi: comp.hi } } else { comp };
    let hull = r.exact_no_except.hull().unwrap_or(unconstrained);
    if e.bound != comp && e.bound != hull {
        return Some((
            "exact",
            format!("emitted {} but the PER-visible effective constraint is {:?}..{:?} (hull of permitted set {:?}..{:?})", e.how, comp.lo, comp.hi, hull.lo, hull.hi),
        ));
    }
    // ext: only the two unambiguous directions
    if !r.ext_any && e.ext {
        return Some(("ext", format!("emitted {} is extensible but no constraint carries a marker", e.how)));
    }
    if r.ext_last && !e.ext {
        // an unconstrained emission cannot carry the flag; count as violation only if a bound was emitted
        if e.how != "no annotation" {
            return Some(("ext", format!("emitted {} is not extensible but the outermost constraint carries a marker", e.how)));
        }
    }
    None
}

// --- model of the pinned folder's *grouping*: operators are applied right to left without
// precedence, and an EXCEPT discards everything to its right (including the extension
// marker, which the lexer attaches to the last element). Used only as the deviation shape
// of findings F-prec and F-except-ext.

#[derive(Clone, Copy, Debug, PartialEq)]
enum Op {
    Union,
    Inter,
    Except,
}

#[derive(Clone, Copy, Debug, PartialEq)]
enum MVal {
    Single(i128),
    Range(Option<i128>, Option<i128>),
    /// not PER-visible / nothing
    None,
}

fn seq_of(e: &ESet) -> Option<(Vec<Atom>, Vec<Op>)> {
    if e.all_except.is_some() {
        return None;
    }
    let mut atoms = vec![];
    let mut ops = vec![];
    for (i, inter) in e.unions.iter().enumerate() {
        if i > 0 {
            ops.push(Op::Union);
        }
        for (j, ie) in inter.iter().enumerate() {
            if j > 0 {
                ops.push(Op::Inter);
            }
            atoms.push(ie.atom.clone());
            if let Some(x) = &ie.except {
                ops.push(Op::Except);
                atoms.push(x.clone());
            }
        }
    }
    Some((atoms, ops))
}

fn mval(a: &Atom, size: bool, parent: Option<(i128, i128)>) -> MVal {
    mval_v(a, size, parent, false)
}

/// `resolved`: a contained subtype counts with the bound of the type it names (what happens
/// when the constraint also holds a value reference: linking then resolves every reference)
fn mval_v(a: &Atom, size: bool, parent: Option<(i128, i128)>, resolved: bool) -> MVal {
    if let (true, Atom::Contained(n, _)) = (resolved, a) {
        return match n.as_str() {
            "Parent-Int" => MVal::Range(Some(PARENT_LO), Some(PARENT_HI)),
            "Narrow-Int" => MVal::Range(Some(0), Some(5)),
            _ => MVal::None,
        };
    }
    let end = |e: &End, lo: bool| -> Option<i128> {
        match e {
            End::Int(v) => Some(*v),
            End::Min => {
                if size {
                    Some(0)
                } else {
                    let _ = lo;
                    None
                }
            }
            End::Max => None,
            End::Ref(r) => {
                let d = r.trim_start_matches(|ch: char| ch == 'v' || ch == 'n');
                if let Some(m) = d.strip_prefix('m') {
                    m.parse::<i128>().ok().map(|v| -v)
                } else {
                    d.parse().ok()
                }
            }
            End::Str(_) => None,
        }
    };
    let _ = parent;
    match a {
        Atom::Single(e) => match end(e, true) {
            Some(v) => MVal::Single(v),
            None => MVal::None,
        },
        Atom::Range(l, _, h, _) => MVal::Range(end(l, true), end(h, false)),
        _ => MVal::None,
    }
}

fn m_fold(vals: &[MVal], ops: &[Op]) -> Option<MVal> {
    if vals.len() == 1 {
        return Some(vals[0]);
    }
    let first = vals[0];
    match ops[0] {
        Op::Except => Some(first),
        Op::Inter => {
            let rest = m_fold(&vals[1..], &ops[1..])?;
            Some(match (first, rest) {
                (MVal::Single(a), MVal::Single(b)) => {
                    if a == b {
                        MVal::Single(a)
                    } else {
                        return None; // the folder reports an error (warning): outside the premise
                    }
                }
                (MVal::Single(v), MVal::Range(..)) | (MVal::Range(..), MVal::Single(v)) => MVal::Single(v),
                (MVal::Range(l1, h1), MVal::Range(l2, h2)) => {
                    let lo = match (l1, l2) {
                        (Some(a), Some(b)) => Some(a.max(b)),
                        (a, b) => a.or(b),
                    };
                    let hi = match (h1, h2) {
                        (Some(a), Some(b)) => Some(a.min(b)),
                        (a, b) => a.or(b),
                    };
                    MVal::Range(lo, hi)
                }
                (a, MVal::None) => a,
                (MVal::None, b) => b,
            })
        }
        Op::Union => {
            let rest = m_fold(&vals[1..], &ops[1..])?;
            let b = |v: MVal| match v {
                MVal::Single(x) => Some((Some(x), Some(x))),
                MVal::Range(l, h) => Some((l, h)),
                MVal::None => None,
            };
            Some(match (b(first), b(rest)) {
                (Some((l1, h1)), Some((l2, h2))) => MVal::Range(
                    match (l1, l2) {
                        (Some(a), Some(b)) => Some(a.min(b)),
                        _ => None,
                    },
                    match (h1, h2) {
                        (Some(a), Some(b)) => Some(a.max(b)),
                        _ => None,
                    },
                ),
                _ => MVal::None,
            })
        }
    }
}

/// does the marker, which the lexer attaches to the last element, survive the fold? It goes
/// with its element: dropped when that element ends up in a discarded operand (right of an
/// EXCEPT, or in a union that a contained subtype makes invisible)
fn m_carry(vals: &[MVal], ops: &[Op]) -> bool {
    if vals.len() == 1 {
        return !matches!(vals[0], MVal::None);
    }
    match ops[0] {
        Op::Except => false,
        Op::Inter => {
            // the rest survives as long as it folds to something; if it folds to nothing the
            // first operand is kept without the marker
            match m_fold(&vals[1..], &ops[1..]) {
                Some(MVal::None) | None => false,
                Some(_) => m_carry(&vals[1..], &ops[1..]),
            }
        }
        Op::Union => {
            let rest = m_fold(&vals[1..], &ops[1..]);
            if matches!(vals[0], MVal::None) || matches!(rest, Some(MVal::None) | None) {
                false
            } else {
                m_carry(&vals[1..], &ops[1..])
            }
        }
    }
}

/// what the right-to-left grouping yields for a whole serial constraint list:
/// (bound, extensible); None when the model does not apply
fn grouping_model(c: &Case) -> Option<(Iv, bool)> {
    grouping_model_v(c, true)
}

/// `last_rule`: an element set whose last element is a contained subtype is not counted at all
/// (what happens with literal endpoints); without it the contained subtype is just left out
/// (what happens when the endpoints are references: linking rebuilds the element set)
fn grouping_model_v(c: &Case, last_rule: bool) -> Option<(Iv, bool)> {
    grouping_model_w(c, last_rule, false)
}

fn grouping_model_w(c: &Case, last_rule: bool, resolved: bool) -> Option<(Iv, bool)> {
    let size = c.host != Host::Integer;
    let mut lo: Option<i128> = if size { Some(0) } else { None };
    let mut hi: Option<i128> = None;
    let mut ext = false;
    for k in &c.cons {
        // a marker written after the SIZE element, `(SIZE (..), ...)`, is outside the element set
        // that an EXCEPT swallows: it survives
        let outer = c.outer_marker && size && k.ext && k.add.is_none();
        let (v, e) = match seq_of(&k.root) {
            None => (MVal::None, outer), // ALL EXCEPT: nothing visible, inner marker swallowed
            Some((atoms, ops)) => {
                // a resolved contained subtype counts with its bound only when it is the whole
                // element set; inside a set operation the fold leaves it out either way
                let vals: Vec<MVal> = atoms.iter().map(|a| mval_v(a, size, None, resolved && atoms.len() == 1)).collect();
                let has_except = ops.contains(&Op::Except);
                let last_rule = last_rule && !resolved;
                // an element set counts as PER-visible when its *last* element does
                // (`o.operant.per_visible() || o.operant.per_visible()` in per_visible.rs):
                // a contained subtype at the end hides the whole constraint, marker included
                if last_rule && atoms.len() > 1 && matches!(atoms.last(), Some(Atom::Contained(..))) {
                    (MVal::None, outer)
                } else {
                    // the marker rides on the last element: it goes when that element is dropped
                    let last_dropped = matches!(atoms.last(), Some(Atom::Contained(..)));
                    let has_contained_atom = atoms.iter().any(|a| matches!(a, Atom::Contained(..)));
                    // (the contained-subtype arm of the conversion throws the element's marker away)
                    let kept = if has_contained_atom { !last_dropped && m_carry(&vals, &ops) } else { !has_except && !last_dropped };
                    (m_fold(&vals, &ops)?, outer || (k.ext && kept))
                }
            }
        };
        let (l, h) = match v {
            MVal::Single(x) => (Some(x), Some(x)),
            MVal::Range(l, h) => (l, h),
            MVal::None => (None, None),
        };
        let had_bound = l.is_some() || h.is_some();
        lo = match (lo, l) {
            (Some(a), Some(b)) => Some(a.max(b)),
            (a, b) => a.or(b),
        };
        hi = match (hi, h) {
            (Some(a), Some(b)) => Some(a.min(b)),
            (a, b) => a.or(b),
        };
        let _ = had_bound;
        ext |= e;
    }
    Some((Iv { lo, hi }, ext))
}

fn mixed_operators(c: &Case) -> bool {
    c.cons.iter().any(|k| match seq_of(&k.root) {
        Some((_, ops)) => ops.len() >= 2 && (ops.iter().any(|o| *o != ops[0]) || ops.contains(&Op::Except)),
        None => false,
    })
}

fn has_except_with_marker(c: &Case) -> bool {
    c.cons.iter().any(|k| {
        k.ext
            && (k.root.all_except.is_some()
                || k.root.unions.iter().any(|u| u.iter().any(|x| x.except.is_some())))
    })
}

fn classify(c: &Case, _r: &rcon::Effective, e: &Emitted, clause: &str) -> Option<&'static str> {
    let model = grouping_model(c);
    // F-except-ext: the marker after an EXCEPT clause is lost; everything else as the reference says
    if clause == "ext" && has_except_with_marker(c) && !e.ext {
        if let Some((b, x)) = model {
            if b == e.bound && x == e.ext {
                return Some("F-except-ext");
            }
        }
    }
    // F-contained-ignored: a contained subtype is never resolved; it counts as "not PER-visible"
    // (dropped from an intersection, a union with it is unconstrained)
    // (a marker that rides on a dropped contained subtype goes with it: clause "ext")
    if has_contained(c) && !mixed_operators(c) && (clause == "exact" || clause == "ext") {
        for m in [model, grouping_model_v(c, false), grouping_model_w(c, false, true)] {
            if let Some((b, x)) = m {
                if b == e.bound && (x == e.ext || e.how == "no annotation") {
                    return Some("F-contained-ignored");
                }
            }
        }
    }
    // F-prec: set operators grouped right to left without precedence
    // (without an emitted bound there is nowhere to put `extensible`: only the bound is compared)
    if mixed_operators(c) {
        let variants = if has_contained(c) { vec![model, grouping_model_v(c, false), grouping_model_w(c, false, true)] } else { vec![model] };
        for m in variants {
            if let Some((b, x)) = m {
                if b == e.bound && (x == e.ext || e.how == "no annotation") {
                    return Some("F-prec");
                }
            }
        }
    }
    None
}

fn nontrivial(c: &Case) -> bool {
    let ops: usize = c.cons.iter().map(|k| k.root.unions.iter().map(|u| u.iter().map(|x| 1 + x.except.is_some() as usize).sum::<usize>()).sum::<usize>()).sum();
    ops >= 2 || c.cons.len() >= 2 || matches!(c.place, Place::ValueRefs | Place::NamedNumbers | Place::NamedViaRef | Place::NamedOnComponent | Place::OnParent)
}

fn run_cases(ctx: &mut Ctx, cases: Vec<Case>, stats: &mut std::collections::BTreeMap<String, (u64, Vec<String>)>) {
    let chunks: Vec<&[Case]> = cases.chunks(500).collect();
    type R = Vec<(Case, String, Result<(rcon::Effective, Emitted), String>)>;
    let results: Vec<Result<R, (String, String)>> = chunks
        .par_iter()
        .map(|ch| {
            let text = module_text(ch);
            let c = match comp::compile_rasn1(&text, &Cfg::default()) {
                Outcome::Ok(c) => c,
                Outcome::Err(e) => return Err((text, format!("Err: {e}"))),
                Outcome::Panic(p) => return Err((text, format!("panic: {p}"))),
            };
            let mods = proj::project(&c.generated).map_err(|e| (text.clone(), e))?;
            let m = mods.first().ok_or((text.clone(), "no module".to_string()))?;
            let mut out = vec![];
            for (i, case) in ch.iter().enumerate() {
                let line = case_text(i, case);
                // definitions reported by a warning are outside the premise
                let warned = c.warnings.iter().any(|w| w.contains(&format!("T{i}:")) || w.contains(&format!("T{i} ")) || w.ends_with(&format!("T{i}")));
                let r = if warned {
                    Err("warned".to_string())
                } else {
                    match reference(case) {
                        None => Err("no-reference".into()),
                        Some(r) if r.exact.is_empty() || r.empty_operand => Err("empty-set".into()),
                        // a definition that was not generated is C10's business (accounting)
                        Some(_) if m.find_struct(&format!("T{i}")).is_none() => Err("not-generated".into()),
                        Some(r) => observe(m, i, case).map(|e| (r, e)),
                    }
                };
                out.push((case.clone(), line, r));
            }
            Ok(out)
        })
        .collect();
    for res in results {
        match res {
            Err((text, e)) => {
                ctx.case(&text, true);
                ctx.fail(Failure {
                    finding: None,
                    what: format!("module of valid constrained types did not compile: {e}"),
                    replay: json!({"kind": "c04-module", "sources": [{"name": "con.asn", "text": text}], "observed": e}),
                });
            }
            Ok(v) => {
                for (case, line, r) in v {
                    match r {
                        Err(why) if why == "warned" || why == "no-reference" || why == "empty-set" || why == "not-generated" => {
                            ctx.class(&format!("skipped:{why}"));
                        }
                        Err(why) => {
                            ctx.case(&line, nontrivial(&case));
                            if case.split_size {
                                ctx.class("size-elements-joined-by-set-operators");
                            }
                            // F-size-setop-kind: SIZE elements joined by a set operator come out as a *value* annotation
                            let has_op = case.cons.iter().any(|k| k.root.all_except.is_some() || k.root.unions.len() > 1 || k.root.unions.iter().any(|u| u.len() > 1 || u.iter().any(|x| x.except.is_some())));
                            let fid = if case.split_size && has_op && why.contains("unexpected value annotation") { Some("F-size-setop-kind") } else { None };
                            ctx.fail(Failure {
                                finding: fid,
                                what: format!("cannot observe {line}: {why}"),
                                replay: case_payload(&case, &line, &why),
                            });
                        }
                        Ok((r, e)) => {
                            if r.exact.is_empty() {
                                ctx.class("skipped:empty-set");
                                continue;
                            }
                            ctx.case(&line, nontrivial(&case));
                            ctx.class(&format!("host:{:?}", case.host));
                            ctx.class(&format!("place:{:?}", case.place));
                            if has_contained(&case) {
                                ctx.class("contained-subtype-operand");
                            }
                            if case.split_size {
                                ctx.class("size-elements-joined-by-set-operators");
                            }
                            if let Some((clause, detail)) = judge(&case, &r, &e) {
                                let sig = format!("{clause} | {:?} | {}", case.place, case.cons.iter().map(|k| shape(&k.root)).collect::<Vec<_>>().join(" )( "));
                                let ent = stats.entry(sig).or_insert((0, vec![]));
                                ent.0 += 1;
                                if ent.1.len() < 4 {
                                    ent.1.push(format!("{line}  => {}", e.how));
                                }
                                let fid = classify(&case, &r, &e, clause);
                                let known = fid.map_or(false, |f| ctx.is_known(f));
                                if known || ctx.violations.len() < 4 {
                                    ctx.fail(Failure {
                                        finding: fid,
                                        what: format!("{clause}: {line}: {detail}"),
                                        replay: case_payload(&case, &line, &detail),
                                    });
                                } else {
                                    ctx.class("further_failures_not_written");
                                }
                            }
                        }
                    }
                }
            }
        }
    }
}

fn case_payload(c: &Case, line: &str, observed: &str) -> Value {
    json!({"kind": "c04", "case_json": serde_json::to_string(c).unwrap_or_default(), "sources": [{"name": "con.asn", "text": format!("Con-Mod DEFINITIONS AUTOMATIC TAGS ::= BEGIN\n{PRELUDE}{}\nEND\n", line.replacen("T", "T", 1))}], "observed": observed})
}

fn with_ext(e: ESet, ext: bool) -> Con {
    Con { root: e, ext, add: None }
}

fn random_case(src: &mut Src) -> Case {
    let host = [Host::Integer, Host::Integer, Host::Integer, Host::OctetString, Host::SeqOf, Host::Ia5, Host::BitString, Host::SetOf, Host::Universal, Host::Bmp, Host::Numeric, Host::Printable, Host::Visible][src.pick(13)];
    let ops = if host == Host::Integer { value_operands() } else { size_operands() };
    let nser = 1 + src.pick(3);
    let mut cons = vec![];
    for _ in 0..nser {
        let nun = 1 + src.pick(3);
        let mut unions = vec![];
        for _ in 0..nun {
            let nin = 1 + src.pick(2);
            let mut inter = vec![];
            for _ in 0..nin {
                let a = ops[src.pick(ops.len())].clone();
                let x = if src.chance(20) { Some(ops[src.pick(ops.len())].clone()) } else { None };
                inter.push(IElem { atom: a, except: x });
            }
            unions.push(inter);
        }
        cons.push(Con { root: ESet { all_except: None, unions, words: src.chance(20) }, ext: src.chance(25), add: None });
    }
    let place = if host == Host::Integer {
        [Place::Assignment, Place::Component, Place::OnParent, Place::ValueRefs, Place::NamedNumbers, Place::NamedViaRef, Place::NamedOnComponent][src.pick(7)]
    } else {
        [Place::Assignment, Place::Component, Place::ValueRefs][src.pick(3)]
    };
    let outer_marker = host != Host::Integer && src.chance(30);
    let ref_component = place == Place::OnParent && src.chance(50);
    // (SIZE elements of their own only in expressions with at most one operator: what larger
    // ones do is the listed finding F-size-setop-kind tangled with F-prec)
    let n_ops: usize = cons.iter().map(|k: &Con| k.root.unions.iter().map(|u| u.iter().map(|x| 1 + x.except.is_some() as usize).sum::<usize>()).sum::<usize>()).sum();
    let split_size = host != Host::Integer && !outer_marker && cons.len() == 1 && n_ops <= 2 && src.chance(40);
    Case { host, place, cons, outer_marker, ref_component, split_size }
}


// ---------------------------------------------------------------------------------------
// Bounds on components that reach a type as *copies*: through COMPONENTS OF and through a
// fixed-type class field. The reference is the same component with literal bounds; the
// including types are named so that they sort before and after the type they copy from, and
// some have a reference of their own and some have none.

fn copied_text(hi: i128, lo: i128, top: i128, names: &(&str, &str, &str)) -> String {
    let (base, before, after) = names;
    let cls = format!("{}-CLS", base.to_uppercase());
    format!(
        "Cp-Mod DEFINITIONS AUTOMATIC TAGS ::= BEGIN\nhi INTEGER ::= {hi}\nlo INTEGER ::= {lo}\nNum ::= INTEGER {{ top({top}), low({lo}) }}\n\
{base} ::= SEQUENCE {{ n INTEGER (0..hi), s OCTET STRING (SIZE(lo..hi)), k INTEGER {{ top({top}) }} (lo..top), m Num (low..top), l BIT STRING (SIZE(hi, ...)), q IA5String (SIZE(lo..hi)) }}\n\
{base}-Set ::= SET {{ n INTEGER (0..hi), s OCTET STRING (SIZE(lo..hi)) }}\n\
{before} ::= SEQUENCE {{ COMPONENTS OF {base}, flag BOOLEAN }}\n\
{after} ::= SEQUENCE {{ flag BOOLEAN, COMPONENTS OF {base} }}\n\
{before}-Own ::= SEQUENCE {{ COMPONENTS OF {base}, own INTEGER (lo..hi) }}\n\
{after}-Own ::= SEQUENCE {{ own INTEGER (lo..hi), COMPONENTS OF {base} }}\n\
{before}-Set ::= SET {{ COMPONENTS OF {base}-Set, flag BOOLEAN }}\n\
{after}-Set ::= SET {{ COMPONENTS OF {base}-Set, flag BOOLEAN }}\n\
{cls} ::= CLASS {{ &n INTEGER (0..hi) UNIQUE, &s OCTET STRING (SIZE(lo..hi)), &Type }}\n\
{before}-Fld ::= SEQUENCE {{ n {cls}.&n, s {cls}.&s, b BOOLEAN }}\n\
{after}-Fld ::= SEQUENCE {{ n {cls}.&n, s {cls}.&s, b BOOLEAN }}\n\
Written ::= SEQUENCE {{ n INTEGER (0..{hi}), s OCTET STRING (SIZE({lo}..{hi})), k INTEGER (lo..{top}), m Num ({lo}..{top}), l BIT STRING (SIZE({hi}, ...)), q IA5String (SIZE({lo}..{hi})) }}\nEND\n"
    )
}

fn copied_eval(text: &str, names: &(&str, &str, &str)) -> Result<Option<String>, String> {
    let out = match comp::compile_rasn1(text, &Cfg::default()) {
        Outcome::Ok(o) if o.warnings.is_empty() => o,
        Outcome::Ok(o) => return Err(format!("warnings: {}", o.warnings[0])),
        Outcome::Err(e) => return Err(e),
        Outcome::Panic(p) => return Err(format!("panic: {p}")),
    };
    let mods = crate::proj::project(&out.generated)?;
    let m = mods.first().ok_or("no module")?;
    let w = m.find_struct("Written").ok_or("Written not generated")?;
    let camel = |n: &str| n.replace('-', "");
    let (_base, before, after) = names;
    for incl in [before.to_string(), after.to_string(), format!("{before}-Own"), format!("{after}-Own"), format!("{before}-Set"), format!("{after}-Set"), format!("{before}-Fld"), format!("{after}-Fld")] {
        let Some(s) = m.find_struct(&camel(&incl)) else { return Err(format!("{incl} not generated")) };
        for wf in &w.fields {
            let Some(f) = s.fields.iter().find(|f| f.name == wf.name) else { continue };
            if f.attrs.value != wf.attrs.value || f.attrs.size != wf.attrs.size || f.ty != wf.ty {
                return Ok(Some(format!(
                    "component {} of {incl}: value {:?} size {:?} type {} - written with literal bounds: value {:?} size {:?} type {}",
                    wf.name, f.attrs.value, f.attrs.size, f.ty, wf.attrs.value, wf.attrs.size, wf.ty
                )));
            }
        }
    }
    Ok(None)
}

const COPIED_NAMES: [(&str, &str, &str); 3] = [("Mm-Base", "Aa-Incl", "Zz-Incl"), ("Base", "Above", "Wrapper"), ("K", "J", "L")];

fn copied_components_leg(ctx: &mut Ctx, tier: Tier, seed: u64) {
    let n = tier.pick(24, 300);
    let mut drv = Driver::new(seed, 404, 8);
    let mut reported = 0;
    for (i, t) in drv.draw(n).iter().enumerate() {
        let st = t.current();
        let mut src = Src::new(&st);
        let lo = src.range(1, 4);
        let top = lo + src.range(1, 6);
        let hi = *src.choose(&[10i128, 12, 200, 255, 256, 70000]);
        let names = &COPIED_NAMES[i % COPIED_NAMES.len()];
        let text = copied_text(hi, lo, top, names);
        match copied_eval(&text, names) {
            Err(e) => ctx.class(&format!("copied-components:skipped ({})", e.chars().take(40).collect::<String>())),
            Ok(res) => {
                ctx.case(&format!("copied:{text}"), true);
                ctx.class("leg:bounds-on-copied-components (COMPONENTS OF, class fields)");
                if let Some(d) = res {
                    ctx.class("fails:copied-components");
                    if reported < 2 {
                        reported += 1;
                        ctx.fail(Failure { finding: None, what: format!("bounds given by references are lost on a copied component: {d}"), replay: json!({"kind": "c04-copied", "names": names, "sources": [{"name": "cp.asn", "text": text}], "observed": d}) });
                    }
                }
            }
        }
    }
}


// ---------------------------------------------------------------------------------------
// Value ranges with open ends (X.680 51.4.2): `lo<..hi`, `lo..<hi`, `lo<..<hi` with literal
// ends denote the closed range without the end itself; the reference is that closed range
// written out. (Open ends next to a *referenced* end point are not generated: the lexer
// cannot move an end it does not know, and the IR has no place for the `<`.)

fn open_ends_text(lo: i128, hi: i128) -> String {
    let mut s = String::from("Open-Mod DEFINITIONS AUTOMATIC TAGS ::= BEGIN\n");
    let forms: [(&str, String, String); 3] = [
        ("Hi", format!("{lo}..<{hi}"), format!("{lo}..{}", hi - 1)),
        ("Lo", format!("{lo}<..{hi}"), format!("{}..{hi}", lo + 1)),
        ("Both", format!("{lo} < .. < {hi}"), format!("{}..{}", lo + 1, hi - 1)),
    ];
    for (n, open, closed) in &forms {
        s.push_str(&format!("Open-{n} ::= INTEGER ({open})\nClosed-{n} ::= INTEGER ({closed})\n"));
        s.push_str(&format!("Open-{n}-Ext ::= INTEGER ({open}, ...)\nClosed-{n}-Ext ::= INTEGER ({closed}, ...)\n"));
        s.push_str(&format!("Open-{n}-Comp ::= SEQUENCE {{ f INTEGER ({open}), g SEQUENCE OF INTEGER ({open}) }}\nClosed-{n}-Comp ::= SEQUENCE {{ f INTEGER ({closed}), g SEQUENCE OF INTEGER ({closed}) }}\n"));
        s.push_str(&format!("Open-{n}-Union ::= INTEGER ({open} | 100000)\nClosed-{n}-Union ::= INTEGER ({closed} | 100000)\n"));
        if lo >= 0 {
            s.push_str(&format!("Open-{n}-Size ::= OCTET STRING (SIZE ({open}))\nClosed-{n}-Size ::= OCTET STRING (SIZE ({closed}))\n"));
            s.push_str(&format!("Open-{n}-Of ::= SEQUENCE (SIZE ({open})) OF BOOLEAN\nClosed-{n}-Of ::= SEQUENCE (SIZE ({closed})) OF BOOLEAN\n"));
        }
    }
    s.push_str("END\n");
    s
}

fn open_ends_eval(text: &str) -> Result<Option<String>, String> {
    let out = match comp::compile_rasn1(text, &Cfg::default()) {
        Outcome::Ok(o) if o.warnings.is_empty() => o,
        Outcome::Ok(o) => return Err(format!("warnings: {}", o.warnings[0])),
        Outcome::Err(e) => return Err(e),
        Outcome::Panic(p) => return Err(format!("panic: {p}")),
    };
    let mods = crate::proj::project(&out.generated)?;
    let m = mods.first().ok_or("no module")?;
    let mut n = 0;
    for it in &m.items {
        let crate::proj::RItem::Struct(o) = it else { continue };
        let Some(rest) = o.name.strip_prefix("Open") else { continue };
        let Some(c) = m.find_struct(&format!("Closed{rest}")) else { continue };
        n += 1;
        let sig = |s: &crate::proj::RStruct| format!("{:?} {:?} [{}]", s.attrs.value, s.attrs.size, s.fields.iter().map(|f| format!("{}: {:?} {:?} {}", f.name, f.attrs.value, f.attrs.size, if f.ty.contains("Open") || f.ty.contains("Closed") { "" } else { f.ty.as_str() })).collect::<Vec<_>>().join(", "));
        if sig(o) != sig(c) {
            return Ok(Some(format!("{}: {} - the closed range written out ({}): {}", o.name, sig(o), c.name, sig(c))));
        }
    }
    if n < 12 {
        return Err(format!("only {n} pairs generated"));
    }
    Ok(None)
}

fn open_ends_leg(ctx: &mut Ctx) {
    let ends: [i128; 9] = [-70000, -129, -1, 0, 1, 5, 255, 256, 65536];
    let mut reported = 0;
    for (i, &lo) in ends.iter().enumerate() {
        for &hi in ends.iter().skip(i + 1) {
            if hi - lo < 3 {
                continue;
            }
            let text = open_ends_text(lo, hi);
            match open_ends_eval(&text) {
                Err(e) => ctx.class(&format!("open-ends:skipped ({})", e.chars().take(40).collect::<String>())),
                Ok(res) => {
                    ctx.case(&format!("open:{lo}:{hi}"), true);
                    ctx.class("leg:open-range-ends against the closed range written out");
                    if let Some(d) = res {
                        ctx.class("fails:open-ends");
                        if reported < 2 {
                            reported += 1;
                            ctx.fail(Failure { finding: None, what: format!("a range with an open end is not the closed range without that end: {d}"), replay: json!({"kind": "c04-open-ends", "sources": [{"name": "open.asn", "text": text}], "observed": d}) });
                        }
                    }
                }
            }
        }
    }
}


// ---------------------------------------------------------------------------------------
// The extension marker of a SIZE constraint written behind a parenthesised element,
// `SIZE ((1..2), ...)`: the same constraint as `SIZE (1..2, ...)`.

fn paren_size_text() -> String {
    let mut s = String::from("Paren-Mod DEFINITIONS AUTOMATIC TAGS ::= BEGIN\n");
    let hosts = ["OCTET STRING", "BIT STRING", "IA5String", "UTF8String", "BMPString"];
    let ranges = ["1..2", "0..MAX", "5", "MIN..300", "0..70000"];
    let mut k = 0;
    for h in hosts {
        for r in ranges {
            s.push_str(&format!("Paren{k} ::= {h} (SIZE (({r}), ...))\nPlain{k} ::= {h} (SIZE ({r}, ...))\n"));
            s.push_str(&format!("Paren{k}-Comp ::= SEQUENCE {{ f {h} (SIZE (({r}), ...)) }}\nPlain{k}-Comp ::= SEQUENCE {{ f {h} (SIZE ({r}, ...)) }}\n"));
            k += 1;
        }
    }
    for r in ranges {
        s.push_str(&format!("Paren{k} ::= SEQUENCE (SIZE (({r}), ...)) OF BOOLEAN\nPlain{k} ::= SEQUENCE (SIZE ({r}, ...)) OF BOOLEAN\n"));
        s.push_str(&format!("Paren{k}-Comp ::= SEQUENCE {{ f SET (SIZE (({r}), ...)) OF BOOLEAN }}\nPlain{k}-Comp ::= SEQUENCE {{ f SET (SIZE ({r}, ...)) OF BOOLEAN }}\n"));
        k += 1;
    }
    s.push_str("END\n");
    s
}

fn paren_size_eval(text: &str) -> Result<(usize, Option<String>), String> {
    let out = match comp::compile_rasn1(text, &Cfg::default()) {
        Outcome::Ok(o) if o.warnings.is_empty() => o,
        Outcome::Ok(o) => return Err(format!("warnings: {}", o.warnings[0])),
        Outcome::Err(e) => return Err(e),
        Outcome::Panic(p) => return Err(format!("panic: {p}")),
    };
    let mods = crate::proj::project(&out.generated)?;
    let m = mods.first().ok_or("no module")?;
    let mut n = 0;
    for it in &m.items {
        let crate::proj::RItem::Struct(o) = it else { continue };
        let Some(rest) = o.name.strip_prefix("Paren") else { continue };
        let Some(c) = m.find_struct(&format!("Plain{rest}")) else { continue };
        n += 1;
        let sig = |s: &crate::proj::RStruct| format!("{:?} [{}]", s.attrs.size, s.fields.iter().map(|f| format!("{:?}", f.attrs.size)).collect::<Vec<_>>().join(", "));
        if sig(o) != sig(c) {
            return Ok((n, Some(format!("{}: size {} - with the marker inside the parentheses ({}): {}", o.name, sig(o), c.name, sig(c)))));
        }
    }
    Ok((n, None))
}

fn paren_size_leg(ctx: &mut Ctx) {
    let text = paren_size_text();
    match paren_size_eval(&text) {
        Err(e) => ctx.class(&format!("paren-size:skipped ({})", e.chars().take(40).collect::<String>())),
        Ok((n, res)) => {
            ctx.case("paren-size", true);
            ctx.class_n("leg:SIZE marker behind a parenthesised element (pairs)", n as u64);
            if let Some(d) = res {
                ctx.fail(Failure { finding: None, what: format!("the extension marker behind a parenthesised SIZE element is lost: {d}"), replay: json!({"kind": "c04-paren-size", "sources": [{"name": "paren.asn", "text": text}], "observed": d}) });
            }
        }
    }
}

pub fn run(tier: Tier, seed: u64, replay: Option<String>) -> i32 {
    let mut ctx = Ctx::new("C04", tier, seed);
    ctx.rule = "exhaustive: element sets with 1..2 operands (quick; thorough: 1..3) from single values and ranges over {MIN,-1,0,1,5,300,MAX} \
                (sizes: {0,1,5,300,MAX}) joined by |, ^, EXCEPT, ALL EXCEPT, with/without an outer `, ...`, as type assignment and as component, \
                on INTEGER / BIT STRING / OCTET STRING / IA5String / SEQUENCE OF / SET OF; two serial constraints, constrained parent, value-reference \
                and named-number spellings on sampled subsets; plus random larger expressions; oracle: exact interval-set algebra + compositional \
                PER-visible bound; non-trivial = >=2 operands or >=2 serial constraints or a reference endpoint/parent; distinct by notation"
        .into();
    ctx.assumptions = vec![
        "both readings of the effective constraint are accepted as exact: the compositional one (union->hull, intersection of visible parts, EXCEPT ignored) and the hull of the permitted set with EXCEPT ignored".into(),
        "extensibility: only 'no marker anywhere => not extensible' and 'marker on the outermost constraint => extensible' are asserted".into(),
        "expressions denoting the empty set are skipped (invalid ASN.1)".into(),
    ];
    if let Some(path) = replay {
        let v: Value = serde_json::from_str(&std::fs::read_to_string(&path).expect("replay")).expect("json");
        if v["kind"] == "c04-paren-size" {
            let text = v["sources"][0]["text"].as_str().unwrap_or_default().to_string();
            match paren_size_eval(&text) {
                Err(e) => ctx.inconclusive.push(e),
                Ok((_, res)) => {
                    ctx.case(&text, true);
                    if let Some(d) = res {
                        ctx.fail(Failure { finding: None, what: format!("the extension marker behind a parenthesised SIZE element is lost: {d}"), replay: v.clone() });
                    }
                }
            }
            return ctx.finish();
        }
        if v["kind"] == "c04-open-ends" {
            let text = v["sources"][0]["text"].as_str().unwrap_or_default().to_string();
            match open_ends_eval(&text) {
                Err(e) => ctx.inconclusive.push(e),
                Ok(res) => {
                    ctx.case(&text, true);
                    if let Some(d) = res {
                        ctx.fail(Failure { finding: None, what: format!("a range with an open end is not the closed range without that end: {d}"), replay: v.clone() });
                    }
                }
            }
            return ctx.finish();
        }
        if v["kind"] == "c04-copied" {
            let text = v["sources"][0]["text"].as_str().unwrap_or_default().to_string();
            let nm: Vec<String> = v["names"].as_array().map(|a| a.iter().map(|x| x.as_str().unwrap_or_default().to_string()).collect()).unwrap_or_default();
            if nm.len() == 3 {
                match copied_eval(&text, &(nm[0].as_str(), nm[1].as_str(), nm[2].as_str())) {
                    Err(e) => ctx.inconclusive.push(e),
                    Ok(res) => {
                        ctx.case(&text, true);
                        if let Some(d) = res {
                            ctx.fail(Failure { finding: None, what: format!("bounds given by references are lost on a copied component: {d}"), replay: v.clone() });
                        }
                    }
                }
            }
            return ctx.finish();
        }
        let c: Case = case_from(&v).expect("case");
        let mut stats: std::collections::BTreeMap<String, (u64, Vec<String>)> = Default::default();
        run_cases(&mut ctx, vec![c], &mut stats);
        return ctx.finish();
    }
    let mut stats: std::collections::BTreeMap<String, (u64, Vec<String>)> = std::collections::BTreeMap::new();
    let mut replays = vec![];
    for (_p, v) in crate::ev::replay_files("C04") {
        if v["kind"] == "c04-paren-size" {
            let text = v["sources"][0]["text"].as_str().unwrap_or_default().to_string();
            if let Ok((_, res)) = paren_size_eval(&text) {
                ctx.case(&text, true);
                ctx.class("replay:paren-size");
                if let Some(d) = res {
                    ctx.fail(Failure { finding: None, what: format!("the extension marker behind a parenthesised SIZE element is lost: {d}"), replay: v.clone() });
                }
            }
            continue;
        }
        if v["kind"] == "c04-open-ends" {
            let text = v["sources"][0]["text"].as_str().unwrap_or_default().to_string();
            if let Ok(res) = open_ends_eval(&text) {
                ctx.case(&text, true);
                ctx.class("replay:open-ends");
                if let Some(d) = res {
                    ctx.fail(Failure { finding: None, what: format!("a range with an open end is not the closed range without that end: {d}"), replay: v.clone() });
                }
            }
            continue;
        }
        if let Some(c) = case_from(&v) {
            replays.push(c);
        }
    }
    run_cases(&mut ctx, replays, &mut stats);

    let vops = value_operands();
    let sops = size_operands();
    let mut cases = vec![];
    let max_n = tier.pick(2, 3);
    for n in 1..=max_n {
        for e in esets(&vops, n) {
            for ext in [false, true] {
                for place in [Place::Assignment, Place::Component] {
                    // 3-operand space: thorough only, and there only every assignment
                    if n == 3 && place == Place::Component {
                        continue;
                    }
                    cases.push(Case { host: Host::Integer, place, cons: vec![with_ext(e.clone(), ext)], outer_marker: false, ref_component: false, split_size: false });
                }
            }
        }
    }
    for n in 1..=2 {
        for e in esets(&sops, n) {
            for ext in [false, true] {
                for host in [Host::OctetString, Host::BitString, Host::Ia5, Host::SeqOf, Host::SetOf, Host::Universal, Host::Bmp, Host::Numeric, Host::Printable, Host::Visible] {
                    // (the further string types: one-operand expressions only)
                    if n == 2 && matches!(host, Host::Universal | Host::Bmp | Host::Numeric | Host::Printable | Host::Visible | Host::Utf8) {
                        continue;
                    }
                    for place in [Place::Assignment, Place::Component] {
                        if n == 2 && tier == Tier::Quick && !(host == Host::OctetString || host == Host::SeqOf) {
                            continue;
                        }
                        cases.push(Case { host, place, cons: vec![with_ext(e.clone(), ext)], outer_marker: false, ref_component: false, split_size: false });
                        if n == 2 && (host == Host::OctetString || host == Host::SeqOf) {
                            cases.push(Case { host, place, cons: vec![with_ext(e.clone(), ext)], outer_marker: false, ref_component: false, split_size: true });
                        }
                        if ext {
                            cases.push(Case { host, place, cons: vec![with_ext(e.clone(), ext)], outer_marker: true, ref_component: false, split_size: false });
                        }
                    }
                }
            }
        }
    }
    // serial pairs, parents and reference spellings over the 1-operand space (+ 2-operand in thorough)
    let ones = esets(&vops, 1);
    for a in &ones {
        for b in &ones {
            for (ea, eb) in [(false, false), (true, false), (false, true)] {
                cases.push(Case { host: Host::Integer, place: Place::Assignment, cons: vec![with_ext(a.clone(), ea), with_ext(b.clone(), eb)], outer_marker: false, ref_component: false, split_size: false });
            }
        }
    }
    for n in 1..=2 {
        for (k, e) in esets(&vops, n).into_iter().enumerate() {
            if n == 2 && tier == Tier::Quick && k % 5 != 0 {
                continue;
            }
            for place in [Place::OnParent, Place::ValueRefs, Place::NamedNumbers, Place::NamedViaRef, Place::NamedOnComponent] {
                cases.push(Case { host: Host::Integer, place, cons: vec![with_ext(e.clone(), false)], outer_marker: false, ref_component: false, split_size: false });
            }
            cases.push(Case { host: Host::Integer, place: Place::OnParent, cons: vec![with_ext(e.clone(), false)], outer_marker: false, ref_component: true, split_size: false });
        }
    }
    // SIZE ranges whose ends are value references, on every kind of sized type
    for host in [Host::OctetString, Host::BitString, Host::Ia5, Host::SeqOf, Host::SetOf] {
        for a in size_operands() {
            for ext in [false, true] {
                cases.push(Case { host, place: Place::ValueRefs, cons: vec![with_ext(ESet { all_except: None, unions: vec![vec![ie(&a)]], words: false }, ext)], outer_marker: false, ref_component: false, split_size: false });
            }
        }
    }
    ctx.extra.insert("exhaustive_cases".into(), json!(cases.len()));
    ctx.exhaustive = true;
    for c in cases.iter().step_by(cases.len() / 4 + 1).take(4) {
        ctx.sample(json!(case_text(0, c)));
    }
    run_cases(&mut ctx, cases, &mut stats);

    // random larger expressions
    let n = tier.pick(200000, 1500000);
    let mut drv = Driver::new(seed, 4, 120);
    let rnd: Vec<Case> = drv
        .draw(n)
        .iter()
        .map(|t| {
            let s = t.current();
            random_case(&mut Src::new(&s))
        })
        .collect();
    ctx.extra.insert("random_cases".into(), json!(rnd.len()));
    ctx.sample(json!(case_text(0, &rnd[0])));
    run_cases(&mut ctx, rnd, &mut stats);
    if std::env::var("C04_STATS").is_ok() {
        let mut v: Vec<_> = stats.iter().collect();
        v.sort_by_key(|(_, n)| std::cmp::Reverse(n.0));
        for (k, n) in v.iter().take(40) {
            println!("{:8}  {k}", n.0);
            for ex in &n.1 {
                println!("              {ex}");
            }
        }
    }
    ctx.extra.insert("failure_signatures".into(), json!(stats.len()));
    copied_components_leg(&mut ctx, tier, seed);
    open_ends_leg(&mut ctx);
    paren_size_leg(&mut ctx);
    ctx.finish()
}

/// replay files carry the case either as a JSON object (hand-written) or as a JSON string
/// (written by the check: serde_json::Value cannot hold i128 numbers)
fn case_from(v: &Value) -> Option<Case> {
    if let Some(s) = v["case_json"].as_str() {
        return serde_json::from_str(s).ok();
    }
    serde_json::from_value(v["case"].clone()).ok()
}
