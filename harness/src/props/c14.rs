//! C14 — ENUMERATED items get the numbers X.680 §20 assigns.
use crate::comp::{self, Cfg, Outcome};
use crate::ev::{Ctx, Driver, Failure, Tier};
use crate::src::Src;
use rayon::prelude::*;
use serde_json::{json, Value};
use std::collections::BTreeSet;

/// (root items, additions or None when there is no marker); each item: optional explicit number
#[derive(Clone, Debug, PartialEq, Eq, Hash, serde::Serialize, serde::Deserialize)]
pub struct Pat {
    pub root: Vec<Option<i128>>,
    pub ext: Option<Vec<Option<i128>>>,
}

/// R-enum: X.680 §20 numbering. None = the notation is invalid.
/// §20.3 root identifier-only items: successive integers from 0, skipping every number used
///        by a NamedNumber of the root; all root numbers distinct.
/// §20.4/20.6 additions: each value greater than all preceding additions and not used in the
///        root; identifier-only: the smallest such value.
pub fn number(p: &Pat) -> Option<(Vec<i128>, Vec<i128>)> {
    let explicit_root: Vec<i128> = p.root.iter().flatten().copied().collect();
    let set: BTreeSet<i128> = explicit_root.iter().copied().collect();
    if set.len() != explicit_root.len() {
        return None;
    }
    let mut next = 0i128;
    let mut root = vec![];
    for it in &p.root {
        match it {
            Some(v) => root.push(*v),
            None => {
                while set.contains(&next) {
                    next += 1;
                }
                root.push(next);
                next += 1;
            }
        }
    }
    let used_root: BTreeSet<i128> = root.iter().copied().collect();
    if used_root.len() != root.len() {
        return None;
    }
    let mut adds = vec![];
    if let Some(ext) = &p.ext {
        let mut prev: Option<i128> = None;
        for it in ext {
            match it {
                Some(v) => {
                    if used_root.contains(v) || prev.map_or(false, |p| *v <= p) {
                        return None;
                    }
                    adds.push(*v);
                    prev = Some(*v);
                }
                None => {
                    let mut v = prev.map(|p| p + 1).unwrap_or(0).max(0);
                    while used_root.contains(&v) {
                        v += 1;
                    }
                    adds.push(v);
                    prev = Some(v);
                }
            }
        }
    }
    Some((root, adds))
}

/// position-based numbering (what the pinned lexer does): the signature of finding F-enum-num
fn positional(p: &Pat) -> Vec<i128> {
    let mut out = vec![];
    for (i, it) in p.root.iter().enumerate() {
        out.push(it.unwrap_or(i as i128));
    }
    if let Some(ext) = &p.ext {
        for (i, it) in ext.iter().enumerate() {
            out.push(it.unwrap_or((p.root.len() + i) as i128));
        }
    }
    out
}

/// the identifier of the i-th enumeral (every third one has a hyphen: its Rust / TypeScript
/// member name differs from it, the name on the wire must not)
pub fn enumeral_name(i: usize) -> String {
    // every fifth one is a Rust keyword (a legal ASN.1 identifier): renamed in the bindings as well
    const KW: [&str; 12] = ["type", "match", "loop", "impl", "fn", "mod", "move", "ref", "use", "where", "abstract", "yield"];
    if i % 5 == 3 {
        return KW[(i / 5) % KW.len()].to_string();
    }
    if i % 3 == 1 {
        format!("it-{i}x")
    } else {
        format!("it{i}")
    }
}

pub fn print_enum(p: &Pat) -> String {
    let mut s = String::from("ENUMERATED { ");
    let item = |i: usize, v: &Option<i128>| match v {
        Some(n) => format!("{}({n})", enumeral_name(i)),
        None => enumeral_name(i),
    };
    let root: Vec<String> = p.root.iter().enumerate().map(|(i, v)| item(i, v)).collect();
    s.push_str(&root.join(", "));
    if let Some(ext) = &p.ext {
        s.push_str(", ...");
        for (i, v) in ext.iter().enumerate() {
            s.push_str(", ");
            s.push_str(&item(p.root.len() + i, v));
        }
    }
    s.push_str(" }");
    s
}

fn all_items(alphabet: &[Option<i128>], n: usize) -> Vec<Vec<Option<i128>>> {
    let mut out: Vec<Vec<Option<i128>>> = vec![vec![]];
    for _ in 0..n {
        let mut next = vec![];
        for v in &out {
            for a in alphabet {
                let mut w = v.clone();
                w.push(*a);
                next.push(w);
            }
        }
        out = next;
    }
    out
}

pub fn enumerate(max_root: usize, max_add: usize) -> Vec<Pat> {
    let alphabet: Vec<Option<i128>> = vec![None, Some(-1), Some(0), Some(1), Some(2), Some(5)];
    let mut pats = vec![];
    for r in 1..=max_root {
        for root in all_items(&alphabet, r) {
            // no marker
            let p = Pat { root: root.clone(), ext: None };
            if number(&p).is_some() {
                pats.push(p);
            } else {
                continue; // invalid root: no valid extension either
            }
            for a in 0..=max_add {
                for ext in all_items(&alphabet, a) {
                    let p = Pat { root: root.clone(), ext: Some(ext) };
                    if number(&p).is_some() {
                        pats.push(p);
                    }
                }
            }
        }
    }
    pats
}

fn random_pat(src: &mut Src) -> Pat {
    let n = 1 + src.pick(24);
    let mut used = BTreeSet::new();
    let mut mk = |src: &mut Src, min: i128| -> Option<i128> {
        if src.chance(45) {
            let mut v = match src.weighted(&[8, 4, 2, 1]) {
                0 => src.range(min.max(-3), min.max(-3) + 40),
                1 => src.range(min.max(-70000), min.max(-70000) + 140000),
                2 => src.range(min.max(i32::MIN as i128), i32::MAX as i128 - 50),
                // numbers around the 32 / 64 bit limits and far beyond (X.680 puts no limit
                // on an enumeral's number; the compiler carries them as 128-bit integers)
                _ => {
                    let k = [31u32, 32, 63, 64, 100][src.pick(5)];
                    let b = 1i128 << k;
                    let d = src.pick(3) as i128 - 1;
                    if src.chance(50) { b + d } else { -b + d }
                }
            };
            while used.contains(&v) {
                v += 1;
            }
            used.insert(v);
            Some(v)
        } else {
            None
        }
    };
    let root: Vec<Option<i128>> = (0..n).map(|_| mk(src, i128::MIN / 4)).collect();
    let ext = if src.chance(60) {
        let k = src.pick(12);
        Some((0..k).map(|_| mk(src, i128::MIN / 4)).collect())
    } else {
        None
    };
    Pat { root, ext }
}

/// make a random pattern valid by repairing additions to be ascending / unused
pub fn repair(mut p: Pat) -> Option<Pat> {
    if number(&Pat { root: p.root.clone(), ext: None }).is_none() {
        return None;
    }
    if let Some(ext) = p.ext.take() {
        let mut fixed: Vec<Option<i128>> = vec![];
        for it in ext {
            let mut cand = Pat { root: p.root.clone(), ext: Some(fixed.clone()) };
            cand.ext.as_mut().unwrap().push(it);
            if number(&cand).is_some() {
                fixed.push(it);
            } else {
                fixed.push(None);
            }
        }
        p.ext = Some(fixed);
    }
    number(&p).map(|_| p)
}

struct Obs {
    names: Vec<String>,
    discs: Vec<Option<i128>>,
}

fn observe(generated: &str, type_names: &[String]) -> Result<Vec<Option<Obs>>, String> {
    let mods = crate::proj::project(generated)?;
    let m = mods.first().ok_or("no module")?;
    Ok(type_names
        .iter()
        .map(|n| {
            m.find_enum(n).map(|e| Obs {
                names: e
                    .variants
                    .iter()
                    .map(|v| v.attrs.identifier.clone().unwrap_or_else(|| v.name.clone()))
                    .collect(),
                discs: e.variants.iter().map(|v| v.disc.as_ref().and_then(|d| d.parse().ok())).collect(),
            })
        })
        .collect())
}

/// judge one pattern; returns (clause, detail) of the first failed clause
fn judge(p: &Pat, obs: &Obs) -> Option<(&'static str, String)> {
    let (root, adds) = number(p).expect("valid pattern");
    let expect: Vec<i128> = root.iter().chain(adds.iter()).copied().collect();
    let n = expect.len();
    if obs.names.len() != n {
        return Some(("names", format!("{} variants for {n} enumerals", obs.names.len())));
    }
    for (i, nm) in obs.names.iter().enumerate() {
        if *nm != enumeral_name(i) {
            return Some(("names", format!("variant {i} is {nm}")));
        }
    }
    let got: Vec<i128> = match obs.discs.iter().copied().collect::<Option<Vec<i128>>>() {
        Some(g) => g,
        None => return Some(("kept", "a variant has no integer discriminant".into())),
    };
    let explicit: Vec<Option<i128>> = p.root.iter().chain(p.ext.iter().flatten()).copied().collect();
    for i in 0..n {
        if let Some(v) = explicit[i] {
            if got[i] != v {
                return Some(("kept", format!("item {i}: explicit number {v} emitted as {}", got[i])));
            }
        }
    }
    let distinct: BTreeSet<i128> = got.iter().copied().collect();
    if distinct.len() != n {
        return Some(("distinct", format!("numbers {got:?} are not distinct")));
    }
    for i in 0..p.root.len() {
        if got[i] != expect[i] {
            return Some(("root-numbering", format!("item {i}: {} but X.680 §20.3 gives {}", got[i], expect[i])));
        }
    }
    for i in p.root.len()..n {
        if got[i] != expect[i] {
            return Some(("addition-value", format!("addition {i}: {} but X.680 §20.6 gives {}", got[i], expect[i])));
        }
    }
    None
}

fn classify(p: &Pat, obs: &Obs) -> Option<&'static str> {
    // F-enum-num: input class = §20 numbering differs from positional numbering;
    // deviation = the emitted numbers are exactly the positional ones
    let (root, adds) = number(p)?;
    let expect: Vec<i128> = root.into_iter().chain(adds).collect();
    let pos = positional(p);
    let got: Vec<i128> = obs.discs.iter().copied().collect::<Option<Vec<i128>>>()?;
    if expect != pos && got == pos {
        Some("F-enum-num")
    } else {
        None
    }
}

fn module_text(pats: &[Pat], nested: bool) -> (String, Vec<String>) {
    let mut s = String::from("Enum-Mod DEFINITIONS AUTOMATIC TAGS ::= BEGIN\n");
    let mut names = vec![];
    for (i, p) in pats.iter().enumerate() {
        if nested {
            s.push_str(&format!("S{i} ::= SEQUENCE {{ f {} }}\n", print_enum(p)));
            names.push(format!("S{i}F"));
        } else {
            s.push_str(&format!("E{i} ::= {}\n", print_enum(p)));
            names.push(format!("E{i}"));
        }
    }
    s.push_str("END\n");
    (s, names)
}

/// X.680 20.1: the number of an enumeral may be a value reference (`first(five)`,
/// `five INTEGER ::= 5`). The compiler may reject the notation (it does), but if it accepts it
/// the numbering must be that of the same type with the number written out.
fn valref_leg(ctx: &mut Ctx) {
    let pats: Vec<Pat> = vec![
        Pat { root: vec![Some(5), None, Some(1)], ext: Some(vec![None]) },
        Pat { root: vec![None, Some(0), None], ext: None },
        Pat { root: vec![Some(2), Some(0)], ext: Some(vec![Some(7), None]) },
        Pat { root: vec![None, None], ext: Some(vec![Some(4)]) },
        Pat { root: vec![Some(1)], ext: None },
    ];
    let mut reported = 0;
    for p in &pats {
        for nested in [false, true] {
            // every explicit number in turn becomes a value reference
            let n_items = p.root.len() + p.ext.as_ref().map_or(0, |e| e.len());
            for at in 0..n_items {
                let v = if at < p.root.len() { p.root[at] } else { p.ext.as_ref().unwrap()[at - p.root.len()] };
                let Some(num) = v else { continue };
                let literal = print_enum(p);
                let spelled = format!("{}({num})", enumeral_name(at));
                let with_ref = literal.replacen(&spelled, &format!("{}(zz-num)", enumeral_name(at)), 1);
                if with_ref == literal {
                    continue;
                }
                let (decl, name) = if nested { (format!("S0 ::= SEQUENCE {{ f {with_ref} }}"), "S0F".to_string()) } else { (format!("E0 ::= {with_ref}"), "E0".to_string()) };
                let text = format!("Enum-Mod DEFINITIONS AUTOMATIC TAGS ::= BEGIN\nzz-num INTEGER ::= {num}\n{decl}\nEND\n");
                ctx.case(&text, true);
                ctx.class("leg:enumeral-number-by-value-reference");
                let verdict: Option<String> = match comp::compile_rasn1(&text, &Cfg::default()) {
                    Outcome::Err(_) => {
                        ctx.class("valref:rejected");
                        None
                    }
                    Outcome::Panic(p) => Some(format!("panic: {p}")),
                    Outcome::Ok(c) => match observe(&c.generated, &[name.clone()]) {
                        Ok(o) => match o.into_iter().next().flatten() {
                            Some(obs) => {
                                ctx.class("valref:accepted");
                                judge(p, &obs).map(|(clause, d)| format!("{clause}: {d}"))
                            }
                            // not generated: must be reported
                            None if !c.warnings.is_empty() => {
                                ctx.class("valref:reported by a warning");
                                None
                            }
                            None => Some("the type is neither generated nor reported".to_string()),
                        },
                        Err(e) => Some(format!("unreadable output: {e}")),
                    },
                };
                if let Some(d) = verdict {
                    ctx.class("fails:valref");
                    if reported < 3 {
                        reported += 1;
                        ctx.fail(Failure { finding: None, what: format!("enumeral number given by a value reference ({num}): {d} in {with_ref}"), replay: json!({"kind": "c14-valref", "sources": [{"name": "enum.asn", "text": text}], "observed": d}) });
                    }
                }
            }
        }
    }
}

fn run_batch(ctx: &mut Ctx, pats: &[Pat], nested: bool, tagc: &str) {
    let chunks: Vec<&[Pat]> = pats.chunks(400).collect();
    let results: Vec<(Vec<Pat>, Result<Vec<Option<Obs>>, String>, String)> = chunks
        .par_iter()
        .map(|ch| {
            let (text, names) = module_text(ch, nested);
            let r = match comp::compile_rasn1(&text, &Cfg::default()) {
                Outcome::Ok(c) => {
                    if !c.warnings.is_empty() {
                        Err(format!("warnings: {:?}", c.warnings.iter().take(2).collect::<Vec<_>>()))
                    } else {
                        observe(&c.generated, &names)
                    }
                }
                Outcome::Err(e) => Err(format!("compile Err: {e}")),
                Outcome::Panic(p) => Err(format!("panic: {p}")),
            };
            (ch.to_vec(), r, text)
        })
        .collect();
    // the TypeScript bindings: a named ENUMERATED is an enum whose member *values* are the
    // enumeral identifiers in order, one written in place is a union of those string literals
    let ts_fails: Vec<(Pat, String)> = chunks
        .par_iter()
        .flat_map(|ch| {
            let (text, _) = module_text(ch, nested);
            let mut out = vec![];
            // as written, with a `--` comment to the end of the line behind every comma of the
            // item lists, and with the same comment closed by `--` on the line
            let commented = crate::props::c18::with_enumeral_comments(&text);
            let inline = commented.replace("they say\n ", "they say -- ");
            for (variant, text) in [("", text), (" (a comment behind every enumeral)", commented), (" (a closed comment behind every enumeral)", inline)] {
            let Outcome::Ok(c) = comp::compile_ts(&[text]) else { continue };
            let Ok(nss) = crate::tsparse::parse(&c.generated) else {
                out.push((ch[0].clone(), format!("TypeScript{variant}: the output is not readable as TypeScript declarations")));
                continue;
            };
            let Some(ns) = nss.first() else { continue };
            let decls = crate::tsparse::decl_map(ns);
            for (i, p) in ch.iter().enumerate() {
                let n = p.root.len() + p.ext.as_ref().map_or(0, |e| e.len());
                let want: Vec<String> = (0..n).map(enumeral_name).collect();
                let tname = if nested { format!("S{i}") } else { format!("E{i}") };
                let got: Option<Vec<String>> = match decls.get(&tname).and_then(|d| d.first()) {
                    Some(crate::tsparse::Decl::Enum(ms)) if !nested => Some(ms.iter().map(|m| m.1.clone()).collect()),
                    Some(crate::tsparse::Decl::Type(crate::tsparse::TsType::Object { members, .. })) if nested => members.first().map(|m| match &m.2 {
                        crate::tsparse::TsType::Union(v) => v.iter().map(|x| match x { crate::tsparse::TsType::StrLit(s) => s.clone(), o => format!("{o:?}") }).collect(),
                        crate::tsparse::TsType::StrLit(s) => vec![s.clone()],
                        o => vec![format!("{o:?}")],
                    }),
                    _ => None,
                };
                match got {
                    Some(g) if g == want => {}
                    Some(g) => out.push((p.clone(), format!("TypeScript{variant}: {tname} carries the enumeral names {g:?}, the source says {want:?}"))),
                    None => out.push((p.clone(), format!("TypeScript{variant}: no {} declaration for {tname}", if nested { "object" } else { "enum" }))),
                }
            }
            if !out.is_empty() {
                break;
            }
            }
            out
        })
        .collect();
    ctx.class_n("backend:typescript (enumeral names)", pats.len() as u64);
    for (k, (p, d)) in ts_fails.iter().enumerate() {
        ctx.class("fails:ts-names");
        if k < 3 {
            ctx.fail(Failure { finding: None, what: format!("names: {d} in {}", print_enum(p)), replay: pat_payload(p, nested, d) });
        }
    }
    for (ch, r, text) in results {
        match r {
            Err(e) => {
                // a valid enumeration module must compile: report once per batch kind
                ctx.case(&text, true);
                ctx.fail(Failure {
                    finding: None,
                    what: format!("module of valid enumerations did not compile cleanly ({tagc}): {e}"),
                    replay: json!({"kind": "c14-module", "sources": [{"name": "enum.asn", "text": text}]}),
                });
            }
            Ok(obs) => {
                for (p, o) in ch.iter().zip(obs.into_iter()) {
                    let mixed = p.root.iter().chain(p.ext.iter().flatten()).any(|x| x.is_some())
                        && p.root.iter().chain(p.ext.iter().flatten()).any(|x| x.is_none());
                    ctx.case(&format!("{nested}{}", print_enum(p)), mixed);
                    ctx.class(if p.ext.is_some() { "with_marker" } else { "no_marker" });
                    if mixed {
                        ctx.class("mixed_numbering");
                    }
                    let Some(o) = o else {
                        ctx.fail(Failure {
                            finding: None,
                            what: format!("no enum generated for {}", print_enum(p)),
                            replay: pat_payload(p, nested, "missing"),
                        });
                        continue;
                    };
                    if let Some((clause, detail)) = judge(p, &o) {
                        let fid = classify(p, &o);
                        ctx.class(&format!("fails:{clause}"));
                        let known = fid.map_or(false, |f| ctx.is_known(f));
                        if known || ctx.violations.len() < 3 {
                            ctx.fail(Failure {
                                finding: fid,
                                what: format!("{clause}: {detail} in {}", print_enum(p)),
                                replay: pat_payload(p, nested, &format!("{clause}: {detail}; emitted {:?}", o.discs)),
                            });
                        }
                    }
                }
            }
        }
    }
}

fn pat_from(v: &Value) -> Option<Pat> {
    if let Some(s) = v["pattern_json"].as_str() {
        return serde_json::from_str(s).ok();
    }
    serde_json::from_value(v["pattern"].clone()).ok()
}

fn pat_payload(p: &Pat, nested: bool, observed: &str) -> Value {
    let (text, _) = module_text(std::slice::from_ref(p), nested);
    // (numbers beyond 64 bits do not fit a serde_json::Value: the pattern travels as text)
    json!({"kind": "c14", "pattern_json": serde_json::to_string(p).unwrap_or_default(), "nested": nested, "sources": [{"name": "enum.asn", "text": text}], "observed": observed})
}

pub fn run(tier: Tier, seed: u64, replay: Option<String>) -> i32 {
    let mut ctx = Ctx::new("C14", tier, seed);
    ctx.rule = "exhaustive: every valid enumeration with <=R root items and <=A additions where each item is identifier-only or \
                numbered from {-1,0,1,2,5} (quick R=4,A=2; thorough R=5,A=3), as type assignment (and a nested/hoisted sample); plus \
                random enumerations of up to 36 items with numbers in the i32 range; oracle: X.680 §20 reference numbering vs the \
                discriminants read with syn; non-trivial = mixes numbered and identifier-only items; distinct by notation"
        .into();
    ctx.assumptions = vec![
        "X.680 §20: identifier-only root items skip every number used explicitly in the root; additions are ascending and an \
         identifier-only addition takes the smallest value unused in the root and larger than all preceding additions \
         (unit-tested on the standard's examples {a,b,...,c(3),d} => d=4 and {a,z(25),...,d} => d=1)"
            .into(),
    ];
    // self-test of the reference model on the standard's examples
    assert_eq!(
        number(&Pat { root: vec![None, None], ext: Some(vec![Some(3), None]) }),
        Some((vec![0, 1], vec![3, 4]))
    );
    assert_eq!(
        number(&Pat { root: vec![None, Some(25)], ext: Some(vec![None]) }),
        Some((vec![0, 25], vec![1]))
    );
    assert_eq!(number(&Pat { root: vec![None, None], ext: Some(vec![Some(0)]) }), None);
    assert_eq!(
        number(&Pat { root: vec![None, None, Some(0)], ext: None }),
        Some((vec![1, 2, 0], vec![]))
    );
    assert_eq!(
        number(&Pat { root: vec![Some(1), None, None], ext: None }),
        Some((vec![1, 0, 2], vec![]))
    );

    if let Some(path) = replay {
        let v: Value = serde_json::from_str(&std::fs::read_to_string(&path).expect("replay")).expect("json");
        let p: Pat = pat_from(&v).expect("pattern");
        run_batch(&mut ctx, &[p], v["nested"].as_bool().unwrap_or(false), "replay");
        return ctx.finish();
    }
    for (_p, v) in crate::ev::replay_files("C14") {
        if let Some(p) = pat_from(&v) {
            run_batch(&mut ctx, &[p], v["nested"].as_bool().unwrap_or(false), "replay");
        }
    }
    let (r, a) = tier.pick((4, 2), (5, 3));
    let pats = enumerate(r, a);
    ctx.extra.insert("exhaustive_patterns".into(), json!(pats.len()));
    ctx.exhaustive = true;
    for p in pats.iter().filter(|p| p.ext.is_some()).take(2) {
        ctx.sample(json!(print_enum(p)));
    }
    run_batch(&mut ctx, &pats, false, "exhaustive");
    // nested (hoisted) enumerations: every 7th pattern
    let nested: Vec<Pat> = pats.iter().step_by(7).cloned().collect();
    run_batch(&mut ctx, &nested, true, "nested");
    // random larger enumerations
    let n = tier.pick(40000, 400000);
    let mut drv = Driver::new(seed, 14, 200);
    let trees = drv.draw(n);
    let rnd: Vec<Pat> = trees
        .iter()
        .filter_map(|t| {
            let s = t.current();
            let mut src = Src::new(&s);
            repair(random_pat(&mut src))
        })
        .collect();
    for p in rnd.iter().take(2) {
        ctx.sample(json!(print_enum(p)));
    }
    ctx.extra.insert("random_patterns".into(), json!(rnd.len()));
    run_batch(&mut ctx, &rnd, false, "random");
    valref_leg(&mut ctx);
    ctx.finish()
}
