//! C17 — syntax errors are reported at the malformed definition, consistently.
use crate::asn::*;
use crate::ev::{Ctx, Driver, Failure, Tier};
use crate::gen::GenCfg;
use crate::props::common::*;
use crate::src::Src;
use rasn_compiler::prelude::*;
use rayon::prelude::*;
use serde_json::{json, Value};

const ILLEGAL: [&str; 8] = ["\u{a7}", "\u{a4}", "~", "$", "%", "\\", "\u{2603}", "`"];

#[derive(Clone, Debug, serde::Serialize, serde::Deserialize)]
pub struct Case {
    pub text: String,
    /// byte offset where the first corrupted assignment (or header) starts
    pub unit_start: usize,
    /// for the bounding subclass: offset of the illegal character
    pub illegal_at: Option<usize>,
    pub kind: String,
    pub as_file: bool,
    pub crlf: bool,
    pub commented: bool,
}

pub fn gen_cfg() -> GenCfg {
    GenCfg { max_modules: 3, max_types: 10, max_values: 3, max_comps: 4, max_depth: 2, ..GenCfg::default() }
}

/// layout: LF/CRLF, optional comments between assignments and inside them
static UNMARKED: std::sync::atomic::AtomicUsize = std::sync::atomic::AtomicUsize::new(0);

fn layout(toks: &[Tok], src: &mut Src, crlf: bool, commented: bool) -> (String, Vec<usize>) {
    let comments: Vec<Option<String>> = (0..toks.len())
        .map(|i| {
            if i == 0 || !commented {
                return None;
            }
            // comments go between assignments only: comments between the tokens of an
            // assignment hit the lexer gaps that C13 reports, and would make an earlier
            // position "malformed" than the injected corruption
            let unit_boundary = toks[i - 1].module != toks[i].module || toks[i - 1].item != toks[i].item;
            if unit_boundary && toks[i].text != "END" && src.chance(35) {
                Some(match src.pick(3) {
                    0 => "-- a comment\n".to_string(),
                    1 => "-- inline -- ".to_string(),
                    _ => "/* block /* nested */ comment */ ".to_string(),
                })
            } else {
                None
            }
        })
        .collect();
    let nl = if crlf { "\r\n" } else { "\n" };
    // multi-line assignments (continuation lines indented after `{` and `,`) and blank lines
    // between assignments, in about half of the cases: the excerpt logic of contextualize
    // depends on what follows the failing line
    let multiline = src.chance(50);
    let breaks: Vec<u8> = (0..toks.len())
        .map(|i| {
            if i == 0 || !multiline {
                return 0;
            }
            let unit_boundary = toks[i - 1].module != toks[i].module || toks[i - 1].item != toks[i].item;
            if unit_boundary {
                if src.chance(30) {
                    2
                } else {
                    0
                }
            } else if (toks[i - 1].text == "{" || toks[i - 1].text == ",") && src.chance(40) {
                1
            } else {
                0
            }
        })
        .collect();
    render_with(
        toks,
        &|i| {
            let d = match breaks[i] {
                1 => format!("{nl}  "),
                2 => format!("{nl}{nl}"),
                _ => default_sep(toks, i, crlf),
            };
            match &comments[i] {
                Some(c) => {
                    let c = if crlf { c.replace('\n', "\r\n") } else { c.clone() };
                    // keep a separator before the comment; the comment brings its own trailing space/newline
                    let lead = if d.is_empty() { " ".to_string() } else { d };
                    format!("{lead}{c}")
                }
                None => d,
            }
        },
        nl,
    )
}

fn make_case(stream: &[u32]) -> Option<Case> {
    let ms = gen_set(stream, &gen_cfg());
    let toks = tokens(&ms);
    let mut src = Src::new(stream);
    for _ in 0..11 {
        src.raw();
    }
    let crlf = src.chance(35);
    let commented = src.chance(40);
    // the input may begin with blank lines and indentation (as a file often does)
    let lead: String = if src.chance(30) {
        let nl = if crlf { "\r\n" } else { "\n" };
        format!("{}{}", nl.repeat(1 + src.pick(3)), ["", "  ", "\t"][src.pick(3)])
    } else {
        String::new()
    };
    // choose the corruption on the token list, then lay out
    let n = toks.len();
    let ti = src.pick(n);
    let kind = src.weighted(&[2, 2, 2, 4]);
    let mut mutated: Vec<Tok> = toks.clone();
    let mut illegal_tok: Option<usize> = None;
    let kind_name;
    match kind {
        0 => {
            mutated.remove(ti);
            kind_name = "delete";
        }
        1 => {
            // replace by another token of the same input
            let other = toks[src.pick(n)].text.clone();
            mutated[ti].text = other;
            kind_name = "replace";
        }
        2 => {
            let other = toks[src.pick(n)].clone();
            let owner = toks[ti].clone();
            mutated.insert(ti, Tok { text: other.text, module: owner.module, item: owner.item });
            kind_name = "insert";
        }
        _ => {
            // bounding subclass: a character that starts no ASN.1 token, inserted as its own
            // token or substituted for a token (never inside a string: tokens are atomic)
            let ch = ILLEGAL[src.pick(ILLEGAL.len())].to_string();
            let owner = toks[ti].clone();
            if src.chance(50) {
                mutated.insert(ti, Tok { text: ch, module: owner.module, item: owner.item });
                kind_name = "insert-illegal";
            } else {
                mutated[ti].text = ch;
                kind_name = "replace-illegal";
            }
            illegal_tok = Some(ti);
        }
    }
    if mutated.is_empty() {
        return None;
    }
    let (text, offs) = layout(&mutated, &mut src, crlf, commented);
    let (text, offs) = (format!("{lead}{text}"), offs.into_iter().map(|o| o + lead.len()).collect::<Vec<usize>>());
    // the corrupted unit: the assignment (or header) owning token ti; its first token
    let t_ref = ti.min(mutated.len() - 1);
    let owner = (mutated[t_ref].module, mutated[t_ref].item);
    // a corruption at the very start of a unit (deleted, replaced or inserted first token) may
    // equally be read as trailing junk of the previous unit: both are "the first malformed
    // assignment", so the lower bound is the start of the previous token's unit then
    let first_of_unit = (0..mutated.len()).find(|i| (mutated[*i].module, mutated[*i].item) == owner).unwrap_or(0);
    let mut unit_start_tok = first_of_unit;
    if ti > 0 && first_of_unit >= ti.min(mutated.len() - 1) {
        let prev_owner = (mutated[ti - 1].module, mutated[ti - 1].item);
        unit_start_tok = (0..mutated.len()).find(|i| (mutated[*i].module, mutated[*i].item) == prev_owner).unwrap_or(0);
    }
    Some(Case {
        unit_start: offs[unit_start_tok],
        illegal_at: illegal_tok.map(|t| offs[t]),
        text,
        kind: kind_name.to_string(),
        as_file: src.chance(40),
        crlf,
        commented,
    })
}

struct Obs {
    report: Option<ReportData>,
    display: String,
    context: String,
    ok: bool,
    other_err: bool,
    /// a lexer error that carries no position (NotEnoughData): the parser failed and says nothing of where
    unlocated: bool,
}

fn observe(c: &Case, dir: &std::path::Path, idx: usize) -> Result<(Obs, Option<String>), String> {
    let (res, path) = if c.as_file {
        // every fifth file has a name that is not valid UTF-8 (legal on Unix): the path is
        // still reported, in its lossy rendering
        let p = if idx % 5 == 3 {
            use std::os::unix::ffi::OsStringExt;
            let mut name = format!("case_{idx}_donn").into_bytes();
            name.extend_from_slice(&[0xE9, b'e', b's', b'.', b'a', b's', b'n']);
            dir.join(std::ffi::OsString::from_vec(name))
        } else {
            dir.join(format!("case_{idx}.asn"))
        };
        std::fs::write(&p, &c.text).map_err(|e| format!("INFRA: {e}"))?;
        let r = crate::comp::guarded(|| Compiler::<RasnBackend, _>::new().add_asn_by_path(p.clone()).compile_to_string());
        let _ = std::fs::remove_file(&p);
        (r, Some(p.to_string_lossy().to_string()))
    } else {
        (crate::comp::guarded(|| Compiler::<RasnBackend, _>::new().add_asn_literal(c.text.clone()).compile_to_string()), None)
    };
    let res = res.map_err(|p| format!("panic: {p}"))?;
    match res {
        Ok(_) => Ok((Obs { report: None, display: String::new(), context: String::new(), ok: true, other_err: false, unlocated: false }, path)),
        Err(e) => {
            let text = c.text.clone();
            let (display, context) = crate::comp::guarded(|| (e.to_string(), e.contextualize(&text))).map_err(|p| format!("panic while rendering: {p}"))?;
            let report = match &e {
                CompilerError::Lexer(LexerError { kind: LexerErrorType::MatchingError(r) }) => Some(r.clone()),
                _ => None,
            };
            let other_err = report.is_none();
            let unlocated = matches!(&e, CompilerError::Lexer(LexerError { kind: LexerErrorType::NotEnoughData(_) }));
            Ok((Obs { report, display, context, ok: false, other_err, unlocated }, path))
        }
    }
}

fn first_number_after(s: &str, marker: &str) -> Option<usize> {
    let p = s.find(marker)? + marker.len();
    let digits: String = s[p..].chars().skip_while(|c| !c.is_ascii_digit()).take_while(|c| c.is_ascii_digit()).collect();
    digits.parse().ok()
}

fn judge(c: &Case, o: &Obs, path: &Option<String>) -> Option<(&'static str, String)> {
    if o.ok {
        if c.illegal_at.is_some() {
            return Some(("must-fail", "input with a character that starts no ASN.1 token compiled Ok".into()));
        }
        return None;
    }
    if o.unlocated {
        return Some(("position", format!("parsing failed without any position: {}", o.display.chars().take(120).collect::<String>())));
    }
    let Some(r) = &o.report else { return None };
    let len = c.text.len();
    if r.offset > len || !c.text.is_char_boundary(r.offset) {
        return Some(("offset", format!("offset {} outside the input (len {len}) or inside a character", r.offset)));
    }
    let expect_line = 1 + c.text[..r.offset].matches('\n').count();
    if r.line != expect_line {
        return Some(("line", format!("line {} but {} line breaks precede offset {} (expected line {expect_line})", r.line, expect_line - 1, r.offset)));
    }
    if r.offset < c.unit_start {
        return Some(("lower-bound", format!("offset {} lies before the first token (offset {}) of the malformed definition", r.offset, c.unit_start)));
    }
    if let Some(ill) = c.illegal_at {
        if r.offset > ill {
            return Some(("upper-bound", format!("offset {} lies after the first character that cannot continue any notation (offset {ill})", r.offset)));
        }
    }
    // Display line
    let disp_line = if path.is_some() {
        // "source file <path>:<line>:<col>"
        o.display.rsplit(':').nth(1).and_then(|s| s.parse::<usize>().ok())
    } else {
        first_number_after(&o.display, "line ")
    };
    if disp_line != Some(r.line) {
        return Some(("display-line", format!("Display says line {disp_line:?}, the structured report says {} ({})", r.line, o.display)));
    }
    // contextualize header
    let hdr = o.context.lines().find(|l| l.contains("╭─["))?;
    let hdr_line = if path.is_some() { hdr.trim_end_matches(']').rsplit(':').nth(1).and_then(|s| s.parse::<usize>().ok()) } else { first_number_after(hdr, "line ") };
    if hdr_line != Some(r.line) {
        return Some(("context-line", format!("contextualize header says line {hdr_line:?}, the report says {}", r.line)));
    }
    // marker line
    let marked: Vec<usize> = o
        .context
        .lines()
        .filter(|l| l.contains("FAILED AT THIS LINE"))
        .filter_map(|l| l.trim_start().split(|ch: char| !ch.is_ascii_digit()).next().and_then(|d| d.parse().ok()))
        .collect();
    match marked.as_slice() {
        [m] => {
            if *m != r.line {
                return Some(("marker-line", format!("contextualize marks line {m}, the report says {}", r.line)));
            }
        }
        [] => {
            if UNMARKED.fetch_add(1, std::sync::atomic::Ordering::Relaxed) < 3 && std::env::var("C17_UNMARKED").is_ok() {
                println!("UNMARKED line={} offset={}\n--- context:\n{}\n--- text:\n{}", r.line, r.offset, o.context, c.text.lines().enumerate().filter(|(i, _)| *i + 3 >= r.line && *i < r.line + 2).map(|(i, l)| format!("{:3} {l}", i + 1)).collect::<Vec<_>>().join("\n"));
            }
            // no line marked: acceptable only if the reported line is blank or lies behind the last
            // line of the input (an error at the very end): every other line must be shown and marked
            let line_text = c.text.lines().nth(r.line - 1).unwrap_or("");
            if !line_text.trim().is_empty() {
                return Some(("marker-line", format!("line {} (`{}`) is not marked in the excerpt of contextualize", r.line, line_text.trim().chars().take(60).collect::<String>())));
            }
        }
        _ => return Some(("marker-line", format!("several lines marked: {marked:?}"))),
    }
    // source path
    match path {
        Some(p) => {
            if r.src_file.as_deref() != Some(p.as_str()) {
                return Some(("path", format!("src_file {:?}, input came from {p}", r.src_file)));
            }
            if !o.display.contains(p.as_str()) || !o.context.contains(p.as_str()) {
                return Some(("path", "the source path is missing from a rendering".into()));
            }
        }
        None => {
            if r.src_file.is_some() {
                return Some(("path", format!("literal input reported with src_file {:?}", r.src_file)));
            }
        }
    }
    None
}

fn classify(_c: &Case, clause: &str) -> Option<&'static str> {
    match clause {
        _ => None,
    }
}

pub fn run(tier: Tier, seed: u64, replay: Option<String>) -> i32 {
    let mut ctx = Ctx::new("C17", tier, seed);
    ctx.rule = "generator outputs (1..3 modules, LF and CRLF, with and without comments) with one token-level corruption of one assignment or header: deletion, \
                replacement or insertion of a token, and the bounding subclass (a character that starts no ASN.1 token inserted at a token boundary or substituted \
                for a token); given as a literal or as a file; oracle (when the result is a lexer error; one that carries no position at all is a failure): offset inside the input on a char boundary, line = \
                1 + line breaks before the offset, first token of the malformed definition <= offset <= illegal character, Display / contextualize header / marked \
                line equal the report's line, src_file = path for files and None for literals; bounding corruptions must fail; non-trivial = corruption not in the \
                first unit of the input; distinct by input text"
        .into();
    ctx.assumptions = vec![
        "for deletions/replacements the mutated text may still be valid or fail later inside the same assignment: only the lower bound and the consistency clauses apply".into(),
        "a corruption of a unit's first token (deletion, replacement, or insertion in front of it) can equally be trailing junk of the previous unit: the lower bound is then the previous unit's first token".into(),
    ];
    let dir = tempfile::tempdir().expect("tempdir");
    let handle = |ctx: &mut Ctx, c: &Case, r: Result<(Obs, Option<String>), String>| {
        let nontrivial = c.unit_start > 0 && c.text[..c.unit_start].matches("::=").count() >= 2;
        match r {
            Err(e) if e.starts_with("INFRA") => ctx.inconclusive.push(e),
            Err(e) => {
                // panics are C08's business; recorded here
                ctx.class(&format!("panic-seen:{}", e.chars().take(60).collect::<String>()));
            }
            Ok((o, path)) => {
                ctx.case(&c.text, nontrivial);
                ctx.class(&format!("kind:{}", c.kind));
                ctx.class(if o.ok { "result:ok" } else if o.other_err { "result:other-error" } else { "result:matching-error" });
                if c.crlf {
                    ctx.class("crlf");
                }
                if c.commented {
                    ctx.class("commented");
                }
                if c.as_file {
                    ctx.class("as_file");
                }
                if let Some((clause, detail)) = judge(c, &o, &path) {
                    ctx.class(&format!("fails:{clause}"));
                    let fid = classify(c, clause);
                    let known = fid.map_or(false, |f| ctx.is_known(f));
                    if known || ctx.violations.len() < 4 {
                        ctx.fail(Failure {
                            finding: fid,
                            what: format!("{clause}: {detail}"),
                            replay: json!({"kind": "c17", "case": c, "sources": [{"name": "input.asn", "text": c.text}], "observed": {"detail": detail, "display": o.display, "context": o.context}}),
                        });
                    }
                }
            }
        }
    };
    if let Some(path) = replay {
        let v: Value = serde_json::from_str(&std::fs::read_to_string(&path).expect("replay")).expect("json");
        let c: Case = serde_json::from_value(v["case"].clone()).expect("case");
        let r = observe(&c, dir.path(), 0);
        handle(&mut ctx, &c, r);
        return ctx.finish();
    }
    let mut cases: Vec<Case> = vec![];
    for (_p, v) in crate::ev::replay_files("C17") {
        if let Ok(c) = serde_json::from_value::<Case>(v["case"].clone()) {
            cases.push(c);
        }
    }
    let n = tier.pick(150000, 1500000);
    let mut drv = Driver::new(seed, 17, 1500);
    let streams: Vec<Vec<u32>> = drv.draw(n).iter().map(|t| t.current()).collect();
    cases.extend(streams.par_iter().filter_map(|s| make_case(s)).collect::<Vec<_>>());
    if let Some(c) = cases.iter().find(|c| c.illegal_at.is_some()) {
        ctx.sample(json!({"kind": c.kind, "illegal_at": c.illegal_at, "unit_start": c.unit_start, "input": c.text.chars().take(700).collect::<String>()}));
    }
    let dirp = dir.path().to_path_buf();
    let results: Vec<Result<(Obs, Option<String>), String>> = cases.par_iter().enumerate().map(|(i, c)| observe(c, &dirp, i)).collect();
    for (c, r) in cases.iter().zip(results) {
        handle(&mut ctx, c, r);
    }
    ctx.extra.insert("excerpts_without_marked_line".into(), json!(UNMARKED.load(std::sync::atomic::Ordering::Relaxed)));
    ctx.finish()
}
