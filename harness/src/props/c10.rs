//! C10 — no definition is lost silently; warnings are local; Err carries nothing.
use crate::asn::*;
use crate::comp::{self, Cfg, Outcome};
use crate::ev::{Ctx, Failure, Tier};
use crate::gen::{self, GenCfg};
use crate::proj::{self, RItem, RModule};
use crate::props::common::*;
use crate::src::Src;
use crate::structure::{const_case, snake_case, title_case};
use serde_json::json;
use std::collections::{BTreeMap, BTreeSet};

pub fn gen_cfg() -> GenCfg {
    GenCfg {
        max_modules: 4,
        max_types: 9,
        max_values: 4,
        max_comps: 4,
        max_depth: 2,
        ..GenCfg::default()
    }
}

fn raw(name: &str, text: &str, kind: &str) -> Item {
    Item::Raw {
        name: name.to_string(),
        toks: text.split_whitespace().map(|s| s.to_string()).collect(),
        kind: kind.to_string(),
    }
}

/// replace 1..3 assignments by parseable-but-unsupported definitions of the same name;
/// returns the variant and the set of replaced names
pub fn replace(ms: &ModuleSet, src: &mut Src, allow_reloid: bool) -> (ModuleSet, BTreeSet<String>, Vec<String>) {
    let mut out = ms.clone();
    let mut replaced = BTreeSet::new();
    let mut kinds = vec![];
    let k = 1 + src.pick(3);
    for _ in 0..k {
        let mi = src.pick(out.modules.len());
        let n = out.modules[mi].items.len();
        if n == 0 {
            continue;
        }
        let ii = src.pick(n);
        let name = out.modules[mi].items[ii].name().to_string();
        if replaced.contains(&name) {
            continue;
        }
        let filler = match &out.modules[mi].items[ii] {
            Item::Type { .. } => match src.pick(3) {
                0 => raw(&name, &format!("{name} ::= REAL"), "real-type"),
                1 => raw(&name, &format!("{name} ::= VideotexString"), "videotex-type"),
                _ => raw(&name, &format!("{name} ::= INTEGER ( 5 .. 1 )"), "inverted-range"),
            },
            // (the RELATIVE-OID value vanishes silently — finding F-roid-val — and is used in
            // one variant only so that it does not colour the others)
            Item::Value { .. } => match src.pick(3) {
                1 if allow_reloid => raw(&name, &format!("{name} RELATIVE-OID ::= {{ 3 4 }}"), "reloid-value"),
                // (a REAL value vanishes silently as well — finding F-real-val — same treatment)
                2 if allow_reloid => raw(&name, &format!("{name} REAL ::= 15"), "real-value"),
                // a SEQUENCE value that cannot be linked (it names a component the type does not
                // have): unsupported value form whose only trace is the linker's warning
                0 if src.chance(50) => {
                    let helper = format!("Zz-Pair{mi}");
                    if !out.modules[mi].items.iter().any(|i| i.name() == helper) {
                        out.modules[mi].items.push(raw(&helper, &format!("{helper} ::= SEQUENCE {{ first INTEGER , second BOOLEAN OPTIONAL }}"), "helper-type"));
                    }
                    raw(&name, &format!("{name} {helper} ::= {{ first 1 , third 3 }}"), "unlinkable-struct-value")
                }
                _ => raw(&name, &format!("{name} VideotexString ::= \"abc\""), "videotex-value"),
            },
            Item::Raw { .. } => continue,
        };
        if let Item::Raw { kind, .. } = &filler {
            kinds.push(kind.clone());
        }
        out.modules[mi].items[ii] = filler;
        replaced.insert(name);
    }
    if src.chance(30) {
        let mi = src.pick(out.modules.len());
        let pos = src.pick(out.modules[mi].items.len() + 1);
        let mname = format!("FILLER-MACRO-{}", (b'A' + mi as u8) as char);
        out.modules[mi].items.insert(
            pos,
            raw(
                &mname,
                &format!("{mname} MACRO ::= BEGIN TYPE NOTATION ::= \"PARAMETER\" VALUE NOTATION ::= value(VALUE INTEGER) END"),
                "macro",
            ),
        );
        kinds.push("macro".into());
    }
    (out, replaced, kinds)
}

/// definitions that depend (transitively) on one of `roots`
fn dependents(ms: &ModuleSet, roots: &BTreeSet<String>) -> BTreeSet<String> {
    let mut deps: BTreeMap<String, BTreeSet<String>> = BTreeMap::new();
    for m in &ms.modules {
        for it in &m.items {
            let mut r = BTreeSet::new();
            match it {
                Item::Type { ty, .. } => {
                    gen::refs_in(ty, &mut r);
                    value_idents_ty(ty, &mut r);
                }
                Item::Value { ty, val, .. } => {
                    gen::refs_in(ty, &mut r);
                    value_idents(val, &mut r);
                }
                Item::Raw { .. } => {}
            }
            deps.insert(it.name().to_string(), r);
        }
    }
    let mut out: BTreeSet<String> = roots.clone();
    loop {
        let mut grew = false;
        for (n, r) in &deps {
            if !out.contains(n) && r.iter().any(|x| out.contains(x)) {
                out.insert(n.clone());
                grew = true;
            }
        }
        if !grew {
            break;
        }
    }
    out
}

fn value_idents(v: &Val, out: &mut BTreeSet<String>) {
    match v {
        Val::Ident(s) => {
            out.insert(s.clone());
        }
        Val::Choice(_, inner) => value_idents(inner, out),
        Val::Seq(fs) => fs.iter().for_each(|(_, v)| value_idents(v, out)),
        Val::SeqOf(vs) => vs.iter().for_each(|v| value_idents(v, out)),
        _ => {}
    }
}

fn value_idents_ty(ty: &Ty, out: &mut BTreeSet<String>) {
    gen::for_each_comp(ty, &mut |c| {
        if let Opt::Default(v) = &c.opt {
            value_idents(v, out);
        }
    });
}

fn names_word(text: &str, name: &str) -> bool {
    let mut start = 0;
    while let Some(p) = text[start..].find(name) {
        let a = start + p;
        let b = a + name.len();
        let before = text[..a].chars().next_back();
        let after = text[b..].chars().next();
        let ok = |c: Option<char>| c.map_or(true, |c| !(c.is_alphanumeric() || c == '-' || c == '_'));
        if ok(before) && ok(after) {
            return true;
        }
        start = b;
    }
    false
}

struct Compiled {
    mods: BTreeMap<String, RModule>,
    warnings: Vec<String>,
}

fn compile(ms: &ModuleSet) -> Result<Compiled, String> {
    match comp::compile_rasn1(&print(ms), &Cfg::default()) {
        Outcome::Ok(c) => {
            let mods = proj::project(&c.generated).map_err(|e| format!("unparsable: {e}"))?;
            Ok(Compiled { mods: mods.into_iter().map(|m| (m.name.clone(), m)).collect(), warnings: c.warnings })
        }
        Outcome::Err(e) => Err(format!("Err: {e}")),
        Outcome::Panic(p) => Err(format!("panic: {p}")),
    }
}

/// accounting: every assignment has a binding under its mangled name in its own module, or a
/// warning names it, or an unnamed warning is left over for it, or it is a category without output
fn accounting(ms: &ModuleSet, c: &Compiled, tainted: &BTreeSet<String>) -> Option<(String, String)> {
    let all_names: Vec<String> = ms.modules.iter().flat_map(|m| m.items.iter().map(|i| i.name().to_string())).collect();
    // warnings that name no definition can only account for a definition of the matching kind
    let mut anonymous: Vec<String> = c.warnings.iter().filter(|w| !all_names.iter().any(|n| names_word(w, n))).cloned().collect();
    // pass 0: definitions without a binding and without a warning that names them
    let mut open_items: Vec<(&Module, &Item, String, String)> = vec![];
    for m in &ms.modules {
        let rm = c.mods.get(&snake_case(&m.name));
        for it in &m.items {
            let name = it.name();
            let (rust, is_value) = match it {
                Item::Value { .. } => (const_case(name), true),
                Item::Raw { kind, .. } if kind.ends_with("-value") => (const_case(name), true),
                _ => (title_case(name), false),
            };
            let present = rm.map_or(false, |rm| {
                rm.items.iter().any(|i| match i {
                    RItem::Struct(_) | RItem::Enum(_) if !is_value => i.name() == Some(rust.as_str()),
                    RItem::Const(k) if is_value => k.name == rust,
                    _ => false,
                })
            });
            if present || c.warnings.iter().any(|w| names_word(w, name)) {
                continue;
            }
            let kind = match it {
                Item::Raw { kind, .. } => kind.clone(),
                Item::Type { .. } => "type".into(),
                Item::Value { .. } => "value".into(),
            };
            open_items.push((m, it, rust, kind));
        }
    }
    // pass 1: unsupported fillers take the unnamed warning of their own kind
    let fragment = |kind: &str| match kind {
        "real-type" => Some("Real types are currently unsupported"),
        "videotex-type" | "videotex-value" => Some("VideotexString"),
        _ => None,
    };
    open_items.retain(|(_, _, _, kind)| match fragment(kind) {
        Some(fr) => match anonymous.iter().position(|w| w.contains(fr)) {
            Some(p) => {
                anonymous.remove(p);
                false
            }
            None => true,
        },
        None => true,
    });
    // pass 2: any remaining definition may be the subject of a leftover warning that does not
    // carry its name (generator errors of nested members and of values have no PDU name).
    // Leftover warnings are handed out to the likeliest subjects first, so that when there
    // are fewer warnings than missing definitions the blame lands on the kinds that are
    // known to vanish silently.
    let rank = |it: &Item, kind: &str| -> u8 {
        if kind == "reloid-value" || kind == "real-value" {
            3
        } else if tainted.contains(it.name()) && matches!(it, Item::Value { .. }) {
            2
        } else if tainted.contains(it.name()) {
            1
        } else {
            0
        }
    };
    open_items.sort_by_key(|(_, it, _, kind)| rank(it, kind));
    let n_take = anonymous.len().min(open_items.len());
    open_items.drain(..n_take);
    if let Some((m, it, rust, kind)) = open_items.first() {
        let kind = if tainted.contains(it.name()) && fragment(kind).is_none() && kind != "reloid-value" && kind != "real-value" {
            format!("dependent-{kind}")
        } else {
            kind.clone()
        };
        return Some((
            kind,
            format!(
                "`{}` of module {} has no binding `{rust}` and no warning mentions it (warnings: {:?})",
                print_item(it),
                m.name,
                c.warnings.iter().take(4).collect::<Vec<_>>()
            ),
        ));
    }
    None
}

/// the same accounting for the TypeScript backend: every assignment is declared under its JER
/// name (`export type|const|enum <name>`), or a warning names it, or an unnamed warning is
/// left over for it
fn accounting_ts(ms: &ModuleSet, ts: &str, warnings: &[String]) -> Option<(String, String)> {
    let all_names: Vec<String> = ms.modules.iter().flat_map(|m| m.items.iter().map(|i| i.name().to_string())).collect();
    let mut anonymous = warnings.iter().filter(|w| !all_names.iter().any(|n| names_word(w, n))).count();
    let declared = |jer: &str| -> bool {
        ["export type ", "export const ", "export enum "].iter().any(|kw| {
            let pat = format!("{kw}{jer}");
            let mut start = 0;
            while let Some(p) = ts[start..].find(&pat) {
                let b = start + p + pat.len();
                if ts[b..].chars().next().map_or(true, |c| !(c.is_alphanumeric() || c == '_')) {
                    return true;
                }
                start = b;
            }
            false
        })
    };
    let mut open: Vec<(String, String)> = vec![];
    for m in &ms.modules {
        for it in &m.items {
            let name = it.name();
            let jer = name.replace('-', "_");
            if declared(&jer) || warnings.iter().any(|w| names_word(w, name)) {
                continue;
            }
            let kind = match it {
                Item::Raw { kind, .. } => kind.clone(),
                Item::Type { .. } => "type".into(),
                Item::Value { .. } => "value".into(),
            };
            open.push((
                kind,
                format!("`{}` of module {} has no TypeScript declaration `{jer}` and no warning mentions it (warnings: {:?})", print_item(it), m.name, warnings.iter().take(4).collect::<Vec<_>>()),
            ));
        }
    }
    // unnamed warnings are handed to the other definitions first: a RELATIVE-OID value is
    // known to vanish without one (F-roid-val)
    open.sort_by_key(|(k, _)| (k == "reloid-value" || k == "real-value") as u8);
    let n = anonymous.min(open.len());
    open.drain(..n);
    anonymous -= n;
    let _ = anonymous;
    open.into_iter().next()
}

fn owner<'a>(item_name: &str, is_fn: bool, owners: &'a [(String, String)]) -> Option<&'a str> {
    // owners: (rust type name, asn name)
    for (rust, asn) in owners {
        if is_fn {
            let p = snake_case(rust);
            if item_name.starts_with(&format!("{p}_")) {
                return Some(asn);
            }
        } else {
            for base in [item_name, item_name.strip_prefix("Anonymous").unwrap_or(item_name)] {
                if let Some(rest) = base.strip_prefix(rust.as_str()) {
                    if rest.is_empty() || rest.starts_with(|c: char| c.is_uppercase()) {
                        return Some(asn);
                    }
                }
            }
        }
    }
    None
}

/// locality: bindings of definitions that do not depend on a replaced one are unchanged
fn locality(ms: &ModuleSet, base: &Compiled, var: &Compiled, tainted: &BTreeSet<String>) -> Option<String> {
    for m in &ms.modules {
        let rname = snake_case(&m.name);
        let (Some(bm), Some(vm)) = (base.mods.get(&rname), var.mods.get(&rname)) else {
            // a module whose every definition was replaced may vanish; otherwise it must exist
            let independent = m.items.iter().any(|i| !tainted.contains(i.name()));
            if independent && base.mods.contains_key(&rname) {
                return Some(format!("module {} has independent definitions but its block disappeared", m.name));
            }
            continue;
        };
        let owners: Vec<(String, String)> = m
            .items
            .iter()
            .filter_map(|i| match i {
                Item::Type { name, .. } => Some((title_case(name), name.clone())),
                _ => None,
            })
            .collect();
        let var_texts: BTreeSet<&str> = vm.items.iter().map(|i| i.text()).collect();
        for it in &bm.items {
            let own: Option<String> = match it {
                RItem::Struct(_) | RItem::Enum(_) => owner(it.name().unwrap(), false, &owners).map(|s| s.to_string()),
                RItem::Fn(f) => owner(&f.name, true, &owners).map(|s| s.to_string()),
                RItem::Impl(i) => owner(&i.target, false, &owners).map(|s| s.to_string()),
                RItem::Const(k) => m.items.iter().find(|x| const_case(x.name()) == k.name).map(|x| x.name().to_string()),
                _ => None,
            };
            let Some(own) = own else { continue };
            if tainted.contains(&own) {
                continue;
            }
            if !var_texts.contains(it.text()) {
                return Some(format!(
                    "binding of `{own}` (module {}), which does not depend on a replaced definition, changed or vanished: {}",
                    m.name,
                    it.text().chars().take(200).collect::<String>()
                ));
            }
        }
    }
    None
}

fn ren(ty: &mut Ty, from: &str, to: &str) {
    match ty {
        Ty::Ref { name, .. } if name == from => *name = to.to_string(),
        Ty::Sequence(Fields { root, ext }) | Ty::Set(Fields { root, ext }) | Ty::Choice(Alts { root, ext }) => {
            for c in root.iter_mut() {
                ren(&mut c.ty, from, to);
            }
            if let Some(adds) = ext {
                for ad in adds.iter_mut() {
                    match ad {
                        Addition::Comp(c) => ren(&mut c.ty, from, to),
                        Addition::Group { comps, .. } => comps.iter_mut().for_each(|c| ren(&mut c.ty, from, to)),
                    }
                }
            }
        }
        Ty::SeqOf(o) | Ty::SetOf(o) => ren(&mut o.elem, from, to),
        _ => {}
    }
}

/// rename a type that governs a value assignment to a name written in capitals only (a legal
/// typereference, X.680 12.2): every definition must still be accounted for
fn allcaps_variant(ms: &ModuleSet) -> Option<(ModuleSet, String, String)> {
    let imported: BTreeSet<&String> = ms.modules.iter().flat_map(|m| m.imports.iter().flat_map(|i| i.symbols.iter())).collect();
    let (mi, tname) = ms.modules.iter().enumerate().find_map(|(mi, m)| {
        m.items.iter().find_map(|i| match i {
            Item::Value { ty: Ty::Ref { name, module: None, .. }, .. } if !imported.contains(name) && m.items.iter().any(|t| matches!(t, Item::Type { name: n, .. } if n == name)) => Some((mi, name.clone())),
            _ => None,
        })
    })?;
    let to = format!("ZQ-K{mi}");
    let mut out = ms.clone();
    for it in out.modules[mi].items.iter_mut() {
        match it {
            Item::Type { name, ty, .. } => {
                if *name == tname {
                    *name = to.clone();
                }
                ren(ty, &tname, &to);
            }
            Item::Value { ty, .. } => ren(ty, &tname, &to),
            _ => {}
        }
    }
    Some((out, tname, to))
}

/// rename one type of module 1 to the name of a type of module 0 (nobody imports either)
fn dup_names(ms: &ModuleSet) -> Option<(ModuleSet, String)> {
    if ms.modules.len() < 2 {
        return None;
    }
    let imported: BTreeSet<&String> = ms.modules.iter().flat_map(|m| m.imports.iter().flat_map(|i| i.symbols.iter())).collect();
    // plain aliases are kept out of it: with definitions indexed by bare name a renamed alias
    // can close an alias cycle, on which the pinned linker recurses without bound (C08's matter)
    let alias_targets: BTreeSet<&String> = ms
        .modules
        .iter()
        .flat_map(|m| m.items.iter())
        .filter_map(|i| match i {
            Item::Type { ty: Ty::Ref { name, .. }, .. } => Some(name),
            _ => None,
        })
        .collect();
    let ok = |name: &String, ty: &Ty| !imported.contains(name) && !alias_targets.contains(name) && !matches!(ty, Ty::Ref { .. });
    let a = ms.modules[0].items.iter().find_map(|i| match i {
        Item::Type { name, ty, .. } if ok(name, ty) => Some(name.clone()),
        _ => None,
    })?;
    let b = ms.modules[1].items.iter().find_map(|i| match i {
        Item::Type { name, ty, .. } if ok(name, ty) => Some(name.clone()),
        _ => None,
    })?;
    let mut out = ms.clone();
    for it in out.modules[1].items.iter_mut() {
        match it {
            Item::Type { name, ty, .. } => {
                if *name == b {
                    *name = a.clone();
                }
                ren(ty, &b, &a);
            }
            Item::Value { ty, .. } => ren(ty, &b, &a),
            _ => {}
        }
    }
    Some((out, a))
}

/// with the same name in two modules, each block's binding must be that module's definition
fn structure_of(ms: &ModuleSet, c: &Compiled, name: &str) -> Option<String> {
    let mods: Vec<RModule> = c.mods.values().cloned().collect();
    let discs = crate::structure::check_set(ms, &mods);
    discs
        .iter()
        .find(|d| d.at.starts_with(name) && d.clause.starts_with("C02"))
        .map(|d| format!("{} at {}: {}", d.clause, d.at, d.detail))
}

fn classify(kind: &str) -> Option<&'static str> {
    match kind {
        "reloid-value" => Some("F-roid-val"),
        "real-value" => Some("F-real-val"),
        "dependent-value" => Some("F-dependent-dropped"),
        _ => None,
    }
}

// ---------------------------------------------------------------------------------------
// the same accounting when the sources reach the compiler through the builder in every call
// order: literal / single path / path iterator per module, `set_output_mode` before, between
// or after them. A source that was handed over and is not in the result is a lost definition.
/// `calls`: one of `literal`, `path`, `path-iterator:<k>` (takes k modules) per step, and `OUTPUT` once
fn builder_eval(ms: &ModuleSet, calls: &[String], dir: &std::path::Path) -> Option<String> {
    use crate::props::c20::{apply_op, Op, St};
    use rasn_compiler::prelude::{Compiler, RasnBackend, TypescriptBackend};
    let _ = std::fs::create_dir_all(dir);
    let texts: Vec<String> = ms.modules.iter().map(|m| print(&ModuleSet { modules: vec![m.clone()] })).collect();
    let path = |k: usize| {
        let p = dir.join(format!("m{k}.asn"));
        let _ = std::fs::write(&p, &texts[k]);
        p
    };
    let mut ops: Vec<Op> = vec![];
    let mut i = 0;
    for c in calls {
        if c == "OUTPUT" {
            ops.push(Op::Output);
        } else if i >= texts.len() {
            break;
        } else if c == "literal" {
            ops.push(Op::Lit(texts[i].clone()));
            i += 1;
        } else if c == "path" {
            ops.push(Op::Path(path(i)));
            i += 1;
        } else {
            let k = c.rsplit(':').next().and_then(|x| x.parse::<usize>().ok()).unwrap_or(1).min(texts.len() - i).max(1);
            ops.push(Op::Iter((i..i + k).map(path).collect()));
            i += k;
        }
    }
    let mut failure: Option<String> = None;
    let mut st = St::<RasnBackend>::New(Compiler::<RasnBackend, _>::new());
    for op in &ops {
        st = apply_op(st, op, None);
    }
    if let St::Ready(c) = st {
        if let Ok(Ok(r)) = comp::guarded(|| c.compile_to_string()) {
            if let Ok(mods) = proj::project(&r.generated) {
                let comp = Compiled { mods: mods.into_iter().map(|m| (m.name.clone(), m)).collect(), warnings: r.warnings.iter().map(|w| w.to_string()).collect() };
                if let Some((kind, d)) = accounting(ms, &comp, &BTreeSet::new()) {
                    if classify(&kind).is_none() {
                        failure = Some(format!("rasn backend: {d}"));
                    }
                }
            }
        }
    }
    if failure.is_none() {
        let mut st = St::<TypescriptBackend>::New(Compiler::<TypescriptBackend, _>::new());
        for op in &ops {
            st = apply_op(st, op, None);
        }
        if let St::Ready(c) = st {
            if let Ok(Ok(r)) = comp::guarded(|| c.compile_to_string()) {
                let w: Vec<String> = r.warnings.iter().map(|w| w.to_string()).collect();
                if let Some((kind, d)) = accounting_ts(ms, &r.generated, &w) {
                    if classify(&kind).is_none() {
                        failure = Some(format!("TypeScript backend: {d}"));
                    }
                }
            }
        }
    }
    let _ = std::fs::remove_dir_all(dir);
    failure
}

fn builder_leg(ctx: &mut Ctx, tier: Tier, seed: u64) {
    let n = tier.pick(150, 1500);
    let mut drv = crate::ev::Driver::new(seed, 1010, 2500);
    let streams: Vec<Vec<u32>> = drv.draw(n).iter().map(|t| t.current()).collect();
    let work = tempfile::tempdir().expect("tempdir");
    let mut reported = 0;
    for (idx, s) in streams.iter().enumerate() {
        let ms = gen_set(s, &GenCfg { max_modules: 4, imports: false, ..gen_cfg() });
        if ms.modules.len() < 2 {
            continue;
        }
        let mut src = Src::new(&s[s.len() / 2..]);
        let mut calls: Vec<String> = vec![];
        let mut i = 0;
        while i < ms.modules.len() {
            match src.pick(3) {
                0 => {
                    calls.push("literal".into());
                    i += 1;
                }
                1 => {
                    calls.push("path".into());
                    i += 1;
                }
                _ => {
                    let k = 1 + src.pick(ms.modules.len() - i);
                    calls.push(format!("path-iterator:{k}"));
                    i += k;
                }
            }
        }
        let out_at = src.pick(calls.len() + 1);
        calls.insert(out_at, "OUTPUT".into());
        let shape = calls.join(" > ");
        let failure = builder_eval(&ms, &calls, &work.path().join(format!("b{idx}")));
        ctx.case(&format!("builder:{idx}:{shape}"), out_at < calls.len() - 1);
        ctx.class("leg:builder-call-order");
        ctx.class(&format!("builder:output-mode-{}", if out_at == 0 { "first" } else if out_at == calls.len() - 1 { "last" } else { "in-between" }));
        if let Some(d) = failure {
            ctx.class("fails:builder");
            if reported < 3 {
                reported += 1;
                ctx.fail(Failure {
                    finding: None,
                    what: format!("sources handed over by the builder calls `{shape}`: {d}"),
                    replay: json!({"kind": "c10-builder", "calls": calls, "model_json": serde_json::to_string(&ms).unwrap(), "sources": ms.modules.iter().enumerate().map(|(k, m)| json!({"name": format!("m{k}"), "text": print(&ModuleSet { modules: vec![m.clone()] })})).collect::<Vec<_>>()}),
                });
            }
        }
    }
}

pub fn eval(ms: &ModuleSet, stream_salt: u64) -> Verdict {
    let feats = features(ms);
    let base = match compile(ms) {
        Ok(c) => c,
        Err(_) => return Verdict::Skip("base-did-not-compile"),
    };
    if let Some((kind, d)) = accounting(ms, &base, &BTreeSet::new()) {
        return Verdict::Fail { key: format!("accounting-base:{kind}"), finding: classify(&kind), what: format!("unaccounted definition: {d}"), observed: json!(d), nontrivial: true };
    }
    // aliases between type references written in capitals only (they read like class names):
    // they are type assignments and have to be accounted for like any other
    {
        let mut var = ms.clone();
        for t in ["ZQA ::= INTEGER ( 0 .. 7 )", "ZQB ::= ZQA", "ZQ-1 ::= ZQB", "Zq-Mixed ::= ZQ-1", "ZQC ::= Zq-Mixed"] {
            var.modules[0].items.push(raw(t.split_whitespace().next().unwrap(), t, "allcaps-alias"));
        }
        if let Ok(vc) = compile(&var) {
            if let Some((kind, d)) = accounting(&var, &vc, &BTreeSet::new()) {
                if classify(&kind).is_none() {
                    return Verdict::Fail { key: format!("accounting-alias:{kind}"), finding: None, what: format!("unaccounted definition next to all-capitals aliases: {d}"), observed: json!({"variant": print(&var), "detail": d}), nontrivial: true };
                }
            }
        }
    }
    // parameterized types whose own linking fails (they instantiate themselves, or a template
    // nobody defines), with dummy references spelled like flawless top-level definitions: the
    // failure of the template is reported, the definitions next to it are not lost with it
    {
        let mut var = ms.clone();
        for t in [
            "Zt-Elem ::= BOOLEAN",
            "zt-max INTEGER ::= 16",
            "Zt-Other ::= SEQUENCE { e Zt-Elem , n INTEGER ( 0 .. zt-max ) }",
            "Zt-List { Zt-Elem } ::= SEQUENCE { head Zt-Elem , tail Zt-List { Zt-Elem } OPTIONAL }",
            "Zt-Wrap { Zt-Elem } ::= SEQUENCE { body Zt-Nowhere { Zt-Elem } }",
            "Zt-Chain { INTEGER : zt-max } ::= SEQUENCE { size INTEGER ( 0 .. zt-max ) , next Zt-Chain { zt-max } OPTIONAL }",
        ] {
            let name = t.split_whitespace().next().unwrap();
            var.modules[0].items.push(raw(name, t, if name == "zt-max" { "plain-value" } else { "template-neighbour" }));
        }
        if let Ok(vc) = compile(&var) {
            if let Some((kind, d)) = accounting(&var, &vc, &BTreeSet::new()) {
                if classify(&kind).is_none() {
                    return Verdict::Fail { key: format!("accounting-template:{kind}"), finding: None, what: format!("unaccounted definition next to parameterized types that fail to link: {d}"), observed: json!({"variant": print(&var), "detail": d}), nontrivial: true };
                }
            }
            if let Outcome::Ok(tc) = comp::compile_ts(&[print(&var)]) {
                if let Some((kind, d)) = accounting_ts(&var, &tc.generated, &tc.warnings) {
                    if kind != "reloid-value" && kind != "real-value" {
                        return Verdict::Fail { key: format!("accounting-template-ts:{kind}"), finding: None, what: format!("unaccounted definition next to parameterized types that fail to link (TypeScript backend): {d}"), observed: json!({"variant": print(&var), "detail": d, "backend": "typescript"}), nontrivial: true };
                    }
                }
            }
        }
    }
    // replacement choices are a pure function of the model (so that shrinking re-derives them)
    let h = crate::ev::hash_str(&print(ms)) ^ stream_salt;
    let seeds: Vec<u32> = (0..64).map(|i| ((h.rotate_left(i * 7) ^ (i as u64).wrapping_mul(0x9e3779b97f4a7c15)) & 0xffff_ffff) as u32).collect();
    let mut nontrivial = false;
    // failures attributed to a listed finding do not stop the evaluation: the remaining
    // checks still run, and an unexplained failure takes precedence in the verdict
    let mut failures: Vec<(String, Option<&'static str>, String, serde_json::Value)> = vec![];
    for round in 0..3 {
        let mut src = Src::new(&seeds[round * 20..round * 20 + 20]);
        let (var, replaced, kinds) = replace(ms, &mut src, round == 2);
        if replaced.is_empty() && kinds.is_empty() {
            continue;
        }
        let tainted = dependents(ms, &replaced);
        let n_items: usize = ms.modules.iter().map(|m| m.items.len()).sum();
        if !replaced.is_empty() && tainted.len() > replaced.len() && tainted.len() < n_items {
            nontrivial = true;
        }
        let vc = match compile(&var) {
            Ok(c) => c,
            Err(e) => {
                failures.push((
                    "variant-status".into(),
                    None,
                    format!("replacing {replaced:?} by unsupported-but-parseable definitions ({kinds:?}) turned Ok into {e}"),
                    json!({"variant": print(&var)}),
                ));
                continue;
            }
        };
        if let Some((kind, d)) = accounting(&var, &vc, &tainted) {
            failures.push((
                format!("accounting:{kind}"),
                classify(&kind),
                format!("unaccounted definition after replacement: {d}"),
                json!({"variant": print(&var), "detail": d}),
            ));
        }
        // the TypeScript backend over the same variant (an Err is a reported rejection)
        if let Outcome::Ok(tc) = comp::compile_ts(&[print(&var)]) {
            if let Some((kind, d)) = accounting_ts(&var, &tc.generated, &tc.warnings) {
                failures.push((
                    format!("accounting-ts:{kind}"),
                    if kind == "reloid-value" { Some("F-roid-val") } else if kind == "real-value" { Some("F-real-val") } else { None },
                    format!("unaccounted definition after replacement (TypeScript backend): {d}"),
                    json!({"variant": print(&var), "detail": d, "backend": "typescript"}),
                ));
            }
        }
        if let Some(d) = locality(ms, &base, &vc, &tainted) {
            failures.push((
                "locality".into(),
                None,
                format!("warning not local (replaced {replaced:?}, kinds {kinds:?}): {d}"),
                json!({"variant": print(&var), "detail": d}),
            ));
        }
    }
    // same bare name in two modules (legal: names are module-scoped)
    if let Some(dup) = dup_names(ms) {
        match compile(&dup.0) {
            Ok(dc) => {
                if let Some((_kind, d)) = accounting(&dup.0, &dc, &BTreeSet::new()) {
                    failures.push((
                        "accounting:dup-name".into(),
                        Some("F-dup"),
                        format!("same name `{}` in two modules: {d}", dup.1),
                        json!({"variant": print(&dup.0), "detail": d}),
                    ));
                } else {
                    // both present: they must be the bindings of their own module's definition
                    let a = structure_of(&dup.0, &dc, &dup.1);
                    if let Some(d) = a {
                        failures.push((
                            "dup-name-cross".into(),
                            Some("F-dup"),
                            format!("same name `{}` in two modules: {d}", dup.1),
                            json!({"variant": print(&dup.0), "detail": d}),
                        ));
                    }
                }
            }
            Err(e) => failures.push(("dup-status".into(), None, format!("renaming a type to a name used in another module turned Ok into {e}"), json!({"variant": print(&dup.0)}))),
        }
    }
    // a type reference in capitals only
    if let Some((var, from, to)) = allcaps_variant(ms) {
        match compile(&var) {
            Ok(vc) => {
                if let Some((_kind, d)) = accounting(&var, &vc, &BTreeSet::new()) {
                    failures.push((
                        "accounting:allcaps-typereference".into(),
                        Some("F-allcaps"),
                        format!("type `{from}` renamed to `{to}` (capitals only): {d}"),
                        json!({"variant": print(&var), "detail": d}),
                    ));
                }
            }
            // an Err is a reported rejection: nothing is lost silently
            Err(_) => {}
        }
    }
    let pick = failures.iter().position(|f| f.1.is_none()).or(if failures.is_empty() { None } else { Some(0) });
    if let Some(i) = pick {
        let (key, finding, what, observed) = failures.swap_remove(i);
        return Verdict::Fail { key, finding, what, observed, nontrivial: true };
    }
    Verdict::Pass { nontrivial, classes: feats.iter().map(|s| s.to_string()).collect() }
}

pub fn run(tier: Tier, seed: u64, replay: Option<String>) -> i32 {
    let mut ctx = Ctx::new("C10", tier, seed);
    ctx.rule = "module sets from the §3 generator (1..4 modules, types and values); each is compiled as is and in three variants where 1..3 assignments are \
                replaced in place by parseable-but-unsupported definitions of the same name (REAL / VideotexString type, inverted range, VideotexString / \
                RELATIVE-OID value) and a MACRO definition may be inserted; oracle: (accounting) every assignment has a binding under its mangled name in its \
                own module block, or a warning names it, or an unnamed warning is left over for it; (locality) bindings of definitions that do not depend on a \
                replaced one are token-identical to the unmodified compilation; one evaluation = one input with its three variants; non-trivial = a replacement \
                with at least one surviving dependent and one surviving independent definition; distinct by input text; plus the builder leg: 2..4 modules handed \
                over module by module as literal / path / path iterator with set_output_mode before, between or after them, the same accounting over the result of both backends"
        .into();
    ctx.assumptions = vec![
        "an unnamed warning (e.g. 'Real types are currently unsupported!') accounts for one missing definition".into(),
        "the Err leg is structural: compile_to_string returns Result, so a failed compilation has no bindings; delivery is C20".into(),
    ];
    let salt = seed;
    let e = move |m: &ModuleSet| eval(m, salt);
    let run = GenericRun {
        gcfg: gen_cfg(),
        n: tier.pick(12000, 150000),
        stream_len: 3000,
        salt: 10,
        shrink_budget: 300,
        max_violations: 3,
        eval: &e,
    };
    // text repros of listed findings (no model): the named constant must be missing without a warning
    let text_repro = |ctx: &mut Ctx, v: &serde_json::Value| {
        let text = v["sources"][0]["text"].as_str().unwrap_or("").to_string();
        let missing = v["expect_missing"].as_str().unwrap_or("").to_string();
        let fid: Option<&'static str> = match v["finding"].as_str() {
            Some("F-roid-val") => Some("F-roid-val"),
            Some("F-real-val") => Some("F-real-val"),
            Some("F-dependent-dropped") => Some("F-dependent-dropped"),
            Some("F-allcaps") => Some("F-allcaps"),
            _ => None,
        };
        if fid.is_none() && v["finding"].as_str() == Some("F-dup") {
            if let Outcome::Ok(c) = comp::compile_rasn1(&text, &Cfg::default()) {
                ctx.case(&text, true);
                let blocks = crate::proj::project(&c.generated).unwrap_or_default();
                let with = blocks.iter().filter(|m| m.count_named("Same") == 1).count();
                if with < 2 && !c.warnings.iter().any(|w| w.contains("Same")) {
                    ctx.fail(crate::ev::Failure {
                        finding: Some("F-dup"),
                        what: format!("`Same` is defined in two modules but only {with} block(s) have a binding and no warning mentions it"),
                        replay: v.clone(),
                    });
                }
            }
            return;
        }
        if let Outcome::Ok(c) = comp::compile_rasn1(&text, &Cfg::default()) {
            ctx.case(&text, true);
            let silent = !c.generated.contains(&format!(" {missing} ")) && !c.warnings.iter().any(|w| w.to_uppercase().replace('-', "_").contains(&missing));
            if silent {
                ctx.fail(crate::ev::Failure {
                    finding: fid,
                    what: format!("definition {missing} has no binding and no warning"),
                    replay: v.clone(),
                });
            }
        }
    };
    if let Some(p) = &replay {
        if let Ok(v) = serde_json::from_str::<serde_json::Value>(&std::fs::read_to_string(p).unwrap_or_default()) {
            if v["kind"].as_str() == Some("c10-text") {
                text_repro(&mut ctx, &v);
                return ctx.finish();
            }
            if v["kind"].as_str() == Some("c10-builder") {
                let ms: Option<ModuleSet> = v["model_json"].as_str().and_then(|t| serde_json::from_str(t).ok());
                let calls: Vec<String> = v["calls"].as_array().map(|a| a.iter().filter_map(|x| x.as_str().map(|s| s.to_string())).collect()).unwrap_or_default();
                if let Some(ms) = ms {
                    let work = tempfile::tempdir().expect("tempdir");
                    ctx.case(&format!("builder:replay:{}", calls.join(" > ")), true);
                    if let Some(d) = builder_eval(&ms, &calls, &work.path().join("r")) {
                        ctx.fail(Failure { finding: None, what: format!("sources handed over by the builder calls `{}`: {d}", calls.join(" > ")), replay: v.clone() });
                    }
                }
                return ctx.finish();
            }
        }
    }
    for (_p, v) in crate::ev::replay_files("C10") {
        if v["kind"].as_str() == Some("c10-text") {
            text_repro(&mut ctx, &v);
        }
    }
    if let Some(p) = replay {
        let r = replay_generic(&mut ctx, &run, "c10", &p);
        let code = ctx.finish();
        return if r == 2 { 2 } else { code };
    }
    run_generic(&mut ctx, &run, "c10");
    builder_leg(&mut ctx, tier, seed);
    ctx.finish()
}
