//! R-ts: structural parser for the subset of TypeScript declarations the backend can emit.
use std::collections::BTreeMap;

#[derive(Clone, Debug, PartialEq)]
pub enum Tok {
    Ident(String),
    Str(String),
    Num(String),
    P(char),
}

pub fn lex(src: &str) -> Result<Vec<Tok>, String> {
    let cs: Vec<char> = src.chars().collect();
    let mut i = 0;
    let mut out = vec![];
    while i < cs.len() {
        let c = cs[i];
        if c.is_whitespace() {
            i += 1;
        } else if c == '/' && cs.get(i + 1) == Some(&'/') {
            while i < cs.len() && cs[i] != '\n' {
                i += 1;
            }
        } else if c == '/' && cs.get(i + 1) == Some(&'*') {
            i += 2;
            loop {
                if i + 1 >= cs.len() {
                    return Err("unterminated block comment".into());
                }
                if cs[i] == '*' && cs[i + 1] == '/' {
                    i += 2;
                    break;
                }
                i += 1;
            }
        } else if c == '"' {
            let mut s = String::new();
            i += 1;
            loop {
                match cs.get(i) {
                    None => return Err("unterminated string literal".into()),
                    Some('\\') => {
                        if let Some(n) = cs.get(i + 1) {
                            s.push(*n);
                        }
                        i += 2;
                    }
                    Some('"') => {
                        i += 1;
                        break;
                    }
                    Some('\n') => return Err("newline in string literal".into()),
                    Some(ch) => {
                        s.push(*ch);
                        i += 1;
                    }
                }
            }
            out.push(Tok::Str(s));
        } else if c.is_alphabetic() || c == '_' || c == '$' {
            let mut s = String::new();
            while i < cs.len() && (cs[i].is_alphanumeric() || cs[i] == '_' || cs[i] == '$') {
                s.push(cs[i]);
                i += 1;
            }
            out.push(Tok::Ident(s));
        } else if c.is_ascii_digit() || (c == '-' && cs.get(i + 1).map_or(false, |d| d.is_ascii_digit())) {
            let mut s = String::new();
            s.push(c);
            i += 1;
            while i < cs.len() && (cs[i].is_ascii_alphanumeric() || cs[i] == '.') {
                s.push(cs[i]);
                i += 1;
            }
            out.push(Tok::Num(s));
        } else {
            out.push(Tok::P(c));
            i += 1;
        }
    }
    Ok(out)
}

/// delimiter balance over the token stream (strings and comments already removed)
pub fn balanced(toks: &[Tok]) -> Result<(), String> {
    let mut stack = vec![];
    for t in toks {
        if let Tok::P(c) = t {
            match c {
                '{' | '[' | '(' => stack.push(*c),
                '}' | ']' | ')' => {
                    let want = match c {
                        '}' => '{',
                        ']' => '[',
                        _ => '(',
                    };
                    if stack.pop() != Some(want) {
                        return Err(format!("unbalanced `{c}`"));
                    }
                }
                _ => {}
            }
        }
    }
    if let Some(c) = stack.pop() {
        return Err(format!("unclosed `{c}`"));
    }
    Ok(())
}

#[derive(Clone, Debug, PartialEq)]
pub enum TsType {
    Name(String),
    StrLit(String),
    Object { members: Vec<(String, bool, TsType)>, index_signature: bool },
    Array(Box<TsType>),
    Union(Vec<TsType>),
}

#[derive(Clone, Debug, PartialEq)]
pub enum Decl {
    Type(TsType),
    Enum(Vec<(String, String)>),
    Const,
}

#[derive(Clone, Debug, Default)]
pub struct Namespace {
    pub name: String,
    /// local alias -> (namespace, name)
    pub imports: Vec<(String, String, String)>,
    pub decls: Vec<(String, Decl)>,
}

struct P<'a> {
    t: &'a [Tok],
    i: usize,
}

impl<'a> P<'a> {
    fn peek(&self) -> Option<&Tok> {
        self.t.get(self.i)
    }
    fn next(&mut self) -> Option<Tok> {
        let t = self.t.get(self.i).cloned();
        self.i += 1;
        t
    }
    fn eat_p(&mut self, c: char) -> bool {
        if self.peek() == Some(&Tok::P(c)) {
            self.i += 1;
            true
        } else {
            false
        }
    }
    fn expect_p(&mut self, c: char) -> Result<(), String> {
        if self.eat_p(c) {
            Ok(())
        } else {
            Err(format!("expected `{c}`, found {:?} at token {}", self.peek(), self.i))
        }
    }
    fn ident(&mut self) -> Result<String, String> {
        match self.next() {
            Some(Tok::Ident(s)) => Ok(s),
            other => Err(format!("expected identifier, found {other:?} at token {}", self.i - 1)),
        }
    }
    fn kw(&mut self, k: &str) -> Result<(), String> {
        let id = self.ident()?;
        if id == k {
            Ok(())
        } else {
            Err(format!("expected `{k}`, found `{id}`"))
        }
    }

    fn ty(&mut self) -> Result<TsType, String> {
        let mut alts = vec![self.postfix()?];
        while self.eat_p('|') {
            alts.push(self.postfix()?);
        }
        Ok(if alts.len() == 1 { alts.pop().unwrap() } else { TsType::Union(alts) })
    }
    fn postfix(&mut self) -> Result<TsType, String> {
        let mut t = self.primary()?;
        while self.peek() == Some(&Tok::P('[')) && self.t.get(self.i + 1) == Some(&Tok::P(']')) {
            self.i += 2;
            t = TsType::Array(Box::new(t));
        }
        Ok(t)
    }
    fn primary(&mut self) -> Result<TsType, String> {
        match self.next() {
            Some(Tok::P('{')) => {
                let mut members = vec![];
                let mut index_signature = false;
                loop {
                    if self.eat_p('}') {
                        break;
                    }
                    if self.eat_p('[') {
                        // index signature [key: string]: any
                        self.ident()?;
                        self.expect_p(':')?;
                        self.ty()?;
                        self.expect_p(']')?;
                        self.expect_p(':')?;
                        self.ty()?;
                        index_signature = true;
                    } else {
                        let name = match self.next() {
                            Some(Tok::Ident(s)) | Some(Tok::Str(s)) => s,
                            other => return Err(format!("expected member name, found {other:?}")),
                        };
                        let opt = self.eat_p('?');
                        self.expect_p(':')?;
                        let t = self.ty()?;
                        members.push((name, opt, t));
                    }
                    if !(self.eat_p(',') || self.eat_p(';')) {
                        // a member separator may be omitted only before `}` or an index signature
                        // on a new line (the backend emits `\n\t[key: string]: any`)
                        if self.peek() != Some(&Tok::P('}')) && self.peek() != Some(&Tok::P('[')) {
                            return Err(format!("expected `,` between members, found {:?}", self.peek()));
                        }
                    }
                }
                Ok(TsType::Object { members, index_signature })
            }
            Some(Tok::P('(')) => {
                let t = self.ty()?;
                self.expect_p(')')?;
                Ok(t)
            }
            Some(Tok::Str(s)) => Ok(TsType::StrLit(s)),
            Some(Tok::Ident(s)) => {
                let mut name = s;
                while self.eat_p('.') {
                    name = format!("{name}.{}", self.ident()?);
                }
                Ok(TsType::Name(name))
            }
            other => Err(format!("expected a type, found {other:?} at token {}", self.i - 1)),
        }
    }

    fn namespace(&mut self) -> Result<Namespace, String> {
        self.kw("export")?;
        self.kw("namespace")?;
        let mut ns = Namespace { name: self.ident()?, ..Default::default() };
        self.expect_p('{')?;
        loop {
            if self.eat_p('}') {
                break;
            }
            if self.eat_p(';') {
                continue;
            }
            match self.ident()?.as_str() {
                "import" => {
                    let alias = self.ident()?;
                    self.expect_p('=')?;
                    let from = self.ident()?;
                    self.expect_p('.')?;
                    let name = self.ident()?;
                    self.expect_p(';')?;
                    ns.imports.push((alias, from, name));
                }
                "export" => match self.ident()?.as_str() {
                    "type" => {
                        let name = self.ident()?;
                        self.expect_p('=')?;
                        let t = self.ty()?;
                        self.expect_p(';')?;
                        ns.decls.push((name, Decl::Type(t)));
                    }
                    "enum" => {
                        let name = self.ident()?;
                        self.expect_p('{')?;
                        let mut ms = vec![];
                        loop {
                            if self.eat_p('}') {
                                break;
                            }
                            let m = self.ident()?;
                            self.expect_p('=')?;
                            let v = match self.next() {
                                Some(Tok::Str(s)) => s,
                                other => return Err(format!("enum member `{m}` is not string-valued: {other:?}")),
                            };
                            ms.push((m, v));
                            self.eat_p(',');
                        }
                        self.eat_p(';');
                        ns.decls.push((name, Decl::Enum(ms)));
                    }
                    "const" => {
                        let name = self.ident()?;
                        self.expect_p('=')?;
                        // expression: balanced tokens up to `;` at depth 0
                        let mut depth = 0i32;
                        loop {
                            match self.next() {
                                None => return Err(format!("const `{name}`: unterminated initialiser")),
                                Some(Tok::P(c)) if "{[(".contains(c) => depth += 1,
                                Some(Tok::P(c)) if "}])".contains(c) => {
                                    depth -= 1;
                                    if depth < 0 {
                                        return Err(format!("const `{name}`: unbalanced initialiser"));
                                    }
                                }
                                Some(Tok::P(';')) if depth == 0 => break,
                                _ => {}
                            }
                        }
                        ns.decls.push((name, Decl::Const));
                    }
                    other => return Err(format!("unexpected `export {other}`")),
                },
                other => return Err(format!("unexpected `{other}` in namespace body")),
            }
        }
        Ok(ns)
    }
}

pub fn parse(src: &str) -> Result<Vec<Namespace>, String> {
    let toks = lex(src)?;
    balanced(&toks)?;
    let mut p = P { t: &toks, i: 0 };
    let mut out = vec![];
    while p.peek().is_some() {
        out.push(p.namespace()?);
    }
    Ok(out)
}

pub fn decl_map(ns: &Namespace) -> BTreeMap<String, Vec<&Decl>> {
    let mut m: BTreeMap<String, Vec<&Decl>> = BTreeMap::new();
    for (n, d) in &ns.decls {
        m.entry(n.clone()).or_default().push(d);
    }
    m
}
