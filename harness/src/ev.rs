//! Evidence, known findings, replay files, and the generation/shrinking driver.
use proptest::strategy::{Strategy, ValueTree};
use proptest::test_runner::{Config, RngSeed, TestRunner};
use serde_json::{json, Map, Value};
use std::collections::hash_map::DefaultHasher;
use std::collections::{BTreeMap, BTreeSet, HashSet};
use std::hash::{Hash, Hasher};
use std::path::PathBuf;
use std::time::Instant;

pub const VERIF: &str = "/verif";

/// where run-time output goes (evidence, viol-* replays); /verif unless VERIF_OUT is set
/// (used for background exploration that must not disturb the committed tree)
pub fn out_dir() -> String {
    std::env::var("VERIF_OUT").unwrap_or_else(|_| VERIF.to_string())
}

#[derive(Clone, Copy, Debug, PartialEq, Eq)]
pub enum Tier {
    Quick,
    Thorough,
}

impl Tier {
    pub fn name(self) -> &'static str {
        match self {
            Tier::Quick => "quick",
            Tier::Thorough => "thorough",
        }
    }
    pub fn pick<T>(self, q: T, t: T) -> T {
        match self {
            Tier::Quick => q,
            Tier::Thorough => t,
        }
    }
}

#[derive(Clone, Debug)]
pub struct Finding {
    pub id: String,
    pub property: String,
    pub status: String,
    pub title: String,
    pub repro: Option<String>,
    pub commit: Option<String>,
}

pub fn load_findings() -> Vec<Finding> {
    let path = format!("{VERIF}/known_findings.json");
    let txt = match std::fs::read_to_string(&path) {
        Ok(t) => t,
        Err(_) => return vec![],
    };
    let v: Value = serde_json::from_str(&txt).expect("known_findings.json is not valid JSON");
    v["findings"]
        .as_array()
        .cloned()
        .unwrap_or_default()
        .into_iter()
        .map(|f| Finding {
            id: f["id"].as_str().unwrap_or("").to_string(),
            property: f["property"].as_str().unwrap_or("").to_string(),
            status: f["status"].as_str().unwrap_or("").to_string(),
            title: f["title"].as_str().unwrap_or("").to_string(),
            repro: f["repro"].as_str().map(|s| s.to_string()),
            commit: f["commit"].as_str().map(|s| s.to_string()),
        })
        .collect()
}

/// A failed oracle evaluation.
#[derive(Clone, Debug)]
pub struct Failure {
    /// id of the finding whose exact signature (input class AND deviation shape) this
    /// failure matches, as decided by the property's classifier; None = unexplained
    pub finding: Option<&'static str>,
    /// short one-line description
    pub what: String,
    /// replay payload (self-contained case)
    pub replay: Value,
}

pub struct Ctx {
    pub property: &'static str,
    pub tier: Tier,
    pub seed: u64,
    pub start: Instant,
    pub evaluations: u64,
    nontrivial: HashSet<u64>,
    pub rule: String,
    pub samples: Vec<Value>,
    pub classes: BTreeMap<String, u64>,
    pub assumptions: Vec<String>,
    pub extra: Map<String, Value>,
    pub exhaustive: bool,
    pub findings: Vec<Finding>,
    /// finding id -> number of failures attributed to it in this run
    pub known_hits: BTreeMap<String, u64>,
    /// finding ids whose repro was confirmed to still fail
    pub confirmed: BTreeSet<String>,
    pub violations: Vec<(String, String)>,
    pub inconclusive: Vec<String>,
    pub level: &'static str,
    /// how many violations get a replay file and a VIOLATION line (the rest are only counted)
    pub max_replays: usize,
}

pub fn hash_str(s: &str) -> u64 {
    let mut h = DefaultHasher::new();
    s.hash(&mut h);
    h.finish()
}

impl Ctx {
    /// a context for re-judging during shrinking: no clean-up of earlier run-time output
    pub fn scratch(property: &'static str) -> Ctx {
        Ctx::new_(property, Tier::Quick, 0, false)
    }

    pub fn new(property: &'static str, tier: Tier, seed: u64) -> Ctx {
        Ctx::new_(property, tier, seed, true)
    }

    fn new_(property: &'static str, tier: Tier, seed: u64, clean: bool) -> Ctx {
        // stale run-time output of earlier failing runs
        if !clean {
        } else if let Ok(rd) = std::fs::read_dir(format!("{}/replays/{property}", out_dir())) {
            for e in rd.flatten() {
                if e.file_name().to_string_lossy().starts_with("viol-") {
                    let _ = std::fs::remove_file(e.path());
                }
            }
        }
        Ctx {
            property,
            tier,
            seed,
            start: Instant::now(),
            evaluations: 0,
            nontrivial: HashSet::new(),
            rule: String::new(),
            samples: vec![],
            classes: BTreeMap::new(),
            assumptions: vec![],
            extra: Map::new(),
            exhaustive: false,
            findings: load_findings()
                .into_iter()
                .filter(|f| f.property == property)
                .collect(),
            known_hits: BTreeMap::new(),
            confirmed: BTreeSet::new(),
            violations: vec![],
            inconclusive: vec![],
            level: "exploration",
            max_replays: 5,
        }
    }

    /// one oracle evaluation; `canonical` identifies the case, `nontrivial` per the rule
    pub fn case(&mut self, canonical: &str, nontrivial: bool) {
        self.evaluations += 1;
        if nontrivial {
            self.nontrivial.insert(hash_str(canonical));
        }
    }
    pub fn class(&mut self, name: &str) {
        *self.classes.entry(name.to_string()).or_insert(0) += 1;
    }
    pub fn class_n(&mut self, name: &str, n: u64) {
        *self.classes.entry(name.to_string()).or_insert(0) += n;
    }
    pub fn sample(&mut self, v: Value) {
        if self.samples.len() < 6 {
            self.samples.push(v);
        }
    }
    pub fn sample_text(&mut self, label: &str, text: &str) {
        let t: String = text.chars().take(1500).collect();
        self.sample(json!({ "kind": label, "input": t }));
    }
    pub fn is_known(&self, id: &str) -> bool {
        self.findings.iter().any(|f| f.id == id && f.status == "known")
    }

    /// Record a failure: attributed to a listed known finding, or a violation.
    /// Returns true when it was a violation.
    pub fn fail(&mut self, f: Failure) -> bool {
        if let Some(id) = f.finding {
            if self.is_known(id) {
                *self.known_hits.entry(id.to_string()).or_insert(0) += 1;
                self.confirmed.insert(id.to_string());
                return false;
            }
        }
        // new violation: write replay file (first few only)
        if self.violations.len() < self.max_replays {
            let dir = format!("{}/replays/{}", out_dir(), self.property);
            let _ = std::fs::create_dir_all(&dir);
            let mut payload = f.replay.clone();
            if let Value::Object(m) = &mut payload {
                m.insert("property".into(), json!(self.property));
                m.insert("what".into(), json!(f.what));
                if let Some(id) = f.finding {
                    m.insert("matches_unlisted_finding".into(), json!(id));
                }
            }
            let text = serde_json::to_string_pretty(&payload).unwrap();
            let path = format!("{dir}/viol-{:016x}.json", hash_str(&text));
            let _ = std::fs::write(&path, text);
            println!("VIOLATION property={} replay={}", self.property, path);
            println!("  {}", f.what.chars().take(400).collect::<String>());
            self.violations.push((path, f.what));
        } else {
            self.violations.push((String::new(), f.what));
        }
        true
    }

    pub fn finish(mut self) -> i32 {
        // KNOWN-FINDING lines: for each listed known finding confirmed in this run
        let listed: Vec<Finding> = self.findings.clone();
        for f in &listed {
            if f.status == "known" {
                if self.confirmed.contains(&f.id) {
                    println!("KNOWN-FINDING: property={} {} [{}]", self.property, f.title, f.id);
                } else {
                    self.extra.insert(
                        format!("finding_not_reproduced_{}", f.id),
                        json!("listed finding was not confirmed by this run"),
                    );
                }
            }
        }
        let wall = self.start.elapsed().as_secs_f64();
        let mut coverage = Map::new();
        coverage.insert("evaluations".into(), json!(self.evaluations));
        coverage.insert("distinct_nontrivial".into(), json!(self.nontrivial.len()));
        coverage.insert("rule".into(), json!(self.rule));
        coverage.insert("samples".into(), json!(self.samples));
        coverage.insert("classes".into(), json!(self.classes));
        coverage.insert("exhaustive".into(), json!(self.exhaustive));
        coverage.insert("attributed_to_known_findings".into(), json!(self.known_hits));
        if !self.inconclusive.is_empty() {
            coverage.insert("inconclusive".into(), json!(self.inconclusive));
        }
        for (k, v) in self.extra.iter() {
            coverage.insert(k.clone(), v.clone());
        }
        let ev = json!({
            "property_id": self.property,
            "tier": self.tier.name(),
            "seed": self.seed,
            "level": self.level,
            "coverage": coverage,
            "assumptions": self.assumptions,
            "wall_s": wall,
            "violations": self.violations.len(),
        });
        let dir = format!("{}/evidence", out_dir());
        let _ = std::fs::create_dir_all(&dir);
        std::fs::write(
            format!("{dir}/{}.json", self.property),
            serde_json::to_string_pretty(&ev).unwrap(),
        )
        .expect("cannot write evidence");
        println!(
            "{}: tier={} seed={} evaluations={} distinct_nontrivial={} violations={} known_hits={:?} wall={:.1}s",
            self.property,
            self.tier.name(),
            self.seed,
            self.evaluations,
            self.nontrivial.len(),
            self.violations.len(),
            self.known_hits,
            wall
        );
        if !self.violations.is_empty() {
            1
        } else {
            0
        }
    }
}

// ---------------------------------------------------------------------------------------
// Generation + shrinking driver over choice streams

pub struct Driver {
    runner: TestRunner,
    len: usize,
}

pub type Stream = Vec<u32>;

impl Driver {
    pub fn new(seed: u64, salt: u64, len: usize) -> Driver {
        let mut bytes = [0u8; 32];
        bytes[..8].copy_from_slice(&seed.to_le_bytes());
        bytes[8..16].copy_from_slice(&salt.to_le_bytes());
        bytes[16..24].copy_from_slice(&0x9e3779b97f4a7c15u64.to_le_bytes());
        let cfg = Config {
            failure_persistence: None,
            rng_seed: RngSeed::Fixed(seed ^ salt.rotate_left(17)),
            ..Config::default()
        };
        let _ = bytes;
        Driver {
            runner: TestRunner::new(cfg),
            len,
        }
    }

    fn strategy(&self) -> impl Strategy<Value = Stream> {
        proptest::collection::vec(proptest::num::u32::ANY, 0..self.len.max(1))
    }

    /// draw `n` choice streams together with their value trees
    pub fn draw(&mut self, n: usize) -> Vec<Box<dyn ValueTree<Value = Stream>>> {
        let strat = self.strategy();
        (0..n)
            .map(|_| {
                let t = strat.new_tree(&mut self.runner).expect("proptest new_tree");
                Box::new(t) as Box<dyn ValueTree<Value = Stream>>
            })
            .collect()
    }
}

/// Shrink a failing tree with proptest's simplify/complicate protocol.
/// `fails` returns true when the (shrunk) stream still fails *in the same way*.
pub fn shrink(
    tree: &mut dyn ValueTree<Value = Stream>,
    max_iters: usize,
    mut fails: impl FnMut(&Stream) -> bool,
) -> Stream {
    let mut best = tree.current();
    let mut iters = 0;
    if !tree.simplify() {
        return best;
    }
    loop {
        iters += 1;
        if iters > max_iters {
            break;
        }
        let cur = tree.current();
        if fails(&cur) {
            best = cur;
            if !tree.simplify() {
                break;
            }
        } else if !tree.complicate() {
            break;
        }
    }
    best
}

pub fn replay_dir(property: &str) -> PathBuf {
    PathBuf::from(format!("{VERIF}/replays/{property}"))
}

/// all committed replay/corpus JSON files of a property
pub fn replay_files(property: &str) -> Vec<(PathBuf, Value)> {
    let mut out = vec![];
    for dir in [
        format!("{VERIF}/replays/{property}"),
        format!("{VERIF}/corpus/{property}"),
    ] {
        if let Ok(rd) = std::fs::read_dir(&dir) {
            let mut paths: Vec<PathBuf> = rd.filter_map(|e| e.ok().map(|e| e.path())).collect();
            paths.sort();
            for p in paths {
                let fname = p.file_name().and_then(|n| n.to_str()).unwrap_or("").to_string();
                // viol-* files are run-time output of a failing run, not part of the corpus
                if p.extension().and_then(|e| e.to_str()) == Some("json") && !fname.starts_with("viol-") {
                    if let Ok(t) = std::fs::read_to_string(&p) {
                        if let Ok(v) = serde_json::from_str::<Value>(&t) {
                            out.push((p, v));
                        }
                    }
                }
            }
        }
    }
    out
}
