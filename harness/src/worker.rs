//! Isolated worker processes: anything that may panic, exhaust the stack or hang runs in a
//! child (`vcheck worker`), fed length-prefixed jobs on stdin, answering one line per job.
use crate::comp::{self, Cfg};
use rasn_compiler::prelude::*;
use std::io::{BufRead, BufReader, Read, Write};
use std::process::{Child, ChildStdin, Command, Stdio};
use std::sync::mpsc;
use std::time::Duration;

#[derive(Clone, Debug, PartialEq, Eq, Hash, serde::Serialize)]
pub enum Verdict {
    /// all compilations and renderings returned normally; (rasn kind, ts kind)
    Returned(String),
    Panic(String),
    /// the worker died (signal / abort) while processing the job
    Died(String),
    Timeout,
}

/// what a worker does with one input: both backends, two rasn configs, every rendering
pub fn exercise(text: &str) -> String {
    let mut kinds = vec![];
    let cfgs = [Cfg::default(), Cfg { opaque_open_types: false, ..Cfg::default() }];
    for cfg in &cfgs {
        match comp::compile_rasn_raw(&[text.to_string()], cfg) {
            Ok(r) => {
                for w in &r.warnings {
                    let _ = w.to_string();
                    let _ = w.contextualize(text);
                }
                kinds.push(if r.warnings.is_empty() { "ok" } else { "ok+w" });
            }
            Err(e) => {
                let _ = e.to_string();
                let _ = e.contextualize(text);
                kinds.push("err");
            }
        }
    }
    match Compiler::<TypescriptBackend, _>::new().add_asn_literal(text.to_string()).compile_to_string() {
        Ok(r) => {
            for w in &r.warnings {
                let _ = w.to_string();
                let _ = w.contextualize(text);
            }
            kinds.push(if r.warnings.is_empty() { "ok" } else { "ok+w" });
        }
        Err(e) => {
            let _ = e.to_string();
            let _ = e.contextualize(text);
            kinds.push("err");
        }
    }
    kinds.join(",")
}

/// child side
pub fn worker_main() -> i32 {
    comp::remove_env();
    comp::install_panic_hook();
    // runaway allocation must end the worker (reported as "died"), not the machine
    unsafe {
        let lim = libc::rlimit { rlim_cur: 4 << 30, rlim_max: 4 << 30 };
        libc::setrlimit(libc::RLIMIT_AS, &lim);
    }
    let stdin = std::io::stdin();
    let mut inp = stdin.lock();
    let stdout = std::io::stdout();
    loop {
        let mut lenb = [0u8; 4];
        if inp.read_exact(&mut lenb).is_err() {
            return 0;
        }
        let len = u32::from_le_bytes(lenb) as usize;
        let mut buf = vec![0u8; len];
        if inp.read_exact(&mut buf).is_err() {
            return 0;
        }
        let text = String::from_utf8_lossy(&buf).to_string();
        // run on a thread with the default main-thread stack size (8 MiB): that is what a
        // build script or the CLI gets
        let handle = std::thread::Builder::new()
            .stack_size(8 << 20)
            .spawn(move || {
                comp::install_panic_hook();
                comp::guarded(|| exercise(&text))
            })
            .expect("spawn");
        let line = match handle.join() {
            Ok(Ok(k)) => format!("R {k}"),
            Ok(Err(p)) => format!("P {}", p.replace('\n', " ")),
            Err(_) => "P thread join failed".to_string(),
        };
        let mut o = stdout.lock();
        let _ = writeln!(o, "{line}");
        let _ = o.flush();
    }
}

struct Proc {
    child: Child,
    stdin: ChildStdin,
    rx: mpsc::Receiver<String>,
}

fn spawn() -> Result<Proc, String> {
    let exe = std::env::current_exe().map_err(|e| e.to_string())?;
    let mut child = Command::new(exe)
        .arg("worker")
        .stdin(Stdio::piped())
        .stdout(Stdio::piped())
        .stderr(Stdio::null())
        .spawn()
        .map_err(|e| format!("INFRA: cannot spawn worker: {e}"))?;
    let stdin = child.stdin.take().unwrap();
    let stdout = child.stdout.take().unwrap();
    let (tx, rx) = mpsc::channel();
    std::thread::spawn(move || {
        let r = BufReader::new(stdout);
        for line in r.lines() {
            match line {
                Ok(l) => {
                    if tx.send(l).is_err() {
                        break;
                    }
                }
                Err(_) => break,
            }
        }
    });
    Ok(Proc { child, stdin, rx })
}

/// One lane: processes jobs sequentially in a child, restarting it when it dies or hangs.
pub struct Lane {
    proc_: Option<Proc>,
    pub timeout: Duration,
}

impl Lane {
    pub fn new(timeout: Duration) -> Lane {
        Lane { proc_: None, timeout }
    }

    pub fn run(&mut self, text: &str) -> Result<Verdict, String> {
        if self.proc_.is_none() {
            self.proc_ = Some(spawn()?);
        }
        let p = self.proc_.as_mut().unwrap();
        let bytes = text.as_bytes();
        let mut msg = (bytes.len() as u32).to_le_bytes().to_vec();
        msg.extend_from_slice(bytes);
        if p.stdin.write_all(&msg).is_err() || p.stdin.flush().is_err() {
            // the child is gone already (should not happen between jobs): restart once
            self.kill();
            self.proc_ = Some(spawn()?);
            let p = self.proc_.as_mut().unwrap();
            p.stdin.write_all(&msg).map_err(|e| format!("INFRA: worker stdin: {e}"))?;
            let _ = p.stdin.flush();
        }
        let p = self.proc_.as_mut().unwrap();
        match p.rx.recv_timeout(self.timeout) {
            Ok(line) => {
                if let Some(k) = line.strip_prefix("R ") {
                    Ok(Verdict::Returned(k.to_string()))
                } else if let Some(m) = line.strip_prefix("P ") {
                    Ok(Verdict::Panic(m.to_string()))
                } else {
                    Err(format!("INFRA: unexpected worker line {line:?}"))
                }
            }
            Err(mpsc::RecvTimeoutError::Timeout) => {
                self.kill();
                Ok(Verdict::Timeout)
            }
            Err(mpsc::RecvTimeoutError::Disconnected) => {
                let status = self.proc_.as_mut().and_then(|p| p.child.wait().ok());
                self.proc_ = None;
                use std::os::unix::process::ExitStatusExt;
                let how = match status {
                    Some(s) => match s.signal() {
                        Some(sig) => format!("signal {sig}"),
                        None => format!("exit {:?}", s.code()),
                    },
                    None => "unknown".into(),
                };
                Ok(Verdict::Died(how))
            }
        }
    }

    pub fn kill(&mut self) {
        if let Some(mut p) = self.proc_.take() {
            let _ = p.child.kill();
            let _ = p.child.wait();
        }
    }
}

impl Drop for Lane {
    fn drop(&mut self) {
        self.kill();
    }
}

/// Run all jobs over `lanes` worker processes; results in input order.
pub fn run_all(jobs: &[String], lanes: usize, timeout: Duration) -> Vec<Result<Verdict, String>> {
    let n = jobs.len();
    let next = std::sync::atomic::AtomicUsize::new(0);
    let results: std::sync::Mutex<Vec<Option<Result<Verdict, String>>>> = std::sync::Mutex::new(vec![None; n]);
    std::thread::scope(|s| {
        for _ in 0..lanes.max(1) {
            s.spawn(|| {
                let mut lane = Lane::new(timeout);
                loop {
                    let i = next.fetch_add(1, std::sync::atomic::Ordering::SeqCst);
                    if i >= n {
                        break;
                    }
                    let mut r = lane.run(&jobs[i]);
                    if let Ok(Verdict::Timeout) = r {
                        // re-confirm on a fresh worker with 5x the bound before calling it a hang
                        let mut l2 = Lane::new(timeout * 5);
                        r = l2.run(&jobs[i]);
                    }
                    results.lock().unwrap()[i] = Some(r);
                }
            });
        }
    });
    results.into_inner().unwrap().into_iter().map(|r| r.unwrap_or(Err("INFRA: job not run".into()))).collect()
}
