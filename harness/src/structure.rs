//! Structural oracle shared by C02 (components, order, shape) and C05 (extensibility):
//! walks the ASN.1 model and the syn projection in parallel, matching generated items to
//! model types by position and by the hoisting rule.
use crate::asn::*;
use crate::gen::Scope;
use crate::proj::*;
use std::collections::{BTreeMap, BTreeSet};

#[derive(Clone, Debug)]
pub struct Disc {
    /// clause label, e.g. "C02:count", "C05:non_exhaustive"
    pub clause: &'static str,
    pub at: String,
    pub detail: String,
}

/// one judgement of C03 that failed (tags, explicitness, automatic tagging)
#[derive(Clone, Debug, serde::Serialize)]
pub struct TagDisc {
    pub clause: &'static str,
    pub at: String,
    pub detail: String,
    pub tagging: Tagging,
    /// keyword of the source tag: None = no keyword, Some(true) = EXPLICIT
    pub keyword: Option<bool>,
    /// number of anonymous nested types between the type assignment and the position
    pub depth: usize,
    /// assignment | component | alternative | element | item
    pub position: &'static str,
    /// choice | open | other: what the tagged type resolves to
    pub target: &'static str,
    pub expected_explicit: Option<bool>,
    pub got_explicit: Option<bool>,
}

/// counters of what C03 judged (for evidence and non-triviality)
#[derive(Clone, Debug, Default, serde::Serialize)]
pub struct TagStats {
    pub source_tags: usize,
    pub untagged_positions: usize,
    pub automatic_items: usize,
    pub max_depth_tagged: usize,
}

// --- documented naming rule (rasn backend doc comments): hyphens removed, title/snake case

pub fn title_case(name: &str) -> String {
    let mut out = String::new();
    let mut up = true;
    for c in name.chars() {
        if c == '-' || c == '_' {
            up = true;
            continue;
        }
        if up {
            out.extend(c.to_uppercase());
            up = false;
        } else {
            out.push(c);
        }
    }
    out
}

pub fn snake_case(name: &str) -> String {
    let mut out = String::new();
    let chars: Vec<char> = name.chars().collect();
    for (i, c) in chars.iter().enumerate() {
        if *c == '-' {
            out.push('_');
            continue;
        }
        if c.is_uppercase() {
            if i > 0 && (chars[i - 1].is_lowercase() || chars[i - 1].is_ascii_digit()) {
                out.push('_');
            }
            out.extend(c.to_lowercase());
        } else {
            out.push(*c);
        }
    }
    out
}

pub fn const_case(name: &str) -> String {
    snake_case(name).to_uppercase()
}

const INT_TYPES: [&str; 9] = ["u8", "u16", "u32", "u64", "i8", "i16", "i32", "i64", "Integer"];

fn strip_wrapper<'a>(ty: &'a str, w: &str) -> Option<&'a str> {
    ty.strip_prefix(w)
        .and_then(|r| r.strip_prefix('<'))
        .and_then(|r| r.strip_suffix('>'))
}

fn unbox(ty: &str) -> &str {
    strip_wrapper(ty, "Box").unwrap_or(ty)
}

pub struct Walker<'a> {
    pub scope: &'a Scope,
    pub module: &'a Module,
    pub rmod: &'a RModule,
    pub out: Vec<Disc>,
    pub visited: BTreeSet<String>,
    /// (container item, field name, payload type string without Option) for the by-value graph
    pub boxed_off_cycle: usize,
    pub tag_out: Vec<TagDisc>,
    pub tag_stats: TagStats,
    pub depth: usize,
}

fn needs_unnesting(ty: &Ty) -> bool {
    match ty {
        Ty::Enumerated(_) | Ty::Choice(_) | Ty::Sequence(_) | Ty::Set(_) => true,
        Ty::SeqOf(o) | Ty::SetOf(o) => needs_unnesting(&o.elem) || has_cons(&o.elem) || o.etag.is_some(),
        _ => false,
    }
}

fn has_cons(ty: &Ty) -> bool {
    match ty {
        Ty::Integer { cons, .. }
        | Ty::BitString { cons, .. }
        | Ty::OctetString { cons }
        | Ty::Str { cons, .. }
        | Ty::Ref { cons, .. } => !cons.is_empty(),
        Ty::SeqOf(o) | Ty::SetOf(o) => o.size.is_some(),
        _ => false,
    }
}

impl<'a> Walker<'a> {
    fn d(&mut self, clause: &'static str, at: &str, detail: String) {
        self.out.push(Disc {
            clause,
            at: at.to_string(),
            detail,
        });
    }

    fn ext_implied(&self) -> bool {
        self.module.ext_implied
    }

    /// what the tagged type resolves to through untagged references
    fn tag_target(&self, ty: &Ty) -> &'static str {
        let mut cur = ty;
        for _ in 0..16 {
            match cur {
                Ty::Choice(_) => return "choice",
                Ty::Any => return "open",
                Ty::Ref { name, .. } => match self.scope.get(name) {
                    Some(d) if d.tag.is_none() => cur = &d.ty,
                    _ => return "other",
                },
                _ => return "other",
            }
        }
        "other"
    }

    /// C03: a source tag (or its absence) against the rasn tag attribute of the same position
    pub fn judge_tag(&mut self, model: Option<&Tag>, tagged_ty: &Ty, got: Option<&crate::proj::TagAttr>, at: &str, position: &'static str) {
        let target = self.tag_target(tagged_ty);
        let tagging = self.module.tagging;
        let depth = self.depth;
        let mut push = |w: &mut Self, clause: &'static str, detail: String, keyword: Option<bool>, exp: Option<bool>, got_e: Option<bool>| {
            w.tag_out.push(TagDisc { clause, at: at.to_string(), detail, tagging, keyword, depth, position, target, expected_explicit: exp, got_explicit: got_e });
        };
        match (model, got) {
            (None, None) => self.tag_stats.untagged_positions += 1,
            (None, Some(g)) => {
                self.tag_stats.untagged_positions += 1;
                push(self, "C03:tag-spurious", format!("no tag in the source, bindings carry tag({}, {}{})", g.class, g.num, if g.explicit { ", explicit" } else { "" }), None, None, Some(g.explicit));
            }
            (Some(t), None) => {
                self.tag_stats.source_tags += 1;
                push(self, "C03:tag-missing", format!("source tag [{:?} {}] is not applied by the bindings", t.class, t.num), t.mode, None, None);
            }
            (Some(t), Some(g)) => {
                self.tag_stats.source_tags += 1;
                self.tag_stats.max_depth_tagged = self.tag_stats.max_depth_tagged.max(depth);
                let class = match t.class {
                    Class::Context => "context",
                    Class::Application => "application",
                    Class::Private => "private",
                    Class::Universal => "universal",
                };
                if g.class != class || g.num != t.num as u64 {
                    push(self, "C03:tag-value", format!("source tag [{class} {}], bindings carry ({}, {})", t.num, g.class, g.num), t.mode, None, Some(g.explicit));
                    return;
                }
                // X.680 31.2.7; on a CHOICE-typed position rasn tags explicitly whatever the marking says
                let expected = if target == "choice" {
                    None
                } else {
                    Some(match t.mode {
                        Some(k) => k,
                        None => match tagging {
                            Tagging::Explicit | Tagging::NoClause => true,
                            Tagging::Implicit | Tagging::Automatic => target == "open",
                        },
                    })
                };
                if let Some(e) = expected {
                    if e != g.explicit {
                        push(
                            self,
                            "C03:explicit",
                            format!("tag [{class} {}] (keyword {:?}, module {:?}, tagged type: {target}) is applied {}, X.680 31.2.7 makes it {}", t.num, t.mode, tagging, if g.explicit { "explicitly" } else { "implicitly" }, if e { "explicit" } else { "implicit" }),
                            t.mode,
                            Some(e),
                            Some(g.explicit),
                        );
                    }
                }
            }
        }
    }

    /// C03: automatic tagging of a SEQUENCE / SET / CHOICE item
    fn judge_automatic(&mut self, root: &[Comp], ext: &Option<Vec<Addition>>, flags: &BTreeSet<String>, rname: &str, at: &str) {
        let mut outside = root.iter().filter(|c| c.tag.is_some()).count();
        let mut in_groups = 0;
        for a in ext.iter().flatten() {
            match a {
                Addition::Comp(c) => outside += c.tag.is_some() as usize,
                Addition::Group { comps, .. } => in_groups += comps.iter().filter(|c| c.tag.is_some()).count(),
            }
        }
        let expected = self.module.tagging == Tagging::Automatic && outside + in_groups == 0;
        let got = flags.contains("automatic_tags");
        self.tag_stats.automatic_items += 1;
        if expected != got {
            let tagging = self.module.tagging;
            let depth = self.depth;
            self.tag_out.push(TagDisc {
                clause: "C03:automatic",
                at: at.to_string(),
                detail: format!("{rname}: automatic_tags = {got}, expected {expected} (module {:?}; tagged components: {outside} outside extension groups, {in_groups} inside)", tagging),
                tagging,
                keyword: None,
                depth,
                position: if outside == 0 && in_groups > 0 { "item:tags-only-in-groups" } else { "item" },
                target: "other",
                expected_explicit: Some(expected),
                got_explicit: Some(got),
            });
        }
    }

    /// the token a component / element of this type must have (after removing Option/Box)
    fn expect_member_type(&self, ty: &Ty, hoisted: &str) -> Vec<String> {
        match ty {
            Ty::Null => vec!["()".into()],
            Ty::Boolean => vec!["bool".into()],
            Ty::Integer { .. } => INT_TYPES.iter().map(|s| s.to_string()).collect(),
            Ty::Enumerated(_) | Ty::Choice(_) | Ty::Sequence(_) | Ty::Set(_) => vec![hoisted.to_string()],
            Ty::BitString { .. } => vec!["BitString".into()],
            Ty::OctetString { .. } => vec!["OctetString".into()],
            Ty::Str { kind, .. } => vec![kind.rust().to_string()],
            Ty::Oid | Ty::RelOid => vec!["ObjectIdentifier".into()],
            Ty::GeneralizedTime => vec!["GeneralizedTime".into()],
            Ty::UtcTime => vec!["UtcTime".into()],
            Ty::Any => vec!["Any".into()],
            Ty::Ref { module, name, .. } => vec![match module {
                Some(m) => format!("super::{}::{}", snake_case(m), title_case(name)),
                None => title_case(name),
            }],
            Ty::SeqOf(o) | Ty::SetOf(o) => {
                if needs_unnesting(ty) {
                    vec![hoisted.to_string()]
                } else {
                    let w = if matches!(ty, Ty::SeqOf(_)) { "SequenceOf" } else { "SetOf" };
                    self.expect_member_type(&o.elem, hoisted)
                        .into_iter()
                        .flat_map(|e| vec![format!("{w}<{e}>"), format!("{w}<Box<{e}>>")])
                        .collect()
                }
            }
        }
    }

    /// verify the generated item `rname` against model type `ty` (type assignment or hoisted)
    pub fn verify_type(&mut self, ty: &Ty, rname: &str, at: &str) {
        if !self.visited.insert(rname.to_string()) {
            self.d("C02:duplicate", at, format!("item {rname} is needed for two different model types"));
            return;
        }
        let n = self.rmod.count_named(rname);
        if n != 1 {
            self.d(
                if n == 0 { "C02:missing" } else { "C02:duplicate" },
                at,
                format!("{n} generated items named {rname} (expected exactly one)"),
            );
            return;
        }
        match ty {
            Ty::Sequence(f) | Ty::Set(f) => {
                let is_set = matches!(ty, Ty::Set(_));
                let Some(rs) = self.rmod.find_struct(rname) else {
                    self.d("C02:kind", at, format!("{rname} is not a struct"));
                    return;
                };
                let rs = rs.clone();
                if !rs.named && !(rs.fields.is_empty()) {
                    self.d("C02:kind", at, format!("{rname} is a tuple struct, expected named fields"));
                    return;
                }
                if !rname.contains("ExtGroup") {
                    self.judge_automatic(&f.root, &f.ext, &rs.attrs.flags, rname, at);
                }
                if rs.attrs.flags.contains("set") != is_set {
                    self.d("C02:set", at, format!("{rname}: #[rasn(set)] = {} but model SET = {is_set}", !is_set));
                }
                // C05: extensibility
                let expect_ext = f.ext.is_some() || self.ext_implied();
                if rs.attrs.non_exhaustive != expect_ext {
                    self.d(
                        "C05:non_exhaustive",
                        at,
                        format!("{rname}: #[non_exhaustive] = {}, expected {expect_ext}", rs.attrs.non_exhaustive),
                    );
                }
                // members: root comps, then additions (a group is one member)
                enum M<'m> {
                    C(&'m Comp, bool),
                    G(&'m [Comp]),
                }
                let mut members: Vec<M> = f.root.iter().map(|c| M::C(c, false)).collect();
                if let Some(adds) = &f.ext {
                    for a in adds {
                        match a {
                            Addition::Comp(c) => members.push(M::C(c, true)),
                            Addition::Group { comps, .. } => members.push(M::G(comps)),
                        }
                    }
                }
                if rs.fields.len() != members.len() {
                    self.d(
                        "C02:count",
                        at,
                        format!("{rname}: {} fields for {} components", rs.fields.len(), members.len()),
                    );
                    return;
                }
                for (i, m) in members.iter().enumerate() {
                    let rf = &rs.fields[i];
                    match m {
                        M::C(c, is_add) => {
                            let cat = format!("{at}.{}", c.name);
                            self.check_member(c, &rf.name, &rf.ty, &rf.attrs, rname, &cat, false);
                            // C05 per member
                            let ea = rf.attrs.flags.contains("extension_addition");
                            let eg = rf.attrs.flags.contains("extension_addition_group");
                            if ea != *is_add || eg {
                                self.d(
                                    "C05:addition",
                                    &cat,
                                    format!("extension_addition={ea} group={eg}, expected addition={is_add} group=false"),
                                );
                            }
                        }
                        M::G(comps) => {
                            let first = &comps[0].name;
                            let cat = format!("{at}.[[{first}]]");
                            let ea = rf.attrs.flags.contains("extension_addition");
                            let eg = rf.attrs.flags.contains("extension_addition_group");
                            if !eg || ea {
                                self.d("C05:group", &cat, format!("group member has extension_addition={ea} extension_addition_group={eg}"));
                            }
                            let Some(inner) = strip_wrapper(&rf.ty, "Option") else {
                                self.d("C05:group", &cat, format!("group member type {} is not Option<_>", rf.ty));
                                continue;
                            };
                            let hoisted = unbox(inner).to_string();
                            let expect_h = format!("{rname}ExtGroup{}", title_case(first));
                            if hoisted != expect_h {
                                self.d("C02:hoist-name", &cat, format!("group struct {hoisted}, expected {expect_h}"));
                            }
                            // the hoisted struct holds exactly the grouped components in order
                            let gty = Ty::Sequence(Fields {
                                root: comps.to_vec(),
                                ext: None,
                            });
                            self.depth += 1;
                            self.verify_group_struct(&gty, &hoisted, &cat);
                            self.depth -= 1;
                        }
                    }
                }
            }
            Ty::Choice(a) => {
                let Some(re) = self.rmod.find_enum(rname) else {
                    self.d("C02:kind", at, format!("{rname} is not an enum"));
                    return;
                };
                let re = re.clone();
                if !re.attrs.flags.contains("choice") {
                    self.d("C02:kind", at, format!("{rname} lacks #[rasn(choice)]"));
                }
                let expect_ext = a.ext.is_some() || self.ext_implied();
                if re.attrs.non_exhaustive != expect_ext {
                    self.d(
                        "C05:non_exhaustive",
                        at,
                        format!("{rname}: #[non_exhaustive] = {}, expected {expect_ext}", re.attrs.non_exhaustive),
                    );
                }
                let alts = crate::gen::flat_comps(&a.root, &a.ext);
                self.judge_automatic(&a.root, &a.ext, &re.attrs.flags, rname, at);
                if re.variants.len() != alts.len() {
                    self.d(
                        "C02:count",
                        at,
                        format!("{rname}: {} variants for {} alternatives", re.variants.len(), alts.len()),
                    );
                    return;
                }
                for (i, (c, is_add)) in alts.iter().enumerate() {
                    let rv = &re.variants[i];
                    let cat = format!("{at}.{}", c.name);
                    if rv.payload.len() != 1 {
                        self.d("C02:type", &cat, format!("variant has {} payload types", rv.payload.len()));
                        continue;
                    }
                    self.check_member(c, &rv.name, &rv.payload[0], &rv.attrs, rname, &cat, true);
                    let ea = rv.attrs.flags.contains("extension_addition");
                    let eg = rv.attrs.flags.contains("extension_addition_group");
                    if ea != *is_add || eg {
                        self.d(
                            "C05:addition",
                            &cat,
                            format!("extension_addition={ea} group={eg}, expected addition={is_add}"),
                        );
                    }
                }
            }
            Ty::Enumerated(e) => {
                let Some(re) = self.rmod.find_enum(rname) else {
                    self.d("C02:kind", at, format!("{rname} is not an enum"));
                    return;
                };
                let re = re.clone();
                if !re.attrs.flags.contains("enumerated") {
                    self.d("C02:kind", at, format!("{rname} lacks #[rasn(enumerated)]"));
                }
                let expect_ext = e.ext.is_some() || self.ext_implied();
                if re.attrs.non_exhaustive != expect_ext {
                    self.d(
                        "C05:non_exhaustive",
                        at,
                        format!("{rname}: #[non_exhaustive] = {}, expected {expect_ext}", re.attrs.non_exhaustive),
                    );
                }
                let n_root = e.root.len();
                let all: Vec<&(String, Option<i128>)> = e.root.iter().chain(e.ext.iter().flatten()).collect();
                if re.variants.len() != all.len() {
                    self.d(
                        "C02:count",
                        at,
                        format!("{rname}: {} variants for {} enumerals", re.variants.len(), all.len()),
                    );
                    return;
                }
                for (i, (name, _)) in all.iter().enumerate() {
                    let rv = &re.variants[i];
                    let ident_ok = rv.name == *name || rv.attrs.identifier.as_deref() == Some(name.as_str());
                    if !ident_ok {
                        self.d("C02:order", &format!("{at}.{name}"), format!("variant {i} is {} (identifier {:?})", rv.name, rv.attrs.identifier));
                    }
                    let ea = rv.attrs.flags.contains("extension_addition");
                    if ea != (i >= n_root) {
                        self.d("C05:addition", &format!("{at}.{name}"), format!("enumeral extension_addition={ea}, expected {}", i >= n_root));
                    }
                }
            }
            Ty::SeqOf(o) | Ty::SetOf(o) => {
                let is_set = matches!(ty, Ty::SetOf(_));
                let Some(rs) = self.rmod.find_struct(rname) else {
                    self.d("C02:kind", at, format!("{rname} is not a struct"));
                    return;
                };
                let rs = rs.clone();
                if rs.named || rs.fields.len() != 1 || !rs.attrs.flags.contains("delegate") {
                    self.d("C02:kind", at, format!("{rname} is not a delegate newtype"));
                    return;
                }
                let w = if is_set { "SetOf" } else { "SequenceOf" };
                let Some(elem) = strip_wrapper(&rs.fields[0].ty, w) else {
                    self.d("C02:set", at, format!("{rname} wraps {}, expected {w}<_>", rs.fields[0].ty));
                    return;
                };
                let elem = unbox(elem).to_string();
                let hoisted_elem = elem == format!("Anonymous{rname}");
                if o.etag.is_some() || hoisted_elem {
                    // the element type is hoisted as Anonymous<Name>; the element's tag belongs there
                    // (and nothing else does: an untagged element's hoisted type carries no tag)
                    let got = self.rmod.find_struct(&elem).map(|s| s.attrs.tag.clone()).or_else(|| self.rmod.find_enum(&elem).map(|e| e.attrs.tag.clone())).flatten();
                    let got = if hoisted_elem { got } else { None };
                    let et = (*o.elem).clone();
                    self.judge_tag(o.etag.as_ref(), &et, got.as_ref(), &format!("{at}[]"), "element");
                }
                match &*o.elem {
                    Ty::Ref { .. } if o.etag.is_none() => {
                        let exp = self.expect_member_type(&o.elem, "");
                        if !exp.contains(&elem) {
                            self.d("C02:type", at, format!("{rname} element {elem}, expected {exp:?}"));
                        }
                    }
                    other => {
                        // anonymous element: hoisted as Anonymous<Name>
                        let exp = format!("Anonymous{rname}");
                        if elem != exp {
                            self.d("C02:hoist-name", at, format!("{rname} element {elem}, expected {exp}"));
                        }
                        let other = other.clone();
                        self.depth += 1;
                        self.verify_type(&other, &elem, &format!("{at}[]"));
                        self.depth -= 1;
                    }
                }
            }
            Ty::Ref { .. } => {
                let Some(rs) = self.rmod.find_struct(rname) else {
                    self.d("C02:kind", at, format!("{rname} is not a struct"));
                    return;
                };
                let exp = self.expect_member_type(ty, "");
                if rs.named || rs.fields.len() != 1 || !exp.contains(&unbox(&rs.fields[0].ty).to_string()) {
                    self.d(
                        "C02:type",
                        at,
                        format!("{rname} wraps {:?}, expected {exp:?}", rs.fields.iter().map(|f| f.ty.clone()).collect::<Vec<_>>()),
                    );
                }
            }
            leaf => {
                let Some(rs) = self.rmod.find_struct(rname) else {
                    self.d("C02:kind", at, format!("{rname} is not a struct"));
                    return;
                };
                let mut exp = self.expect_member_type(leaf, "");
                // fixed-size BIT/OCTET STRING assignments may use the Fixed* types (C04 judges n)
                if matches!(leaf, Ty::BitString { .. }) {
                    exp.push("FixedBitString<".into());
                }
                if matches!(leaf, Ty::OctetString { .. }) {
                    exp.push("FixedOctetString<".into());
                }
                let got = rs.fields.first().map(|f| f.ty.clone()).unwrap_or_default();
                let ok = !rs.named
                    && rs.fields.len() == 1
                    && exp.iter().any(|e| if e.ends_with('<') { got.starts_with(e.as_str()) } else { *e == got });
                if !ok {
                    self.d("C02:type", at, format!("{rname} wraps {got}, expected one of {exp:?}"));
                }
            }
        }
    }

    fn verify_group_struct(&mut self, gty: &Ty, hoisted: &str, at: &str) {
        // a group's struct is not a type of the source: its own non_exhaustive is not judged
        let before = self.out.len();
        self.verify_type(gty, hoisted, at);
        let implied = self.ext_implied();
        let mut i = before;
        while i < self.out.len() {
            if self.out[i].clause == "C05:non_exhaustive" && self.out[i].at == at && implied {
                self.out.remove(i);
            } else {
                i += 1;
            }
        }
    }

    #[allow(clippy::too_many_arguments)]
    fn check_member(
        &mut self,
        c: &Comp,
        rname_member: &str,
        rty: &str,
        attrs: &Attrs,
        parent: &str,
        at: &str,
        in_choice: bool,
    ) {
        // identity: position already fixed by the caller; the name must be the documented
        // rendering of the ASN.1 name or carry it in the identifier annotation
        let ident_ok = rname_member == snake_case(&c.name)
            || rname_member == c.name.replace('-', "_")
            || attrs.identifier.as_deref() == Some(c.name.as_str());
        if !ident_ok {
            self.d(
                "C02:order",
                at,
                format!("member {rname_member} (identifier {:?}) at the position of {}", attrs.identifier, c.name),
            );
        }
        // optionality
        let (inner, is_opt) = match strip_wrapper(rty, "Option") {
            Some(i) => (i, true),
            None => (rty, false),
        };
        let expect_opt = !in_choice && c.opt == Opt::Optional;
        if is_opt != expect_opt {
            self.d("C02:optional", at, format!("type {rty}: Option = {is_opt}, OPTIONAL = {expect_opt}"));
        }
        let expect_default = !in_choice && matches!(c.opt, Opt::Default(_));
        match (&attrs.default, expect_default) {
            (Some(fname), true) => match self.rmod.find_fn(fname) {
                Some(f) => {
                    if f.ret != inner {
                        self.d("C02:default", at, format!("default fn {fname} returns {}, field type is {inner}", f.ret));
                    }
                }
                None => self.d("C02:default", at, format!("default fn {fname} does not exist")),
            },
            (None, true) => self.d("C02:default", at, "DEFAULT component without default = \"fn\"".into()),
            (Some(f), false) => self.d("C02:default", at, format!("default = {f} on a component without DEFAULT")),
            (None, false) => {}
        }
        // C03: the component's / alternative's tag
        self.judge_tag(c.tag.as_ref(), &c.ty, attrs.tag.as_ref(), at, if in_choice { "alternative" } else { "component" });
        // type shape
        let payload = unbox(inner).to_string();
        let hoisted = format!("{parent}{}", title_case(&c.name));
        let exp = self.expect_member_type(&c.ty, &hoisted);
        if !exp.contains(&payload) {
            let clause = if needs_unnesting(&c.ty) { "C02:hoist-name" } else { "C02:type" };
            self.d(clause, at, format!("member type {rty}, expected (modulo Option/Box) one of {exp:?}"));
            return;
        }
        if needs_unnesting(&c.ty) {
            let t = c.ty.clone();
            // the member's tag sits on the field / variant; the hoisted item itself has none
            let own = self.rmod.find_struct(&hoisted).map(|s| s.attrs.tag.clone()).or_else(|| self.rmod.find_enum(&hoisted).map(|e| e.attrs.tag.clone())).flatten();
            if let Some(g) = own {
                let tagging = self.module.tagging;
                let depth = self.depth;
                let target = self.tag_target(&t);
                self.tag_out.push(TagDisc {
                    clause: "C03:tag-spurious",
                    at: at.to_string(),
                    detail: format!("the hoisted type {hoisted} of a member carries tag({}, {}{}) of its own", g.class, g.num, if g.explicit { ", explicit" } else { "" }),
                    tagging,
                    keyword: None,
                    depth,
                    position: "hoisted",
                    target,
                    expected_explicit: None,
                    got_explicit: Some(g.explicit),
                });
            }
            self.depth += 1;
            self.verify_type(&t, &hoisted, at);
            self.depth -= 1;
        }
    }
}

/// by-value containment graph of the generated items must be acyclic
pub fn by_value_cycle(rmods: &[RModule]) -> Option<Vec<String>> {
    fn by_value_names(ty: &str, out: &mut Vec<String>) {
        // drop Box<..>, SequenceOf<..>, SetOf<..> subtrees; look through Option<..>
        let mut s = ty.to_string();
        for w in ["Box<", "SequenceOf<", "SetOf<"] {
            while let Some(p) = s.find(w) {
                let mut depth = 0;
                let mut end = s.len();
                for (i, ch) in s[p..].char_indices() {
                    if ch == '<' {
                        depth += 1;
                    } else if ch == '>' {
                        depth -= 1;
                        if depth == 0 {
                            end = p + i + 1;
                            break;
                        }
                    }
                }
                s.replace_range(p..end, "");
            }
        }
        for tok in s.split(|c: char| !(c.is_alphanumeric() || c == '_')) {
            if !tok.is_empty() && tok != "Option" {
                out.push(tok.to_string());
            }
        }
    }
    let mut edges: BTreeMap<String, Vec<String>> = BTreeMap::new();
    for it in rmods.iter().flat_map(|m| m.items.iter()) {
        match it {
            RItem::Struct(s) => {
                let e = edges.entry(s.name.clone()).or_default();
                for f in &s.fields {
                    by_value_names(&f.ty, e);
                }
            }
            RItem::Enum(en) => {
                let e = edges.entry(en.name.clone()).or_default();
                for v in &en.variants {
                    for p in &v.payload {
                        by_value_names(p, e);
                    }
                }
            }
            _ => {}
        }
    }
    // DFS
    fn dfs(n: &str, edges: &BTreeMap<String, Vec<String>>, state: &mut BTreeMap<String, u8>, stack: &mut Vec<String>) -> bool {
        match state.get(n) {
            Some(1) => {
                stack.push(n.to_string());
                return true;
            }
            Some(2) => return false,
            _ => {}
        }
        state.insert(n.to_string(), 1);
        stack.push(n.to_string());
        if let Some(es) = edges.get(n) {
            for e in es {
                if edges.contains_key(e) && dfs(e, edges, state, stack) {
                    return true;
                }
            }
        }
        stack.pop();
        state.insert(n.to_string(), 2);
        false
    }
    let mut state = BTreeMap::new();
    for n in edges.keys() {
        let mut stack = vec![];
        if dfs(n, &edges, &mut state, &mut stack) {
            return Some(stack);
        }
    }
    None
}

/// Check a whole compilation (Ok, no warnings) against its model.
pub fn check_set(ms: &ModuleSet, rmods: &[RModule]) -> Vec<Disc> {
    check_set_full(ms, rmods).0
}

/// structure discrepancies (C02 / C05), tag discrepancies (C03) and what C03 judged
pub fn check_set_full(ms: &ModuleSet, rmods: &[RModule]) -> (Vec<Disc>, Vec<TagDisc>, TagStats) {
    let scope = Scope::from_set(ms);
    let mut out = vec![];
    let mut tag_out = vec![];
    let mut stats = TagStats::default();
    for m in &ms.modules {
        let rname = snake_case(&m.name);
        let Some(rmod) = rmods.iter().find(|r| r.name == rname) else {
            out.push(Disc {
                clause: "C02:missing",
                at: m.name.clone(),
                detail: format!("no generated module named {rname}"),
            });
            continue;
        };
        let mut w = Walker {
            scope: &scope,
            module: m,
            rmod,
            out: vec![],
            visited: BTreeSet::new(),
            boxed_off_cycle: 0,
            tag_out: vec![],
            tag_stats: TagStats::default(),
            depth: 0,
        };
        for it in &m.items {
            if let Item::Type { name, ty, tag } = it {
                let rname = title_case(name);
                // C03: the tag of the type assignment sits on the item itself
                let got = rmod.find_struct(&rname).map(|s| s.attrs.tag.clone()).or_else(|| rmod.find_enum(&rname).map(|e| e.attrs.tag.clone())).flatten();
                w.judge_tag(tag.as_ref(), ty, got.as_ref(), name, "assignment");
                w.verify_type(ty, &rname, name);
            }
        }
        // nothing extra: every struct/enum of the module was reached from a model type
        for it in &rmod.items {
            if let RItem::Struct(_) | RItem::Enum(_) = it {
                let n = it.name().unwrap();
                if !w.visited.contains(n) {
                    w.out.push(Disc {
                        clause: "C02:extra",
                        at: m.name.clone(),
                        detail: format!("generated item {n} corresponds to no type of the source"),
                    });
                }
            }
        }
        out.extend(w.out);
        tag_out.extend(w.tag_out);
        stats.source_tags += w.tag_stats.source_tags;
        stats.untagged_positions += w.tag_stats.untagged_positions;
        stats.automatic_items += w.tag_stats.automatic_items;
        stats.max_depth_tagged = stats.max_depth_tagged.max(w.tag_stats.max_depth_tagged);
    }
    if let Some(cycle) = by_value_cycle(rmods) {
        out.push(Disc {
            clause: "C02:recursion",
            at: String::new(),
            detail: format!("by-value containment cycle without Box/collection: {cycle:?}"),
        });
    }
    (out, tag_out, stats)
}
