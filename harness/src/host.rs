//! hostkit: rustc as an external judge. Generated bindings are type-checked (or built and
//! run) against the rasn version pinned in /repo/Cargo.lock, by calling rustc directly
//! against the rlibs of /verif/hostkit (built once by setup).
use rayon::prelude::*;
use std::path::{Path, PathBuf};
use std::process::Command;

pub struct Host {
    pub deps: PathBuf,
    pub rasn: PathBuf,
    pub lazy_static: PathBuf,
    pub scratch: PathBuf,
}

fn find_rlib(deps: &Path, prefix: &str) -> Option<PathBuf> {
    let mut found: Vec<PathBuf> = std::fs::read_dir(deps)
        .ok()?
        .filter_map(|e| e.ok().map(|e| e.path()))
        .filter(|p| {
            p.file_name()
                .and_then(|n| n.to_str())
                .map_or(false, |n| n.starts_with(prefix) && n.ends_with(".rlib"))
        })
        .collect();
    found.sort();
    found.pop()
}

impl Host {
    pub fn new() -> Result<Host, String> {
        let deps = PathBuf::from("/verif/hostkit/target/debug/deps");
        if find_rlib(&deps, "librasn-").is_none() {
            // build on demand (offline)
            let st = Command::new("cargo")
                .args(["build", "--offline"])
                .current_dir("/verif/hostkit")
                .env("CARGO_NET_OFFLINE", "true")
                .output()
                .map_err(|e| format!("cannot run cargo for hostkit: {e}"))?;
            if !st.status.success() {
                return Err(format!(
                    "hostkit build failed: {}",
                    String::from_utf8_lossy(&st.stderr)
                ));
            }
        }
        let rasn = find_rlib(&deps, "librasn-").ok_or("librasn rlib not found")?;
        let lazy_static = find_rlib(&deps, "liblazy_static-").ok_or("liblazy_static rlib not found")?;
        let base = std::env::var("TMPDIR").unwrap_or_else(|_| "/tmp".into());
        let scratch = PathBuf::from(format!("{base}/verif-scratch-{}", std::process::id()));
        std::fs::create_dir_all(&scratch).map_err(|e| e.to_string())?;
        Ok(Host {
            deps,
            rasn,
            lazy_static,
            scratch,
        })
    }

    fn rustc(&self, file: &Path, out: &Path, lazy: bool, bin: bool) -> Result<(), String> {
        let mut cmd = Command::new("rustc");
        cmd.arg("--edition")
            .arg("2021")
            .arg("--crate-type")
            .arg(if bin { "bin" } else { "lib" })
            // warnings are of no interest, but lints that are errors by default (an integer literal
            // that does not fit its type, ...) must stay errors: they are in a user's crate too
            .arg("-A")
            .arg("warnings")
            .arg("-L")
            .arg(format!("dependency={}", self.deps.display()))
            .arg("--extern")
            .arg(format!("rasn={}", self.rasn.display()));
        if lazy {
            cmd.arg("--extern")
                .arg(format!("lazy_static={}", self.lazy_static.display()));
        }
        if bin {
            cmd.arg("-C").arg("opt-level=0").arg("-C").arg("debuginfo=0");
        } else {
            cmd.arg("--emit=metadata");
        }
        cmd.arg("-o").arg(out).arg(file);
        let o = cmd.output().map_err(|e| format!("INFRA: cannot run rustc: {e}"))?;
        if o.status.success() {
            Ok(())
        } else {
            Err(String::from_utf8_lossy(&o.stderr).to_string())
        }
    }

    /// Type-check each case as its own library crate. Returns per case Ok or rustc's stderr.
    /// Cases are first checked in batches (inline modules of one crate); only failing
    /// batches are re-checked case by case, so a clean run costs one rustc start per batch.
    pub fn check_all(&self, cases: &[(String, bool)], batch: usize) -> Vec<Result<(), String>> {
        let n = cases.len();
        let mut results: Vec<Option<Result<(), String>>> = vec![None; n];
        // group by lazy flag
        for lazy in [false, true] {
            let idxs: Vec<usize> = (0..n).filter(|i| cases[*i].1 == lazy).collect();
            let chunks: Vec<Vec<usize>> = idxs.chunks(batch.max(1)).map(|c| c.to_vec()).collect();
            let outs: Vec<Vec<(usize, Result<(), String>)>> = chunks
                .par_iter()
                .enumerate()
                .map(|(ci, chunk)| {
                    let tagc = format!("{}_{}", if lazy { "l" } else { "s" }, ci);
                    let file = self.scratch.join(format!("batch_{tagc}.rs"));
                    let mut text = String::new();
                    for i in chunk {
                        text.push_str(&format!("pub mod case_{i} {{\n{}\n}}\n", cases[*i].0));
                    }
                    let _ = std::fs::write(&file, &text);
                    let out = self.scratch.join(format!("batch_{tagc}.rmeta"));
                    let r = self.rustc(&file, &out, lazy, false);
                    let _ = std::fs::remove_file(&out);
                    let _ = std::fs::remove_file(&file);
                    match r {
                        Ok(()) => chunk.iter().map(|i| (*i, Ok(()))).collect(),
                        Err(_) if chunk.len() > 1 => chunk
                            .par_iter()
                            .map(|i| (*i, self.check_one(&cases[*i].0, lazy, &format!("{tagc}_{i}"))))
                            .collect(),
                        Err(e) => vec![(chunk[0], Err(e))],
                    }
                })
                .collect();
            for v in outs {
                for (i, r) in v {
                    results[i] = Some(r);
                }
            }
        }
        results.into_iter().map(|r| r.unwrap()).collect()
    }

    pub fn check_one(&self, text: &str, lazy: bool, tagc: &str) -> Result<(), String> {
        let file = self.scratch.join(format!("one_{tagc}.rs"));
        let out = self.scratch.join(format!("one_{tagc}.rmeta"));
        let _ = std::fs::write(&file, text);
        let r = self.rustc(&file, &out, lazy, false);
        let _ = std::fs::remove_file(&out);
        let _ = std::fs::remove_file(&file);
        r
    }

    /// Build `text` (a complete program with fn main) and run it; returns stdout.
    pub fn build_and_run(&self, text: &str, lazy: bool, tagc: &str) -> Result<String, String> {
        let file = self.scratch.join(format!("bin_{tagc}.rs"));
        let out = self.scratch.join(format!("bin_{tagc}"));
        std::fs::write(&file, text).map_err(|e| e.to_string())?;
        let r = self.rustc(&file, &out, lazy, true);
        let _ = std::fs::remove_file(&file);
        r?;
        let o = Command::new(&out)
            .output()
            .map_err(|e| format!("INFRA: cannot run built binary: {e}"))?;
        let _ = std::fs::remove_file(&out);
        if !o.status.success() {
            return Err(format!(
                "RUNFAIL status={:?} stderr={}",
                o.status.code(),
                String::from_utf8_lossy(&o.stderr)
            ));
        }
        Ok(String::from_utf8_lossy(&o.stdout).to_string())
    }
}

impl Drop for Host {
    fn drop(&mut self) {
        let _ = std::fs::remove_dir_all(&self.scratch);
    }
}

/// first error line(s) of a rustc diagnostic, for signatures
pub fn first_error(stderr: &str) -> String {
    stderr
        .lines()
        .find(|l| l.starts_with("error"))
        .unwrap_or("")
        .chars()
        .take(200)
        .collect()
}
