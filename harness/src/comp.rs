//! Thin wrappers around the compiler under test: every call goes through the public API
//! (`Compiler`, `CompileResult`, `CompilerError`).
use rasn_compiler::prelude::*;
use serde::{Deserialize, Serialize};
use std::cell::RefCell;
use std::panic::{catch_unwind, AssertUnwindSafe};

#[derive(Clone, Debug, PartialEq, Eq, Hash, Serialize, Deserialize)]
pub struct Cfg {
    pub opaque_open_types: bool,
    pub default_wildcard_imports: bool,
    pub generate_from_impls: bool,
    pub no_std_compliant_bindings: bool,
    pub custom_imports: Vec<String>,
    /// None = the backend's default annotations
    pub type_annotations: Option<Vec<String>>,
}

impl Default for Cfg {
    fn default() -> Self {
        Cfg {
            opaque_open_types: true,
            default_wildcard_imports: false,
            generate_from_impls: false,
            no_std_compliant_bindings: false,
            custom_imports: vec![],
            type_annotations: None,
        }
    }
}

impl Cfg {
    pub fn to_rasn(&self) -> RasnConfig {
        let d = RasnConfig::default();
        RasnConfig {
            opaque_open_types: self.opaque_open_types,
            default_wildcard_imports: self.default_wildcard_imports,
            generate_from_impls: self.generate_from_impls,
            no_std_compliant_bindings: self.no_std_compliant_bindings,
            custom_imports: self.custom_imports.clone(),
            type_annotations: self
                .type_annotations
                .clone()
                .unwrap_or(d.type_annotations),
        }
    }
    /// the i-th combination of the four boolean options (opaque_open_types stays true)
    pub fn from_bits(bits: usize) -> Cfg {
        Cfg {
            opaque_open_types: true,
            default_wildcard_imports: bits & 1 != 0,
            generate_from_impls: bits & 2 != 0,
            no_std_compliant_bindings: bits & 4 != 0,
            custom_imports: vec![],
            type_annotations: None,
        }
    }
}

#[derive(Clone, Debug, PartialEq, Eq, Serialize)]
pub struct Compiled {
    pub generated: String,
    pub warnings: Vec<String>,
}

#[derive(Clone, Debug, PartialEq, Eq, Serialize)]
pub enum Outcome {
    Ok(Compiled),
    Err(String),
    Panic(String),
}

impl Outcome {
    pub fn ok(&self) -> Option<&Compiled> {
        match self {
            Outcome::Ok(c) => Some(c),
            _ => None,
        }
    }
    pub fn kind(&self) -> &'static str {
        match self {
            Outcome::Ok(_) => "ok",
            Outcome::Err(_) => "err",
            Outcome::Panic(_) => "panic",
        }
    }
}

thread_local! {
    static LAST_PANIC: RefCell<Option<String>> = const { RefCell::new(None) };
    static IN_GUARD: std::cell::Cell<bool> = const { std::cell::Cell::new(false) };
}

/// Install once: panics are recorded per thread (site + message) instead of printed.
pub fn install_panic_hook() {
    std::panic::set_hook(Box::new(|info| {
        let loc = info
            .location()
            .map(|l| format!("{}:{}", l.file(), l.line()))
            .unwrap_or_else(|| "?".into());
        let msg = if let Some(s) = info.payload().downcast_ref::<&str>() {
            s.to_string()
        } else if let Some(s) = info.payload().downcast_ref::<String>() {
            s.clone()
        } else {
            "?".into()
        };
        let short: String = msg.chars().take(160).collect();
        if !IN_GUARD.with(|g| g.get()) {
            eprintln!("harness panic at {loc}: {short}");
        }
        LAST_PANIC.with(|p| *p.borrow_mut() = Some(format!("{loc}: {short}")));
    }));
}

pub fn guarded<T>(f: impl FnOnce() -> T) -> Result<T, String> {
    LAST_PANIC.with(|p| *p.borrow_mut() = None);
    let was = IN_GUARD.with(|g| g.replace(true));
    let r = catch_unwind(AssertUnwindSafe(f));
    IN_GUARD.with(|g| g.set(was));
    match r {
        Ok(v) => Ok(v),
        Err(_) => Err(LAST_PANIC
            .with(|p| p.borrow_mut().take())
            .unwrap_or_else(|| "panic (no hook info)".into())),
    }
}

pub fn remove_env() {
    // keep the rasn backend from finding rustfmt: formatting must not be an
    // environmental variable of the comparison (DESIGN.md §2.2)
    std::env::remove_var("CARGO");
    std::env::remove_var("CARGO_HOME");
}

pub fn compile_rasn_raw(
    sources: &[String],
    cfg: &Cfg,
) -> Result<CompileResult, CompilerError> {
    let c = Compiler::<RasnBackend, _>::new_with_config(cfg.to_rasn());
    let mut it = sources.iter();
    let first = it.next().cloned().unwrap_or_default();
    let mut c = c.add_asn_literal(first);
    for s in it {
        c = c.add_asn_literal(s.clone());
    }
    c.compile_to_string()
}

pub fn compile_ts_raw(sources: &[String]) -> Result<CompileResult, CompilerError> {
    let c = Compiler::<TypescriptBackend, _>::new();
    let mut it = sources.iter();
    let first = it.next().cloned().unwrap_or_default();
    let mut c = c.add_asn_literal(first);
    for s in it {
        c = c.add_asn_literal(s.clone());
    }
    c.compile_to_string()
}

fn to_outcome(r: Result<Result<CompileResult, CompilerError>, String>) -> Outcome {
    match r {
        Ok(Ok(r)) => Outcome::Ok(Compiled {
            generated: r.generated,
            warnings: r.warnings.iter().map(|w| w.to_string()).collect(),
        }),
        Ok(Err(e)) => match guarded(|| e.to_string()) {
            Ok(s) => Outcome::Err(s),
            Err(p) => Outcome::Panic(p),
        },
        Err(p) => Outcome::Panic(p),
    }
}

pub fn compile_rasn(sources: &[String], cfg: &Cfg) -> Outcome {
    to_outcome(guarded(|| compile_rasn_raw(sources, cfg)))
}

pub fn compile_rasn1(source: &str, cfg: &Cfg) -> Outcome {
    compile_rasn(&[source.to_string()], cfg)
}

pub fn compile_ts(sources: &[String]) -> Outcome {
    to_outcome(guarded(|| compile_ts_raw(sources)))
}
