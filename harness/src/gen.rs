//! Grammar-directed generator of module sets (DESIGN.md §3). Imperative, driven by a `Src`
//! choice stream; everything it emits is valid ASN.1 by construction (names, well-founded
//! recursion, distinct tags, type-correct constraints and values).
use crate::asn::*;
use crate::src::Src;
use std::collections::{BTreeMap, BTreeSet};

#[derive(Clone, Debug)]
pub struct GenCfg {
    pub max_modules: usize,
    pub max_types: usize,
    pub max_values: usize,
    pub max_comps: usize,
    pub max_depth: usize,
    pub tags: bool,
    pub ext: bool,
    pub groups: bool,
    pub constraints: bool,
    pub defaults: bool,
    pub values: bool,
    pub imports: bool,
    /// percentage of references to imported types written as external references `Module.Type`
    pub qualified_refs_pct: u32,
    /// per cent of OBJECT IDENTIFIER value assignments whose first component is an earlier OID
    /// value of the same module (`oid2 OBJECT IDENTIFIER ::= { oid1 5 }`)
    pub oid_prefix_pct: u32,
    pub recursion: bool,
    pub any: bool,
    pub set_types: bool,
    /// ENUMERATED items may carry explicit numbers (anywhere)
    pub enum_numbers: bool,
    /// allow module header variety (tagging default / EXTENSIBILITY IMPLIED)
    pub header_variety: bool,
    /// structured values (SEQUENCE / SEQUENCE OF / CHOICE values)
    pub struct_values: bool,
    /// time types and OIDs
    pub exotic_leaves: bool,
    /// fixed tagging for all modules (None = random)
    pub force_tagging: Option<Tagging>,
    /// value references as DEFAULTs / in constraints
    pub value_refs: bool,
    /// type aliases `A ::= B` and constrained references
    pub aliases: bool,
    /// empty cstrings (a later `""` triggers finding F-dquote on the unfixed tree)
    pub empty_strings: bool,
    /// value / permitted-alphabet constraints on direct members of a SET (finding F-set-field-constraint)
    pub set_value_cons: bool,
    /// extension additions of SEQUENCE/SET that carry constraints, or an explicit tag together
    /// with OPTIONAL/DEFAULT (finding F-ext-addition-attrs)
    pub ext_explicit_optional: bool,
    /// version groups in a SEQUENCE that is not automatically tagged (finding F-group-tags)
    pub groups_nonauto: bool,
    /// `SET { }` / SET with no root component (finding F-empty-set)
    pub empty_set: bool,
    /// values / DEFAULTs governed by a type whose alias chain leaves the module (finding F-supertype-import)
    pub cross_module_alias_values: bool,
    /// a tag on a CHOICE type assignment in an AUTOMATIC TAGS module (finding F-tagged-choice-automatic)
    pub tagged_auto_choice: bool,
    /// values of named SEQUENCE OF types with a built-in element type (finding F-seqof-value)
    pub seqof_values: bool,
    /// rely on RELATIVE-OID (UNIVERSAL 13) being distinct from OBJECT IDENTIFIER (UNIVERSAL 6)
    /// in tag-distinctness (finding F-reloid-as-oid)
    pub reloid_distinct: bool,
    /// explicitly tagged ENUMERATED type assignment (finding F-explicit-enum)
    pub explicit_tagged_enum: bool,
    /// explicitly tagged SEQUENCE/SET type assignment with a DEFAULT member (finding F-explicit-struct-default)
    pub explicit_struct_default: bool,
    /// SET with two or more untagged CHOICE-typed members (finding F-set-choice-members)
    pub set_untagged_choice: bool,
    /// DEFAULT enumeral on a component whose type reaches the ENUMERATED through an alias (finding F-enum-default-alias)
    pub enum_default_via_alias: bool,
    /// references from inside a [[ ]] group (recursion through a group: finding F-recursive-group)
    pub refs_in_groups: bool,
    /// explicitly tagged empty SEQUENCE type assignment (finding F-explicit-empty-struct)
    pub explicit_empty_struct: bool,
    /// an untagged alternative/member that references a CHOICE type assignment, tagged or not
    /// (finding F-recursive-choice-cycle when it recurses)
    pub untagged_choice_ref: bool,
    /// explicit tags on SEQUENCE/SET/ENUMERATED/CHOICE type assignments (family of rasn-derive
    /// findings F-explicit-*; CHOICE assignments then get no tag at all)
    pub explicit_tagged_constructed: bool,
    /// probability (percent) of an extension marker on a constructed type
    pub ext_pct: u32,
}

impl Default for GenCfg {
    fn default() -> Self {
        GenCfg {
            max_modules: 3,
            max_types: 10,
            max_values: 5,
            max_comps: 6,
            max_depth: 3,
            tags: true,
            ext: true,
            groups: true,
            constraints: true,
            defaults: true,
            values: true,
            imports: true,
            qualified_refs_pct: 0,
            oid_prefix_pct: 0,
            recursion: true,
            any: false,
            set_types: true,
            enum_numbers: true,
            header_variety: true,
            struct_values: true,
            exotic_leaves: true,
            force_tagging: None,
            value_refs: true,
            aliases: true,
            empty_strings: true,
            set_value_cons: true,
            ext_explicit_optional: true,
            groups_nonauto: true,
            empty_set: true,
            cross_module_alias_values: true,
            tagged_auto_choice: true,
            seqof_values: true,
            reloid_distinct: true,
            explicit_tagged_enum: true,
            explicit_struct_default: true,
            set_untagged_choice: true,
            enum_default_via_alias: true,
            refs_in_groups: true,
            explicit_empty_struct: true,
            untagged_choice_ref: true,
            explicit_tagged_constructed: true,
            ext_pct: 35,
        }
    }
}

const TYPE_STEMS: [&str; 8] = [
    "Alpha",
    "Msg",
    "Beta-Gamma",
    "Pdu",
    "Info-Block",
    "Xtype",
    "T-rex",
    "Delta-E",
];
// (the last three: a Rust keyword, and two names whose snake case starts like the name the
// compiler gives to the member it makes of a `[[ ]]` group, `ext_group_<first member>`)
const FIELD_STEMS: [&str; 11] = ["a", "item", "b-c", "val", "fooBar", "id", "x-y-z", "cnt", "type", "ext-group-a", "extGroupB"];
const VALUE_STEMS: [&str; 4] = ["val", "my-const", "dflt", "x"];
const ENUM_STEMS: [&str; 6] = ["red", "on", "green-ish", "off", "blueTone", "e"];
const MOD_STEMS: [&str; 4] = ["Mod", "Test-Module", "Defs", "Proto-Spec"];

/// What the generator knows about a declared type (for references).
#[derive(Clone, Debug)]
pub struct Decl {
    pub module: usize,
    /// declared in an AUTOMATIC TAGS module
    pub auto: bool,
    pub name: String,
    pub tag: Option<Tag>,
    pub ty: Ty,
}

#[derive(Clone, Debug, Default)]
pub struct Scope {
    /// treat RELATIVE-OID as UNIVERSAL 6 when judging tag distinctness (see GenCfg::reloid_distinct)
    pub reloid_as_oid: bool,
    /// untagged CHOICE-typed members of a SET count as wildcards (see GenCfg::set_untagged_choice)
    pub set_choice_wild: bool,
    /// a reference to any CHOICE type assignment counts as a wildcard (see GenCfg::untagged_choice_ref)
    pub choice_ref_wild: bool,
    pub decls: Vec<Decl>,
    pub by_name: BTreeMap<String, usize>,
}

impl Scope {
    pub fn from_set(ms: &ModuleSet) -> Scope {
        let mut s = Scope::default();
        for (mi, m) in ms.modules.iter().enumerate() {
            for it in &m.items {
                if let Item::Type { name, tag, ty } = it {
                    s.by_name.insert(name.clone(), s.decls.len());
                    s.decls.push(Decl {
                        module: mi,
                        auto: m.tagging == Tagging::Automatic,
                        name: name.clone(),
                        tag: tag.clone(),
                        ty: ty.clone(),
                    });
                }
            }
        }
        s
    }
    pub fn get(&self, name: &str) -> Option<&Decl> {
        self.by_name.get(name).map(|i| &self.decls[*i])
    }
    /// follow alias chains to the defining type (at most 16 steps)
    pub fn resolve<'a>(&'a self, ty: &'a Ty) -> &'a Ty {
        let mut cur = ty;
        for _ in 0..16 {
            match cur {
                Ty::Ref { name, .. } => match self.get(name) {
                    Some(d) => cur = &d.ty,
                    None => return cur,
                },
                _ => return cur,
            }
        }
        cur
    }
    /// is the type (through references, looking past nothing else) an untagged CHOICE or open type
    pub fn is_choice_or_open(&self, ty: &Ty) -> bool {
        let mut cur = ty;
        for _ in 0..16 {
            match cur {
                Ty::Choice(_) | Ty::Any => return true,
                Ty::Ref { name, .. } => match self.get(name) {
                    Some(d) => {
                        if d.tag.is_some() {
                            return false;
                        }
                        cur = &d.ty
                    }
                    None => return false,
                },
                _ => return false,
            }
        }
        false
    }
}

#[derive(Clone, Debug, PartialEq, Eq, PartialOrd, Ord)]
pub enum OTag {
    Wild,
    T(Class, u32),
}

pub fn universal_tag(ty: &Ty) -> Option<u32> {
    Some(match ty {
        Ty::Boolean => 1,
        Ty::Integer { .. } => 2,
        Ty::BitString { .. } => 3,
        Ty::OctetString { .. } => 4,
        Ty::Null => 5,
        Ty::Oid => 6,
        Ty::Enumerated(_) => 10,
        Ty::RelOid => 13,
        Ty::Str { kind, .. } => kind.universal_tag(),
        Ty::Sequence(_) | Ty::SeqOf(_) => 16,
        Ty::Set(_) | Ty::SetOf(_) => 17,
        Ty::UtcTime => 23,
        Ty::GeneralizedTime => 24,
        _ => return None,
    })
}

/// the set of outermost tags a component of this type can start with
pub fn outer_tags(scope: &Scope, tag: Option<&Tag>, ty: &Ty, auto: bool, depth: usize, out: &mut BTreeSet<OTag>) {
    if let Some(t) = tag {
        out.insert(OTag::T(t.class, t.num));
        return;
    }
    if depth > 12 {
        out.insert(OTag::Wild);
        return;
    }
    match ty {
        Ty::Any => {
            out.insert(OTag::Wild);
        }
        Ty::Choice(a) => {
            let alts = flat_comps(&a.root, &a.ext);
            if auto && alts.iter().all(|(c, _)| c.tag.is_none()) {
                // automatic tagging applies to this CHOICE: context 0..n-1
                for i in 0..alts.len() {
                    out.insert(OTag::T(Class::Context, i as u32));
                }
            } else {
                for (c, _) in alts {
                    outer_tags(scope, c.tag.as_ref(), &c.ty, auto, depth + 1, out);
                }
            }
        }
        Ty::Ref { name, .. } => match scope.get(name) {
            // a referenced untagged CHOICE may still receive alternative tags later in
            // generation: treated as a wildcard so that siblings get their own tags
            Some(d) if (d.tag.is_none() || scope.choice_ref_wild) && matches!(d.ty, Ty::Choice(_)) => {
                out.insert(OTag::Wild);
            }
            Some(d) => outer_tags(scope, d.tag.as_ref(), &d.ty, d.auto, depth + 1, out),
            None => {
                out.insert(OTag::Wild);
            }
        },
        Ty::RelOid if scope.reloid_as_oid => {
            out.insert(OTag::T(Class::Universal, 6));
        }
        other => {
            out.insert(match universal_tag(other) {
                Some(n) => OTag::T(Class::Universal, n),
                None => OTag::Wild,
            });
        }
    }
}

fn tags_disjoint(sets: &[BTreeSet<OTag>]) -> bool {
    let mut seen = BTreeSet::new();
    for s in sets {
        if s.contains(&OTag::Wild) && sets.len() > 1 {
            return false;
        }
        for t in s {
            if !seen.insert(t.clone()) {
                return false;
            }
        }
    }
    true
}

/// flattened components in order: (comp, is_addition, in_group)
pub fn flat_comps<'a>(root: &'a [Comp], ext: &'a Option<Vec<Addition>>) -> Vec<(&'a Comp, bool)> {
    let mut v: Vec<(&Comp, bool)> = root.iter().map(|c| (c, false)).collect();
    if let Some(adds) = ext {
        for a in adds {
            match a {
                Addition::Comp(c) => v.push((c, true)),
                Addition::Group { comps, .. } => {
                    for c in comps {
                        v.push((c, true))
                    }
                }
            }
        }
    }
    v
}

/// X.680 distinct-tag requirement for one component list (§25.6, §27.3, §29.3), evaluated
/// conservatively (extension additions count as optional).
fn comps_tags_ok(scope: &Scope, kind: u8, comps: &[(&Comp, bool)], auto: bool) -> bool {
    let sets: Vec<BTreeSet<OTag>> = comps
        .iter()
        .map(|(c, _)| {
            let mut s = BTreeSet::new();
            outer_tags(scope, c.tag.as_ref(), &c.ty, auto, 0, &mut s);
            if kind == 1 && scope.set_choice_wild && c.tag.is_none() && scope.is_choice_or_open(&c.ty) {
                s.insert(OTag::Wild);
            }
            s
        })
        .collect();
    match kind {
        // SEQUENCE: runs of optional components plus the following mandatory one
        0 => {
            let mut run: Vec<BTreeSet<OTag>> = vec![];
            for (i, (c, is_add)) in comps.iter().enumerate() {
                let optional = *is_add || !matches!(c.opt, Opt::Req);
                run.push(sets[i].clone());
                if !tags_disjoint(&run) {
                    return false;
                }
                if !optional {
                    run.clear();
                }
            }
            true
        }
        // SET / CHOICE: all distinct
        _ => tags_disjoint(&sets),
    }
}

pub struct Gen<'s, 'a> {
    pub src: &'s mut Src<'a>,
    pub cfg: GenCfg,
    /// declared types so far (all modules)
    pub scope: Scope,
    /// (module, name, governing type, value) declared so far
    pub values: Vec<(usize, String, Ty, Val)>,
    field_ctr: usize,
    enum_ctr: usize,
    cur_module: usize,
    /// names of types of the current module that are planned (for optional/forward references)
    planned: Vec<(usize, String)>,
    /// rank of the type being generated; mandatory references go to lower ranks only
    cur_rank: usize,
    /// how often a production was suppressed because of a switched-off finding class
    pub excluded: BTreeMap<&'static str, u64>,
    no_refs_depth: usize,
}

#[derive(Clone, Copy, PartialEq)]
enum RefCtx {
    /// must be resolvable to a finite value without this edge: lower rank only
    Mandatory,
    /// optional component / later CHOICE alternative / unsized OF element: any planned type
    Free,
}

impl<'s, 'a> Gen<'s, 'a> {
    pub fn new(src: &'s mut Src<'a>, cfg: GenCfg) -> Self {
        let reloid = !cfg.reloid_distinct;
        let _ = reloid;
        Gen {
            src,
            scope: Scope {
                reloid_as_oid: !cfg.reloid_distinct,
                set_choice_wild: !cfg.set_untagged_choice,
                choice_ref_wild: !cfg.untagged_choice_ref,
                ..Scope::default()
            },
            cfg,
            values: vec![],
            field_ctr: 0,
            enum_ctr: 0,
            cur_module: 0,
            planned: vec![],
            cur_rank: 0,
            excluded: BTreeMap::new(),
            no_refs_depth: 0,
        }
    }

    fn field_name(&mut self) -> String {
        self.field_ctr += 1;
        let stem = FIELD_STEMS[self.src.pick(FIELD_STEMS.len())];
        format!("{stem}{}", self.field_ctr)
    }

    fn int_cons(&mut self) -> Vec<Con> {
        if !self.cfg.constraints || !self.src.chance(50) {
            return vec![];
        }
        let bounds: [i128; 12] = [
            0,
            1,
            -1,
            7,
            127,
            255,
            256,
            -128,
            65535,
            -32768,
            4294967295,
            -2147483648,
        ];
        let a = bounds[self.src.pick(bounds.len())];
        let b = bounds[self.src.pick(bounds.len())];
        let (lo, hi) = if a <= b { (a, b) } else { (b, a) };
        let form = self.src.weighted(&[6, 2, 1, 1]);
        let mut c = match form {
            0 => Con::range(lo, hi),
            1 => Con::range(lo, lo),
            2 => Con {
                root: ESet::atom(Atom::Range(End::Min, false, End::Int(hi), false)),
                ext: false,
                add: None,
            },
            _ => Con {
                root: ESet::atom(Atom::Range(End::Int(lo), false, End::Max, false)),
                ext: false,
                add: None,
            },
        };
        if self.cfg.ext && self.src.chance(20) {
            c.ext = true;
        }
        vec![c]
    }

    fn size_con(&mut self, allow_fixed: bool) -> Option<Con> {
        if !self.cfg.constraints || !self.src.chance(40) {
            return None;
        }
        let sizes: [i128; 6] = [1, 2, 4, 8, 16, 64];
        let a = sizes[self.src.pick(sizes.len())];
        let b = sizes[self.src.pick(sizes.len())];
        let (lo, hi) = if a <= b { (a, b) } else { (b, a) };
        let lo = if self.src.chance(30) { 0 } else { lo };
        let mut inner = if lo == hi && !allow_fixed {
            Con::range(lo, hi + 1)
        } else {
            Con::range(lo, hi)
        };
        if self.cfg.ext && self.src.chance(20) {
            inner.ext = true;
        }
        Some(inner)
    }

    fn size_cons(&mut self, allow_fixed: bool) -> Vec<Con> {
        self.size_con(allow_fixed)
            .map(|c| vec![Con::size(c)])
            .unwrap_or_default()
    }

    fn gen_enum(&mut self) -> EnumDef {
        self.enum_ctr += 1;
        let tagn = self.enum_ctr;
        let n = 1 + self.src.pick(4);
        let mut used: BTreeSet<i128> = BTreeSet::new();
        fn mk(
            g: &mut Gen,
            used: &mut BTreeSet<i128>,
            tagn: usize,
            i: usize,
            numbered: bool,
            min_excl: Option<i128>,
        ) -> (String, Option<i128>) {
            let stem = ENUM_STEMS[g.src.pick(ENUM_STEMS.len())];
            let name = format!("{stem}{tagn}x{i}");
            let num = if numbered {
                let lo = min_excl.map(|m| m + 1).unwrap_or(-2);
                let mut v = g.src.range(lo, lo + 20);
                while used.contains(&v) {
                    v += 1;
                }
                used.insert(v);
                Some(v)
            } else {
                None
            };
            (name, num)
        }
        // all-or-none numbering keeps the notation valid without needing the §20 model here:
        // when numbers are used, every item (root and additions) carries one.
        let numbered = self.cfg.enum_numbers && self.src.chance(30);
        let root: Vec<_> = (0..n)
            .map(|i| mk(self, &mut used, tagn, i, numbered, None))
            .collect();
        let ext = if self.cfg.ext && self.src.chance(self.cfg.ext_pct) {
            let k = self.src.pick(3);
            let mut prev = used.iter().max().copied();
            let mut adds = vec![];
            for i in 0..k {
                let it = mk(self, &mut used, tagn, n + i, numbered, prev);
                if let Some(v) = it.1 {
                    prev = Some(v);
                }
                adds.push(it);
            }
            Some(adds)
        } else {
            None
        };
        // mixed numbering (some items numbered, some not; X.680 20.3 - 20.6), made valid with
        // C14's model of the numbering rules: small numbers, so that explicit ones sit where the
        // counter of the unnumbered ones passes
        if self.cfg.enum_numbers && !numbered && self.src.chance(30) {
            let pick = |g: &mut Gen| if g.src.chance(50) { Some(g.src.range(-1, 5)) } else { None };
            let pat = crate::props::c14::Pat {
                root: (0..root.len()).map(|_| pick(self)).collect(),
                ext: ext.as_ref().map(|e| (0..e.len()).map(|_| pick(self)).collect()),
            };
            if let Some(p) = crate::props::c14::repair(pat) {
                let root2: Vec<(String, Option<i128>)> = root.iter().zip(p.root.iter()).map(|((n, _), v)| (n.clone(), *v)).collect();
                let ext2 = ext.as_ref().map(|e| e.iter().zip(p.ext.clone().unwrap_or_default().iter()).map(|((n, _), v)| (n.clone(), *v)).collect());
                return EnumDef { root: root2, ext: ext2 };
            }
        }
        EnumDef { root, ext }
    }

    fn leaf(&mut self) -> Ty {
        let w_exotic = if self.cfg.exotic_leaves { 1 } else { 0 };
        let w_any = if self.cfg.any { 1 } else { 0 };
        match self
            .src
            .weighted(&[6, 3, 2, 3, 3, 3, 4, w_exotic, w_exotic, w_exotic, w_exotic, w_any])
        {
            0 => {
                let named = if self.src.chance(15) {
                    self.enum_ctr += 1;
                    let k = 1 + self.src.pick(3);
                    (0..k)
                        .map(|i| (format!("nn{}x{i}", self.enum_ctr), i as i128 * 3))
                        .collect()
                } else {
                    vec![]
                };
                let cons = if named.is_empty() { self.int_cons() } else { vec![] };
                Ty::Integer { named, cons }
            }
            1 => Ty::Boolean,
            2 => Ty::Null,
            3 => Ty::Enumerated(self.gen_enum()),
            4 => {
                let named = if self.src.chance(30) {
                    self.enum_ctr += 1;
                    let k = 1 + self.src.pick(4);
                    (0..k)
                        .map(|i| (format!("bit{}x{i}", self.enum_ctr), (i * 2) as u32))
                        .collect()
                } else {
                    vec![]
                };
                let cons = if named.is_empty() { self.size_cons(true) } else { vec![] };
                Ty::BitString { named, cons }
            }
            5 => Ty::OctetString {
                cons: self.size_cons(true),
            },
            6 => {
                let kind = StrKind::ALL[self.src.pick(StrKind::ALL.len())];
                Ty::Str {
                    kind,
                    cons: self.size_cons(true),
                }
            }
            7 => Ty::Oid,
            8 => Ty::GeneralizedTime,
            9 => Ty::UtcTime,
            10 => Ty::RelOid,
            _ => Ty::Any,
        }
    }

    /// pick a reference target according to the well-foundedness context
    fn reference(&mut self, ctx: RefCtx) -> Option<Ty> {
        if self.no_refs_depth > 0 {
            *self.excluded.entry("F-recursive-group").or_insert(0) += 1;
            return None;
        }
        let cands: Vec<String> = match ctx {
            RefCtx::Mandatory => self
                .scope
                .decls
                .iter()
                .filter(|d| d.module == self.cur_module || self.cfg.imports)
                .map(|d| d.name.clone())
                .collect(),
            RefCtx::Free => {
                let mut v: Vec<String> = self
                    .scope
                    .decls
                    .iter()
                    .filter(|d| d.module == self.cur_module || self.cfg.imports)
                    .map(|d| d.name.clone())
                    .collect();
                if self.cfg.recursion {
                    v.extend(self.planned.iter().map(|(_, n)| n.clone()));
                }
                v
            }
        };
        if cands.is_empty() {
            return None;
        }
        let name = cands[self.src.pick(cands.len())].clone();
        // constrained reference to an INTEGER-like target (type-correct by construction)
        let mut cons = vec![];
        if self.cfg.constraints && self.cfg.aliases {
            if let Some(d) = self.scope.get(&name) {
                if let Ty::Integer { named, cons: pc } = self.scope.resolve(&d.ty).clone() {
                    if named.is_empty() && self.src.chance(30) {
                        cons = self.sub_range(&pc);
                    }
                }
            }
        }
        Some(Ty::Ref {
            module: None,
            name,
            cons,
        })
    }

    /// a sub-range of a simple parent constraint list (as produced by int_cons)
    fn sub_range(&mut self, parent: &[Con]) -> Vec<Con> {
        let (plo, phi) = simple_bounds(parent);
        let lo = plo.unwrap_or(-1000);
        let hi = phi.unwrap_or(1000);
        if lo > hi {
            return vec![];
        }
        let a = self.src.range(lo, hi);
        let b = self.src.range(a, hi);
        vec![Con::range(a, b)]
    }

    fn gen_ty(&mut self, depth: usize, ctx: RefCtx) -> Ty {
        let can_nest = depth < self.cfg.max_depth;
        let w_nest = if can_nest { 3 } else { 0 };
        let w_set = if can_nest && self.cfg.set_types { 1 } else { 0 };
        let w_ref = if self.cfg.aliases || depth > 0 { 5 } else { 0 };
        match self.src.weighted(&[8, w_ref, w_nest, w_set, w_nest, w_nest, w_set]) {
            0 => self.leaf(),
            1 => match self.reference(ctx) {
                Some(t) => t,
                None => self.leaf(),
            },
            2 => Ty::Sequence(self.gen_fields(depth + 1, true)),
            3 => Ty::Set(self.gen_fields(depth + 1, false)),
            4 => Ty::Choice(self.gen_alts(depth + 1, ctx)),
            5 => Ty::SeqOf(self.gen_of(depth + 1, ctx)),
            _ => Ty::SetOf(self.gen_of(depth + 1, ctx)),
        }
    }

    fn gen_of(&mut self, depth: usize, ctx: RefCtx) -> OfTy {
        let size = self.size_con(true);
        let min_zero = match &size {
            None => true,
            Some(c) => simple_bounds(std::slice::from_ref(c)).0.map_or(true, |l| l <= 0),
        };
        let ectx = if min_zero { RefCtx::Free } else { ctx };
        let elem = self.gen_ty(depth, ectx);
        OfTy {
            size_paren: self.src.chance(50),
            size,
            etag: None,
            elem: Box::new(elem),
        }
    }

    fn gen_comp(&mut self, depth: usize, allow_optional: bool) -> Comp {
        let name = self.field_name();
        let optw = if allow_optional { 30 } else { 0 };
        let o = self.src.weighted(&[55, optw, if self.cfg.defaults { optw / 2 } else { 0 }]);
        let ctx = if o == 1 { RefCtx::Free } else { RefCtx::Mandatory };
        let ty = self.gen_ty(depth, ctx);
        let opt = match o {
            0 => Opt::Req,
            1 => Opt::Optional,
            _ => match self.default_for(&ty) {
                Some(v) => Opt::Default(v),
                None => Opt::Optional,
            },
        };
        // an OPTIONAL edge that was generated under Mandatory context stays valid either way
        Comp {
            name,
            tag: None,
            ty,
            opt,
        }
    }

    /// remove value constraints from a direct member (keeps DEFAULT values valid: a value
    /// that satisfied the constraint still satisfies the unconstrained type)
    fn strip_value_cons(&mut self, c: &mut Comp) {
        let had = match &mut c.ty {
            Ty::Integer { cons, .. } | Ty::Ref { cons, .. } if !cons.is_empty() => {
                cons.clear();
                true
            }
            _ => false,
        };
        if had {
            *self.excluded.entry("F-set-field-constraint").or_insert(0) += 1;
        }
    }

    fn gen_fields(&mut self, depth: usize, is_seq: bool) -> Fields {
        let mut n = self.src.pick(self.cfg.max_comps + 1);
        if n == 0 && !is_seq && !self.cfg.empty_set {
            *self.excluded.entry("F-empty-set").or_insert(0) += 1;
            n = 1;
        }
        let mut root: Vec<Comp> = (0..n).map(|_| self.gen_comp(depth, true)).collect();
        if !is_seq && !self.cfg.set_value_cons {
            for c in root.iter_mut() {
                self.strip_value_cons(c);
            }
        }
        let ext = if self.cfg.ext && self.src.chance(self.cfg.ext_pct) {
            let k = self.src.pick(4);
            let mut adds = vec![];
            for _ in 0..k {
                if is_seq && self.cfg.groups && self.src.chance(30) {
                    let g = 1 + self.src.pick(3);
                    if !self.cfg.refs_in_groups {
                        self.no_refs_depth += 1;
                    }
                    let comps = (0..g).map(|_| self.gen_comp(depth, true)).collect();
                    if !self.cfg.refs_in_groups {
                        self.no_refs_depth -= 1;
                    }
                    let version = if self.src.chance(50) {
                        Some(2 + adds.len() as u32)
                    } else {
                        None
                    };
                    adds.push(Addition::Group { version, comps });
                } else {
                    adds.push(Addition::Comp(self.gen_comp(depth, true)));
                }
            }
            Some(adds)
        } else {
            None
        };
        let mut ext = ext;
        if !self.cfg.ext_explicit_optional {
            if let Some(adds) = ext.as_mut() {
                for a in adds.iter_mut() {
                    if let Addition::Comp(c) = a {
                        let had = strip_addition_cons(c);
                        if had {
                            *self.excluded.entry("F-ext-addition-attrs").or_insert(0) += 1;
                        }
                    }
                }
            }
        }
        if !is_seq && !self.cfg.set_value_cons {
            if let Some(adds) = ext.as_mut() {
                for a in adds.iter_mut() {
                    if let Addition::Comp(c) = a {
                        self.strip_value_cons(c);
                    }
                }
            }
        }
        Fields { root, ext }
    }

    fn gen_alts(&mut self, depth: usize, ctx: RefCtx) -> Alts {
        let n = 1 + self.src.pick(self.cfg.max_comps);
        let mut root = vec![];
        for i in 0..n {
            let name = self.field_name();
            // the first alternative carries the finite value; later ones may recurse freely
            let c = if i == 0 { ctx } else { RefCtx::Free };
            let ty = self.gen_ty(depth, c);
            root.push(Comp {
                name,
                tag: None,
                ty,
                opt: Opt::Req,
            });
        }
        let ext = if self.cfg.ext && self.src.chance(self.cfg.ext_pct) {
            let k = self.src.pick(3);
            let adds = (0..k)
                .map(|_| {
                    let name = self.field_name();
                    let ty = self.gen_ty(depth, RefCtx::Free);
                    Addition::Comp(Comp {
                        name,
                        tag: None,
                        ty,
                        opt: Opt::Req,
                    })
                })
                .collect();
            Some(adds)
        } else {
            None
        };
        Alts { root, ext }
    }

    // ------------------------------------------------------------------ values

    fn str_value(&mut self, kind: StrKind) -> String {
        let alphabet: Vec<char> = match kind {
            StrKind::Numeric => "0123456789 ".chars().collect(),
            StrKind::Printable => "ABCxyz019 '()+,-./:=?".chars().collect(),
            StrKind::Utf8 | StrKind::Bmp | StrKind::Universal => {
                "abcXYZ 09_\u{e9}\u{3a9}\u{20ac}".chars().collect()
            }
            _ => "abcXYZ 09!#$%&*<>~".chars().collect(),
        };
        let n = if self.cfg.empty_strings { self.src.pick(7) } else { 1 + self.src.pick(6) };
        (0..n)
            .map(|_| alphabet[self.src.pick(alphabet.len())])
            .collect()
    }

    /// does the alias chain of `ty` pass through a type declared in another module?
    fn alias_chain_leaves_module(&self, ty: &Ty) -> bool {
        let mut cur = ty.clone();
        for _ in 0..16 {
            match &cur {
                Ty::Ref { name, .. } => match self.scope.get(name) {
                    Some(d) => {
                        if d.module != self.cur_module {
                            return true;
                        }
                        cur = d.ty.clone();
                    }
                    None => return false,
                },
                _ => return false,
            }
        }
        false
    }

    /// a value of the given type, or None when the generator has no sound notation for it
    pub fn value_for(&mut self, ty: &Ty, depth: usize) -> Option<Val> {
        if depth > 4 {
            return None;
        }
        if depth == 0 && !self.cfg.cross_module_alias_values && self.alias_chain_leaves_module(ty) {
            *self.excluded.entry("F-supertype-import").or_insert(0) += 1;
            return None;
        }
        match ty {
            Ty::Null => Some(Val::Null),
            Ty::Boolean => Some(Val::Bool(self.src.chance(50))),
            Ty::Integer { named, cons } => {
                if !named.is_empty() && self.src.chance(50) {
                    let (n, _) = &named[self.src.pick(named.len())];
                    return Some(Val::Ident(n.clone()));
                }
                let (lo, hi) = simple_bounds(cons);
                let ext = cons.iter().any(|c| c.ext);
                let lo = lo.unwrap_or(-(1i128 << 70));
                let hi = hi.unwrap_or(1i128 << 70);
                let _ = ext;
                let v = match self.src.weighted(&[3, 1, 1]) {
                    0 => {
                        let small_lo = lo.max(-5);
                        let small_hi = hi.min(300);
                        if small_lo <= small_hi {
                            self.src.range(small_lo, small_hi)
                        } else {
                            lo
                        }
                    }
                    1 => lo.max(-(1i128 << 70)),
                    _ => self.src.range(lo, hi),
                };
                Some(Val::Int(v))
            }
            Ty::Enumerated(e) => {
                let n = e.root.len() + e.ext.as_ref().map_or(0, |x| x.len());
                let i = self.src.pick(n);
                let name = if i < e.root.len() {
                    &e.root[i].0
                } else {
                    &e.ext.as_ref().unwrap()[i - e.root.len()].0
                };
                Some(Val::Ident(name.clone()))
            }
            Ty::BitString { named, cons } => {
                let (lo, hi) = size_bounds(cons);
                if !named.is_empty() {
                    if lo.is_some() || hi.is_some() {
                        return None;
                    }
                    let k = self.src.pick(named.len() + 1);
                    let mut picked: Vec<String> = vec![];
                    for (n, _) in named.iter().take(k) {
                        picked.push(n.clone());
                    }
                    return Some(Val::NamedBits(picked));
                }
                if lo.is_some() && lo == hi {
                    // values of fixed-size BIT STRING types: excluded (finding F-fixed-val)
                    return None;
                }
                let l = lo.unwrap_or(0);
                let len = self.src.range(l, hi.unwrap_or(l + 24).min(l.max(24))) as usize;
                if len % 4 == 0 && self.src.chance(40) {
                    let hex: String = (0..len / 4)
                        .map(|_| "0123456789ABCDEF".chars().nth(self.src.pick(16)).unwrap())
                        .collect();
                    Some(Val::HStr(hex))
                } else {
                    let bits: String = (0..len)
                        .map(|_| if self.src.chance(50) { '1' } else { '0' })
                        .collect();
                    Some(Val::BStr(bits))
                }
            }
            Ty::OctetString { cons } => {
                let (lo, hi) = size_bounds(cons);
                if lo.is_some() && lo == hi {
                    return None;
                }
                let l = lo.unwrap_or(0);
                let len = self.src.range(l, hi.unwrap_or(l + 6).min(l.max(6))) as usize;
                let hex: String = (0..len * 2)
                    .map(|_| "0123456789ABCDEF".chars().nth(self.src.pick(16)).unwrap())
                    .collect();
                Some(Val::HStr(hex))
            }
            Ty::Str { kind, cons } => {
                let (lo, hi) = size_bounds(cons);
                let mut s = self.str_value(*kind);
                let lo = lo.unwrap_or(0) as usize;
                let hi = hi.map(|h| h as usize).unwrap_or(usize::MAX);
                while s.chars().count() < lo {
                    s.push('1');
                }
                if s.chars().count() > hi {
                    s = s.chars().take(hi).collect();
                }
                Some(Val::Str(s))
            }
            Ty::Oid => {
                let n = 1 + self.src.pick(5);
                let mut arcs = vec![OidArc::Num(1), OidArc::Num(self.src.pick(3) as u64)];
                for _ in 0..n {
                    arcs.push(OidArc::Num(self.src.range(0, 100000) as u64));
                }
                Some(Val::Oid(arcs))
            }
            Ty::Ref { name, .. } => {
                let d = self.scope.get(name)?.clone();
                // a value of a referenced type is a value of its definition
                match &d.ty {
                    Ty::Enumerated(_)
                    | Ty::Integer { .. }
                    | Ty::Boolean
                    | Ty::Null
                    | Ty::BitString { .. }
                    | Ty::OctetString { .. }
                    | Ty::Str { .. } => {
                        // constrained reference: respect the narrower constraint
                        if let (Ty::Ref { cons, .. }, Ty::Integer { named, .. }) = (ty, &d.ty) {
                            if !cons.is_empty() {
                                return self.value_for(
                                    &Ty::Integer {
                                        named: named.clone(),
                                        cons: cons.clone(),
                                    },
                                    depth + 1,
                                );
                            }
                        }
                        self.value_for(&d.ty, depth + 1)
                    }
                    Ty::Ref { .. } => self.value_for(&d.ty, depth + 1),
                    Ty::Sequence(_) | Ty::SeqOf(_) | Ty::Choice(_) if self.cfg.struct_values => {
                        self.struct_value(&d.ty, depth + 1)
                    }
                    _ => None,
                }
            }
            _ => None,
        }
    }

    fn struct_value(&mut self, ty: &Ty, depth: usize) -> Option<Val> {
        match ty {
            Ty::Sequence(f) => {
                if f.ext.is_some() {
                    return None;
                }
                let mut fields = vec![];
                for c in &f.root {
                    if !matches!(c.opt, Opt::Req) {
                        return None;
                    }
                    // only scalar members: nested anonymous structures have no settled notation
                    match &c.ty {
                        Ty::Integer { .. } | Ty::Boolean | Ty::Null | Ty::Str { .. } => {}
                        _ => return None,
                    }
                    fields.push((c.name.clone(), self.value_for(&c.ty, depth + 1)?));
                }
                // `{ a 1 }` is read as an OID value by the pinned lexer (F-seq-as-oid):
                // require two members, the first not an integer
                if fields.len() < 2 {
                    return None;
                }
                Some(Val::Seq(fields))
            }
            Ty::SeqOf(o) => {
                if !self.cfg.seqof_values {
                    *self.excluded.entry("F-seqof-value").or_insert(0) += 1;
                    return None;
                }
                if o.size.is_some() || o.etag.is_some() {
                    return None;
                }
                match &*o.elem {
                    Ty::Integer { named, cons } if named.is_empty() && cons.is_empty() => {}
                    Ty::Boolean => {}
                    _ => return None,
                }
                let n = self.src.pick(4);
                let mut vs = vec![];
                for _ in 0..n {
                    vs.push(self.value_for(&o.elem, depth + 1)?);
                }
                Some(Val::SeqOf(vs))
            }
            Ty::Choice(a) => {
                let c = &a.root[self.src.pick(a.root.len())];
                match &c.ty {
                    Ty::Integer { .. } | Ty::Boolean | Ty::Null => {}
                    _ => return None,
                }
                let v = self.value_for(&c.ty, depth + 1)?;
                Some(Val::Choice(c.name.clone(), Box::new(v)))
            }
            _ => None,
        }
    }

    fn default_for(&mut self, ty: &Ty) -> Option<Val> {
        if !self.cfg.defaults {
            return None;
        }
        match ty {
            // enumerals of inline ENUMERATED and OIDs as DEFAULT are reported by warning
            Ty::Enumerated(_) | Ty::Oid => None,
            Ty::Ref { name, .. } => {
                let d = self.scope.get(name)?.clone();
                match self.scope.resolve(&d.ty) {
                    Ty::Sequence(_) | Ty::SeqOf(_) | Ty::Choice(_) | Ty::Set(_) | Ty::SetOf(_) => {
                        None
                    }
                    Ty::Enumerated(_) if !self.cfg.enum_default_via_alias && matches!(d.ty, Ty::Ref { .. }) => {
                        *self.excluded.entry("F-enum-default-alias").or_insert(0) += 1;
                        None
                    }
                    _ => self.value_for(ty, 0),
                }
            }
            _ => self.value_for(ty, 0),
        }
    }

    // ------------------------------------------------------------------ tags

    fn random_tag(&mut self, num: u32, ty: &Ty) -> Tag {
        let class = match self.src.weighted(&[8, 1, 1]) {
            0 => Class::Context,
            1 => Class::Application,
            _ => Class::Private,
        };
        let open = self.scope.is_choice_or_open(ty);
        let mode = match self.src.weighted(&[5, 2, 2]) {
            0 => None,
            1 => Some(true),
            _ => {
                if open {
                    None
                } else {
                    Some(false)
                }
            }
        };
        Tag { class, num, mode }
    }

    fn tag_list(&mut self, kind: u8, root: &mut Vec<Comp>, ext: &mut Option<Vec<Addition>>, automatic: bool) {
        // recurse first
        for c in root.iter_mut() {
            self.tag_ty(&mut c.ty, automatic);
        }
        if let Some(adds) = ext {
            for a in adds.iter_mut() {
                match a {
                    Addition::Comp(c) => self.tag_ty(&mut c.ty, automatic),
                    Addition::Group { comps, .. } => {
                        for c in comps.iter_mut() {
                            self.tag_ty(&mut c.ty, automatic)
                        }
                    }
                }
            }
        }
        let n = flat_comps(root, ext).len();
        let has_group = ext
            .as_ref()
            .map_or(false, |a| a.iter().any(|x| matches!(x, Addition::Group { .. })));
        // voluntary tags on some components
        let voluntary = self.cfg.tags && self.src.chance(30);
        let all = voluntary && self.src.chance(60);
        let mut assign: Vec<bool> = (0..n)
            .map(|_| voluntary && (all || self.src.chance(40)))
            .collect();
        let any_tagged = assign.iter().any(|b| *b);
        let needs_check = !(automatic && !any_tagged);
        if needs_check && has_group && !self.cfg.groups_nonauto {
            // flatten the groups into plain additions (same components, same order)
            *self.excluded.entry("F-group-tags").or_insert(0) += 1;
            if let Some(adds) = ext.as_mut() {
                let old = std::mem::take(adds);
                for a in old {
                    match a {
                        Addition::Comp(c) => adds.push(Addition::Comp(c)),
                        Addition::Group { comps, .. } => {
                            for mut c in comps {
                                if !self.cfg.ext_explicit_optional && strip_addition_cons(&mut c) {
                                    *self.excluded.entry("F-ext-addition-attrs").or_insert(0) += 1;
                                }
                                adds.push(Addition::Comp(c));
                            }
                        }
                    }
                }
            }
        }
        if needs_check {
            // apply voluntary tags provisionally and test; on conflict tag everything
            let mut trial_root = root.clone();
            let mut trial_ext = ext.clone();
            apply_tags(&mut trial_root, &mut trial_ext, &assign, |i, _| Tag {
                class: Class::Context,
                num: i as u32,
                mode: None,
            });
            if !comps_tags_ok(&self.scope, kind, &flat_comps(&trial_root, &trial_ext), automatic) {
                assign = vec![true; n];
            }
        }
        let base = self.src.pick(3) as u32;
        let tys: Vec<Ty> = flat_comps(root, ext).iter().map(|(c, _)| c.ty.clone()).collect();
        let tags: Vec<Tag> = (0..n)
            .map(|i| self.random_tag(base + i as u32, &tys[i]))
            .collect();
        let saved = (root.clone(), ext.clone());
        apply_tags(root, ext, &assign, |i, _| tags[i].clone());
        if !self.cfg.ext_explicit_optional {
            if let Some(adds) = ext.as_mut() {
                for a in adds.iter_mut() {
                    if let Addition::Comp(c) = a {
                        if c.opt != Opt::Req && c.tag.is_some() && kind != 2 {
                            *self.excluded.entry("F-ext-addition-attrs").or_insert(0) += 1;
                            if self.scope.is_choice_or_open(&c.ty) {
                                c.opt = Opt::Req;
                            } else if let Some(t) = c.tag.as_mut() {
                                t.mode = Some(false);
                            }
                        }
                    }
                }
            }
        }
        if needs_check && !comps_tags_ok(&self.scope, kind, &flat_comps(root, ext), automatic) {
            // class mix collided with a referenced type's own tag: fall back to distinct
            // context tags on every component, which is always valid
            *root = saved.0;
            *ext = saved.1;
            let all = vec![true; n];
            apply_tags(root, ext, &all, |i, _| Tag {
                class: Class::Context,
                num: base + i as u32,
                mode: tags[i].mode,
            });
            if !self.cfg.ext_explicit_optional {
                if let Some(adds) = ext.as_mut() {
                    for a in adds.iter_mut() {
                        if let Addition::Comp(c) = a {
                            if c.opt != Opt::Req && kind != 2 {
                                if self.scope.is_choice_or_open(&c.ty) {
                                    c.opt = Opt::Req;
                                } else if let Some(t) = c.tag.as_mut() {
                                    t.mode = Some(false);
                                }
                            }
                        }
                    }
                }
            }
        }
    }

    fn tag_ty(&mut self, ty: &mut Ty, automatic: bool) {
        match ty {
            Ty::Sequence(f) => self.tag_list(0, &mut f.root, &mut f.ext, automatic),
            Ty::Set(f) => self.tag_list(1, &mut f.root, &mut f.ext, automatic),
            Ty::Choice(a) => self.tag_list(2, &mut a.root, &mut a.ext, automatic),
            Ty::SeqOf(o) | Ty::SetOf(o) => self.tag_ty(&mut o.elem, automatic),
            _ => {}
        }
    }

    // ------------------------------------------------------------------ modules

    pub fn module_set(&mut self) -> ModuleSet {
        let nm = 1 + self.src.pick(self.cfg.max_modules);
        let mut modules: Vec<Module> = vec![];
        // plan names first so that forward / cyclic references are possible
        let mut plans: Vec<Vec<String>> = vec![];
        for mi in 0..nm {
            let nt = 1 + self.src.pick(self.cfg.max_types);
            let mut names = vec![];
            for k in 0..nt {
                let stem = TYPE_STEMS[self.src.pick(TYPE_STEMS.len())];
                names.push(format!("{stem}{}", mi * 50 + k));
            }
            plans.push(names);
        }
        for mi in 0..nm {
            self.cur_module = mi;
            let stem = MOD_STEMS[self.src.pick(MOD_STEMS.len())];
            let name = format!("{stem}-{}", (b'A' + mi as u8) as char);
            let tagging = match self.cfg.force_tagging {
                Some(t) => t,
                None if self.cfg.header_variety => match self.src.weighted(&[3, 3, 3, 1]) {
                    0 => Tagging::Automatic,
                    1 => Tagging::Explicit,
                    2 => Tagging::Implicit,
                    _ => Tagging::NoClause,
                },
                None => Tagging::Automatic,
            };
            let ext_implied = self.cfg.header_variety && self.cfg.ext && self.src.chance(20);
            // planned = all names of this module and (with imports) of all modules
            self.planned = plans
                .iter()
                .enumerate()
                .filter(|(j, _)| *j == mi || self.cfg.imports)
                .flat_map(|(j, ns)| ns.iter().map(move |n| (j, n.clone())))
                .collect();
            let mut items = vec![];
            for (k, tname) in plans[mi].clone().into_iter().enumerate() {
                self.cur_rank = k;
                self.field_ctr = 0;
                let ty = self.gen_ty(0, RefCtx::Mandatory);
                self.scope.by_name.insert(tname.clone(), self.scope.decls.len());
                self.scope.decls.push(Decl {
                    module: mi,
                    auto: tagging == Tagging::Automatic,
                    name: tname.clone(),
                    tag: None,
                    ty: ty.clone(),
                });
                items.push(Item::Type {
                    name: tname,
                    tag: None,
                    ty,
                });
            }
            modules.push(Module {
                name,
                tagging,
                ext_implied,
                imports: vec![],
                items,
            });
        }
        // tags: needs the complete scope (references may point forward).
        // pass 1: tags of type assignments; pass 2: component tags (which must stay distinct
        // from the outer tags of referenced types, now final)
        let modules_tagging: Vec<Tagging> = modules.iter().map(|m| m.tagging).collect();
        for mi in 0..nm {
            let n_items = modules[mi].items.len();
            for ii in 0..n_items {
                if let Item::Type { name, tag, ty } = &mut modules[mi].items[ii] {
                    if self.cfg.tags && self.src.chance(15) {
                        let n = self.src.pick(30) as u32;
                        if !self.cfg.tagged_auto_choice
                            && matches!(ty, Ty::Choice(_))
                            && modules_tagging[mi] == Tagging::Automatic
                        {
                            *self.excluded.entry("F-tagged-choice-automatic").or_insert(0) += 1;
                            continue;
                        }
                        if !self.cfg.explicit_tagged_constructed && matches!(ty, Ty::Choice(_)) {
                            *self.excluded.entry("F-explicit-typedef").or_insert(0) += 1;
                            continue;
                        }
                        let mut t = self.random_tag(n, ty);
                        if !self.cfg.explicit_tagged_constructed
                            && matches!(ty, Ty::Sequence(_) | Ty::Set(_) | Ty::Enumerated(_))
                            && t.mode != Some(false)
                        {
                            *self.excluded.entry("F-explicit-typedef").or_insert(0) += 1;
                            t.mode = Some(false);
                        }
                        if !self.cfg.explicit_tagged_enum && matches!(ty, Ty::Enumerated(_)) && t.mode != Some(false) {
                            *self.excluded.entry("F-explicit-enum").or_insert(0) += 1;
                            t.mode = Some(false);
                        }
                        if !self.cfg.explicit_empty_struct && t.mode != Some(false) {
                            if let Ty::Sequence(f) = &*ty {
                                if f.root.is_empty() && f.ext.as_ref().map_or(true, |a| a.is_empty()) {
                                    *self.excluded.entry("F-explicit-empty-struct").or_insert(0) += 1;
                                    t.mode = Some(false);
                                }
                            }
                        }
                        if !self.cfg.explicit_struct_default && t.mode != Some(false) {
                            if let Ty::Sequence(f) | Ty::Set(f) = &*ty {
                                if flat_comps(&f.root, &f.ext)
                                    .iter()
                                    .any(|(c, _)| matches!(c.opt, Opt::Default(_)))
                                {
                                    *self.excluded.entry("F-explicit-struct-default").or_insert(0) += 1;
                                    t.mode = Some(false);
                                }
                            }
                        }
                        *tag = Some(t.clone());
                        let idx = self.scope.by_name[name.as_str()];
                        self.scope.decls[idx].tag = Some(t);
                    }
                }
            }
        }
        for mi in 0..nm {
            let automatic = modules[mi].tagging == Tagging::Automatic;
            let n_items = modules[mi].items.len();
            for ii in 0..n_items {
                let mut it = modules[mi].items[ii].clone();
                if let Item::Type { name, ty, .. } = &mut it {
                    self.tag_ty(ty, automatic);
                    let idx = self.scope.by_name[name.as_str()];
                    self.scope.decls[idx].ty = ty.clone();
                }
                modules[mi].items[ii] = it;
            }
        }
        // values
        if self.cfg.values {
            for mi in 0..nm {
                self.cur_module = mi;
                let nv = self.src.pick(self.cfg.max_values + 1);
                for k in 0..nv {
                    let stem = VALUE_STEMS[self.src.pick(VALUE_STEMS.len())];
                    let vname = format!("{stem}{}", mi * 50 + k);
                    let local: Vec<String> = self
                        .scope
                        .decls
                        .iter()
                        .filter(|d| d.module == mi)
                        .map(|d| d.name.clone())
                        .collect();
                    let ty = if !local.is_empty() && self.src.chance(50) {
                        Ty::Ref {
                            module: None,
                            name: local[self.src.pick(local.len())].clone(),
                            cons: vec![],
                        }
                    } else {
                        let mut l = self.leaf();
                        strip_cons(&mut l);
                        l
                    };
                    if let Some(mut val) = self.value_for(&ty, 0) {
                        if matches!(ty, Ty::Enumerated(_) | Ty::RelOid | Ty::Any) {
                            continue;
                        }
                        if self.cfg.oid_prefix_pct > 0 && ty == Ty::Oid {
                            let earlier: Vec<String> = self.values.iter().filter(|(m, _, t, _)| *m == mi && *t == Ty::Oid).map(|(_, n, _, _)| n.clone()).collect();
                            if !earlier.is_empty() && self.src.chance(self.cfg.oid_prefix_pct) {
                                let base = earlier[self.src.pick(earlier.len())].clone();
                                let extra = 1 + self.src.pick(3);
                                let mut arcs = vec![OidArc::Name(base)];
                                for _ in 0..extra {
                                    arcs.push(OidArc::Num(self.src.range(0, 100000) as u64));
                                }
                                val = Val::Oid(arcs);
                            }
                        }
                        self.values.push((mi, vname.clone(), ty.clone(), val.clone()));
                        modules[mi].items.push(Item::Value {
                            name: vname,
                            ty,
                            val,
                        });
                    }
                }
            }
        }
        // imports: every referenced name that is declared in another module
        for mi in 0..nm {
            let mut used = BTreeSet::new();
            for it in &modules[mi].items {
                match it {
                    Item::Type { ty, .. } => refs_in(ty, &mut used),
                    Item::Value { ty, .. } => refs_in(ty, &mut used),
                    _ => {}
                }
            }
            let mut by_mod: BTreeMap<usize, Vec<String>> = BTreeMap::new();
            for u in used {
                if let Some(d) = self.scope.get(&u) {
                    if d.module != mi {
                        by_mod.entry(d.module).or_default().push(u);
                    }
                }
            }
            modules[mi].imports = by_mod
                .into_iter()
                .map(|(m, symbols)| Import {
                    symbols,
                    from: modules[m].name.clone(),
                })
                .collect();
        }
        // external references: `Module.Type` for some references to imported types (the IMPORTS
        // clause keeps listing the symbol, as X.680 requires the module to be referenced there)
        if self.cfg.qualified_refs_pct > 0 {
            let names: Vec<String> = modules.iter().map(|m| m.name.clone()).collect();
            for mi in 0..nm {
                let mut items = std::mem::take(&mut modules[mi].items);
                for it in items.iter_mut() {
                    if let Item::Type { ty, .. } = it {
                        let mut choose = |name: &str| -> Option<String> {
                            let d = self.scope.get(name)?;
                            if d.module != mi && self.src.chance(self.cfg.qualified_refs_pct) {
                                Some(names[d.module].clone())
                            } else {
                                None
                            }
                        };
                        qualify_refs(ty, &mut choose);
                    }
                }
                modules[mi].items = items;
            }
        }
        // source order is independent of rank: rotate / reverse items
        for m in modules.iter_mut() {
            match self.src.pick(3) {
                0 => {}
                1 => m.items.reverse(),
                _ => {
                    let k = self.src.pick(m.items.len().max(1));
                    m.items.rotate_left(k);
                }
            }
        }
        ModuleSet { modules }
    }
}

fn apply_tags(
    root: &mut [Comp],
    ext: &mut Option<Vec<Addition>>,
    assign: &[bool],
    mut mk: impl FnMut(usize, &Comp) -> Tag,
) {
    let mut i = 0;
    let mut visit = |c: &mut Comp| {
        if assign[i] {
            c.tag = Some(mk(i, c));
        }
        i += 1;
    };
    for c in root.iter_mut() {
        visit(c);
    }
    if let Some(adds) = ext {
        for a in adds.iter_mut() {
            match a {
                Addition::Comp(c) => visit(c),
                Addition::Group { comps, .. } => {
                    for c in comps.iter_mut() {
                        visit(c)
                    }
                }
            }
        }
    }
}

/// remove every constraint that would be rendered as a field-level annotation
pub fn strip_addition_cons(c: &mut Comp) -> bool {
    match &mut c.ty {
        Ty::Integer { cons, .. }
        | Ty::BitString { cons, .. }
        | Ty::OctetString { cons }
        | Ty::Str { cons, .. }
        | Ty::Ref { cons, .. }
            if !cons.is_empty() =>
        {
            cons.clear();
            true
        }
        Ty::SeqOf(o) | Ty::SetOf(o) if o.size.is_some() => {
            o.size = None;
            true
        }
        _ => false,
    }
}

pub fn strip_cons(ty: &mut Ty) {
    match ty {
        Ty::Integer { cons, .. }
        | Ty::BitString { cons, .. }
        | Ty::OctetString { cons }
        | Ty::Str { cons, .. } => cons.clear(),
        _ => {}
    }
}

pub fn for_each_comp<'a>(ty: &'a Ty, f: &mut dyn FnMut(&'a Comp)) {
    match ty {
        Ty::Sequence(Fields { root, ext }) | Ty::Set(Fields { root, ext }) | Ty::Choice(Alts { root, ext }) => {
            for (c, _) in flat_comps(root, ext) {
                f(c);
                for_each_comp(&c.ty, f);
            }
        }
        Ty::SeqOf(o) | Ty::SetOf(o) => for_each_comp(&o.elem, f),
        _ => {}
    }
}

/// rewrite references chosen by `choose` into external references
pub fn qualify_refs(ty: &mut Ty, choose: &mut dyn FnMut(&str) -> Option<String>) {
    match ty {
        Ty::Ref { module, name, .. } => {
            if module.is_none() {
                *module = choose(name);
            }
        }
        Ty::Sequence(Fields { root, ext }) | Ty::Set(Fields { root, ext }) | Ty::Choice(Alts { root, ext }) => {
            for c in root.iter_mut() {
                qualify_refs(&mut c.ty, choose);
            }
            if let Some(adds) = ext {
                for a in adds.iter_mut() {
                    match a {
                        Addition::Comp(c) => qualify_refs(&mut c.ty, choose),
                        Addition::Group { comps, .. } => {
                            for c in comps.iter_mut() {
                                qualify_refs(&mut c.ty, choose);
                            }
                        }
                    }
                }
            }
        }
        Ty::SeqOf(o) | Ty::SetOf(o) => qualify_refs(&mut o.elem, choose),
        _ => {}
    }
}

pub fn refs_in(ty: &Ty, out: &mut BTreeSet<String>) {
    match ty {
        Ty::Ref { name, cons, .. } => {
            out.insert(name.clone());
            cons_refs(cons, out);
        }
        Ty::Sequence(Fields { root, ext }) | Ty::Set(Fields { root, ext }) | Ty::Choice(Alts { root, ext }) => {
            for (c, _) in flat_comps(root, ext) {
                refs_in(&c.ty, out);
                if let Opt::Default(Val::Ident(_)) = &c.opt {
                    // named numbers / enumerals / local value refs: resolved within the module
                }
            }
        }
        Ty::SeqOf(o) | Ty::SetOf(o) => refs_in(&o.elem, out),
        Ty::Integer { cons, .. } => cons_refs(cons, out),
        _ => {}
    }
}

fn cons_refs(cons: &[Con], out: &mut BTreeSet<String>) {
    fn atom(a: &Atom, out: &mut BTreeSet<String>) {
        match a {
            Atom::Contained(n, _) => {
                out.insert(n.clone());
            }
            Atom::Size(c) | Atom::From(c) => cons_refs(std::slice::from_ref(c), out),
            _ => {}
        }
    }
    for c in cons {
        for e in std::iter::once(&c.root).chain(c.add.iter()) {
            if let Some(a) = &e.all_except {
                atom(a, out);
            }
            for u in &e.unions {
                for ie in u {
                    atom(&ie.atom, out);
                    if let Some(x) = &ie.except {
                        atom(x, out);
                    }
                }
            }
        }
    }
}

/// bounds of the simple constraint forms the generic generator emits (single range or value)
pub fn simple_bounds(cons: &[Con]) -> (Option<i128>, Option<i128>) {
    let mut lo = None;
    let mut hi = None;
    for c in cons {
        if let [one] = c.root.unions.as_slice() {
            if let [IElem { atom, except: None }] = one.as_slice() {
                let (l, h) = match atom {
                    Atom::Single(End::Int(v)) => (Some(*v), Some(*v)),
                    Atom::Range(a, false, b, false) => (
                        match a {
                            End::Int(v) => Some(*v),
                            _ => None,
                        },
                        match b {
                            End::Int(v) => Some(*v),
                            _ => None,
                        },
                    ),
                    _ => (None, None),
                };
                lo = match (lo, l) {
                    (Some(a), Some(b)) => Some(std::cmp::max::<i128>(a, b)),
                    (a, b) => a.or(b),
                };
                hi = match (hi, h) {
                    (Some(a), Some(b)) => Some(std::cmp::min::<i128>(a, b)),
                    (a, b) => a.or(b),
                };
            }
        }
    }
    (lo, hi)
}

/// bounds of `(SIZE (..))` in the simple forms the generic generator emits
pub fn size_bounds(cons: &[Con]) -> (Option<i128>, Option<i128>) {
    for c in cons {
        if let [one] = c.root.unions.as_slice() {
            if let [IElem {
                atom: Atom::Size(inner),
                except: None,
            }] = one.as_slice()
            {
                return simple_bounds(std::slice::from_ref(inner));
            }
        }
    }
    (None, None)
}

/// X.680 tag-distinctness of every component list of a module set (used by the shrinker to
/// keep candidates valid)
pub fn tags_valid(ms: &ModuleSet) -> bool {
    let scope = Scope::from_set(ms);
    fn walk(scope: &Scope, ty: &Ty, auto: bool) -> bool {
        match ty {
            Ty::Sequence(Fields { root, ext }) | Ty::Set(Fields { root, ext }) | Ty::Choice(Alts { root, ext }) => {
                let kind = match ty {
                    Ty::Sequence(_) => 0,
                    Ty::Set(_) => 1,
                    _ => 2,
                };
                let flat = flat_comps(root, ext);
                for (c, _) in &flat {
                    if !walk(scope, &c.ty, auto) {
                        return false;
                    }
                }
                if auto && flat.iter().all(|(c, _)| c.tag.is_none()) {
                    return true;
                }
                comps_tags_ok(scope, kind, &flat, auto)
            }
            Ty::SeqOf(o) | Ty::SetOf(o) => walk(scope, &o.elem, auto),
            _ => true,
        }
    }
    for m in &ms.modules {
        let auto = m.tagging == Tagging::Automatic;
        for it in &m.items {
            if let Item::Type { ty, .. } = it {
                if !walk(&scope, ty, auto) {
                    return false;
                }
            }
        }
    }
    true
}
