//! Choice stream: every random decision of every generator is drawn from a `Src`, which is a
//! cursor over a `Vec<u32>` produced by proptest (or decoded from fuzzer bytes). Smaller
//! numbers select simpler alternatives; an exhausted stream yields 0. This keeps all
//! randomness inside the library (replayable, shrinkable).
#[derive(Clone, Debug)]
pub struct Src<'a> {
    data: &'a [u32],
    pos: usize,
}

impl<'a> Src<'a> {
    pub fn new(data: &'a [u32]) -> Self {
        Src { data, pos: 0 }
    }
    pub fn raw(&mut self) -> u32 {
        let v = self.data.get(self.pos).copied().unwrap_or(0);
        self.pos += 1;
        v
    }
    pub fn exhausted(&self) -> bool {
        self.pos >= self.data.len()
    }
    pub fn used(&self) -> usize {
        self.pos
    }
    /// uniform-ish in 0..n, monotone in the raw value (so shrinking moves towards 0)
    pub fn pick(&mut self, n: usize) -> usize {
        if n <= 1 {
            // still consume, to keep stream alignment stable under parameter changes
            self.raw();
            return 0;
        }
        ((self.raw() as u64 * n as u64) >> 32) as usize
    }
    /// true with probability pct/100; false is the "simple" outcome
    pub fn chance(&mut self, pct: u32) -> bool {
        let r = self.raw();
        // monotone: raw = 0 -> false (unless pct == 100), large raw -> true
        ((u64::from(r) * 100) >> 32) + u64::from(pct) >= 100
    }
    pub fn range(&mut self, lo: i128, hi: i128) -> i128 {
        debug_assert!(lo <= hi);
        let span = (hi - lo) as u128 + 1;
        let a = self.raw() as u128;
        let b = self.raw() as u128;
        let c = self.raw() as u128;
        let d = self.raw() as u128;
        let r = (a << 96) | (b << 64) | (c << 32) | d;
        // multiply-high for monotonicity
        let hi_part = mul_high(r, span);
        lo + hi_part as i128
    }
    pub fn choose<'b, T>(&mut self, xs: &'b [T]) -> &'b T {
        &xs[self.pick(xs.len())]
    }
    /// weighted pick; weights need not be normalised; index 0 should be the simplest
    pub fn weighted(&mut self, ws: &[u32]) -> usize {
        let total: u64 = ws.iter().map(|w| *w as u64).sum();
        if total == 0 {
            self.raw();
            return 0;
        }
        let mut x = (self.raw() as u64 * total) >> 32;
        for (i, w) in ws.iter().enumerate() {
            if x < *w as u64 {
                return i;
            }
            x -= *w as u64;
        }
        ws.len() - 1
    }
}

fn mul_high(a: u128, b: u128) -> u128 {
    // (a * b) >> 128 using 64-bit limbs
    let (a1, a0) = (a >> 64, a & u64::MAX as u128);
    let (b1, b0) = (b >> 64, b & u64::MAX as u128);
    let p00 = a0 * b0;
    let p01 = a0 * b1;
    let p10 = a1 * b0;
    let p11 = a1 * b1;
    let mid = (p00 >> 64) + (p01 & u64::MAX as u128) + (p10 & u64::MAX as u128);
    p11 + (p01 >> 64) + (p10 >> 64) + (mid >> 64)
}

/// Decode fuzzer bytes to a choice stream.
pub fn bytes_to_stream(b: &[u8]) -> Vec<u32> {
    b.chunks(4)
        .map(|c| {
            let mut a = [0u8; 4];
            a[..c.len()].copy_from_slice(c);
            u32::from_be_bytes(a)
        })
        .collect()
}
