mod asn;
mod comp;
mod der;
mod ev;
mod gen;
mod host;
mod proj;
mod rcon;
mod props;
mod src;
mod structure;
mod tsparse;
mod worker;

use ev::Tier;

fn usage() -> ! {
    eprintln!("usage: vcheck <C01..C20> [--tier quick|thorough] [--seed N] [--replay FILE]\n       vcheck gen [seed] [n]   (print generated module sets)");
    std::process::exit(2)
}

fn main() {
    comp::remove_env();
    comp::install_panic_hook();
    // deep nom recursion on generated inputs must not overflow the worker threads' stacks
    let args: Vec<String> = std::env::args().skip(1).collect();
    if !matches!(args.first().map(|s| s.as_str()), Some("worker") | Some("c20-child")) {
        let _ = rayon::ThreadPoolBuilder::new().stack_size(128 << 20).build_global();
    }
    if args.is_empty() {
        usage();
    }
    let mut tier = match std::env::var("VERIF_TIER").ok().as_deref() {
        Some("thorough") => Tier::Thorough,
        _ => Tier::Quick,
    };
    let mut seed: u64 = std::env::var("VERIF_SEED")
        .ok()
        .and_then(|s| s.trim().parse::<i128>().ok())
        .map(|v| v as u64)
        .unwrap_or(0);
    let mut replay: Option<String> = None;
    let mut pos: Vec<String> = vec![];
    let mut i = 0;
    while i < args.len() {
        match args[i].as_str() {
            "--tier" => {
                i += 1;
                tier = match args.get(i).map(|s| s.as_str()) {
                    Some("quick") => Tier::Quick,
                    Some("thorough") => Tier::Thorough,
                    _ => usage(),
                }
            }
            "--seed" => {
                i += 1;
                seed = args.get(i).and_then(|s| s.parse().ok()).unwrap_or_else(|| usage());
            }
            "--replay" => {
                i += 1;
                replay = Some(args.get(i).cloned().unwrap_or_else(|| usage()));
            }
            other => pos.push(other.to_string()),
        }
        i += 1;
    }
    if seed == 0 {
        seed = 0x5eed_c0de_2026;
    }
    let code = props::dispatch(&pos, tier, seed, replay);
    std::process::exit(code);
}
