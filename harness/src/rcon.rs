//! R-con: reference semantics of subtype constraints on integers / sizes (X.680 §50-51,
//! X.691 §10.3). Sets are unions of closed intervals over Z with optional infinite ends.
use crate::asn::*;

/// extended integer: None = infinite (side given by position)
#[derive(Clone, Copy, Debug, PartialEq, Eq, PartialOrd, Ord, Hash, serde::Serialize)]
pub struct Iv {
    pub lo: Option<i128>,
    pub hi: Option<i128>,
}

#[derive(Clone, Debug, PartialEq, Eq, Hash, serde::Serialize)]
pub struct IntSet(pub Vec<Iv>); // sorted, disjoint, non-adjacent

fn lo_key(x: Option<i128>) -> i128 {
    x.unwrap_or(i128::MIN)
}
fn hi_key(x: Option<i128>) -> i128 {
    x.unwrap_or(i128::MAX)
}

impl IntSet {
    pub fn empty() -> IntSet {
        IntSet(vec![])
    }
    pub fn all() -> IntSet {
        IntSet(vec![Iv { lo: None, hi: None }])
    }
    pub fn range(lo: Option<i128>, hi: Option<i128>) -> IntSet {
        if let (Some(l), Some(h)) = (lo, hi) {
            if l > h {
                return IntSet::empty();
            }
        }
        IntSet(vec![Iv { lo, hi }])
    }
    pub fn is_empty(&self) -> bool {
        self.0.is_empty()
    }
    fn normalize(mut v: Vec<Iv>) -> IntSet {
        v.sort_by_key(|i| (lo_key(i.lo), hi_key(i.hi)));
        let mut out: Vec<Iv> = vec![];
        for i in v {
            if let Some(last) = out.last_mut() {
                let adjacent = match (last.hi, i.lo) {
                    (None, _) => true,
                    (_, None) => true,
                    (Some(h), Some(l)) => l <= h.saturating_add(1),
                };
                if adjacent {
                    if hi_key(i.hi) > hi_key(last.hi) {
                        last.hi = i.hi;
                    }
                    continue;
                }
            }
            out.push(i);
        }
        IntSet(out)
    }
    pub fn union(&self, o: &IntSet) -> IntSet {
        let mut v = self.0.clone();
        v.extend(o.0.iter().copied());
        IntSet::normalize(v)
    }
    pub fn intersect(&self, o: &IntSet) -> IntSet {
        let mut out = vec![];
        for a in &self.0 {
            for b in &o.0 {
                let lo = if lo_key(a.lo) >= lo_key(b.lo) { a.lo } else { b.lo };
                let hi = if hi_key(a.hi) <= hi_key(b.hi) { a.hi } else { b.hi };
                if lo_key(lo) <= hi_key(hi) {
                    out.push(Iv { lo, hi });
                }
            }
        }
        IntSet::normalize(out)
    }
    pub fn complement(&self) -> IntSet {
        let mut out = vec![];
        let mut cur_lo: Option<i128> = None; // -inf
        let mut open = true;
        for i in &self.0 {
            match i.lo {
                None => {}
                Some(l) => {
                    if open {
                        out.push(Iv { lo: cur_lo, hi: Some(l - 1) });
                    }
                }
            }
            match i.hi {
                None => {
                    open = false;
                }
                Some(h) => {
                    cur_lo = Some(h + 1);
                    open = true;
                }
            }
        }
        if open {
            out.push(Iv { lo: cur_lo, hi: None });
        }
        IntSet::normalize(out.into_iter().filter(|i| lo_key(i.lo) <= hi_key(i.hi)).collect())
    }
    pub fn minus(&self, o: &IntSet) -> IntSet {
        self.intersect(&o.complement())
    }
    pub fn hull(&self) -> Option<Iv> {
        let f = self.0.first()?;
        let l = self.0.last()?;
        Some(Iv { lo: f.lo, hi: l.hi })
    }
    pub fn contains_set(&self, o: &IntSet) -> bool {
        o.minus(self).is_empty()
    }
    pub fn min(&self) -> Option<Option<i128>> {
        self.0.first().map(|i| i.lo)
    }
    pub fn max(&self) -> Option<Option<i128>> {
        self.0.last().map(|i| i.hi)
    }
}

/// resolves value references / named numbers appearing as endpoints
pub type Resolver<'a> = &'a dyn Fn(&str) -> Option<i128>;
/// resolves contained subtypes to their (exact set, per-visible effective bound)
pub type TypeResolver<'a> = &'a dyn Fn(&str) -> Option<(IntSet, Option<Iv>)>;

pub struct Env<'a> {
    pub parent: IntSet,
    pub values: Resolver<'a>,
    pub types: TypeResolver<'a>,
    /// true when evaluating a SIZE constraint (MIN = 0)
    pub size: bool,
    /// evaluate as if every EXCEPT part were absent (PER-visibility reading)
    pub ignore_except: bool,
}

fn end_val(e: &End, env: &Env, is_lo: bool) -> Option<Option<i128>> {
    Some(match e {
        End::Min => env.parent.min().unwrap_or(None),
        End::Max => env.parent.max().unwrap_or(None),
        End::Int(v) => Some(*v),
        End::Ref(r) => Some((env.values)(r)?),
        End::Str(_) => return None,
    })
    .map(|v| {
        let _ = is_lo;
        v
    })
}

/// exact value set of an atom that constrains integers (None: not an integer-set atom)
pub fn atom_exact(a: &Atom, env: &Env) -> Option<IntSet> {
    match a {
        Atom::Single(e) => {
            let v = end_val(e, env, true)?;
            Some(IntSet::range(v, v))
        }
        Atom::Range(lo, lo_open, hi, hi_open) => {
            let mut l = end_val(lo, env, true)?;
            let mut h = end_val(hi, env, false)?;
            if *lo_open {
                l = l.map(|x| x + 1);
            }
            if *hi_open {
                h = h.map(|x| x - 1);
            }
            // MIN as lower end of an unbounded parent is -inf (None); as an upper end it
            // would be nonsense, the generator does not produce it
            Some(IntSet::range(l, h))
        }
        Atom::Contained(n, _) => (env.types)(n).map(|(s, _)| s),
        _ => None,
    }
}

pub fn eset_exact(e: &ESet, env: &Env) -> Option<IntSet> {
    if let Some(a) = &e.all_except {
        if env.ignore_except {
            return Some(env.parent.clone());
        }
        return Some(env.parent.minus(&atom_exact(a, env)?));
    }
    let mut acc = IntSet::empty();
    for inter in &e.unions {
        let mut cur = env.parent.clone();
        for ie in inter {
            let mut s = atom_exact(&ie.atom, env)?;
            if let Some(x) = &ie.except {
                if !env.ignore_except {
                    s = s.minus(&atom_exact(x, env)?);
                }
            }
            cur = cur.intersect(&s);
        }
        acc = acc.union(&cur);
    }
    Some(acc.intersect(&env.parent))
}

/// PER-visible effective bound of an element set, compositionally (X.691 §10.3):
/// union -> hull of the operands' bounds (not visible if any operand is not),
/// intersection -> intersection of the visible operands, EXCEPT part ignored,
/// ALL EXCEPT -> not visible. Returns None when not PER-visible (no constraint).
pub fn eset_visible(e: &ESet, env: &Env) -> Option<Iv> {
    if e.all_except.is_some() {
        return None;
    }
    let mut hull: Option<Iv> = None;
    for inter in &e.unions {
        // intersection of visible parts
        let mut cur: Option<IntSet> = None;
        for ie in inter {
            let vis: Option<IntSet> = match &ie.atom {
                Atom::Contained(n, _) => (env.types)(n).and_then(|(_, v)| v).map(|iv| IntSet(vec![iv])),
                a => atom_exact(a, env),
            };
            if let Some(s) = vis {
                cur = Some(match cur {
                    None => s,
                    Some(c) => c.intersect(&s),
                });
            }
        }
        let cur = cur?; // an intersection without any visible operand: the union is not visible
        let h = cur.hull()?; // empty: invalid input, generator avoids it
        hull = Some(match hull {
            None => h,
            Some(acc) => Iv {
                lo: if lo_key(acc.lo) <= lo_key(h.lo) { acc.lo } else { h.lo },
                hi: if hi_key(acc.hi) >= hi_key(h.hi) { acc.hi } else { h.hi },
            },
        });
    }
    hull
}

#[derive(Clone, Debug, PartialEq, Eq, serde::Serialize)]
pub struct Effective {
    /// exact permitted set (root of the last constraint intersected with everything before)
    pub exact: IntSet,
    /// the same with every EXCEPT part ignored
    pub exact_no_except: IntSet,
    /// compositional PER-visible bound (None = unconstrained)
    pub visible: Option<Iv>,
    /// marker on the last (outermost) constraint
    pub ext_last: bool,
    /// marker on any constraint
    pub ext_any: bool,
    /// some operand denotes the empty set once MIN/MAX are resolved against the parent
    /// (e.g. `(0..300)(MIN..-1 | 1..5)`): not valid notation, callers skip such cases
    pub empty_operand: bool,
}

/// serial application of constraints `T (c1)(c2)..` starting from a parent
pub fn effective(cons: &[Con], parent_exact: IntSet, parent_visible: Option<Iv>, values: Resolver, types: TypeResolver, size: bool) -> Option<Effective> {
    let mut exact = parent_exact.clone();
    let mut exact_ne = parent_exact;
    let mut visible = parent_visible;
    let mut ext_last = false;
    let mut ext_any = false;
    let mut empty_operand = false;
    for c in cons {
        let env_ne = Env {
            parent: exact_ne.clone(),
            values,
            types,
            size,
            ignore_except: true,
        };
        exact_ne = eset_exact(&c.root, &env_ne)?;
        let env = Env {
            parent: exact.clone(),
            values,
            types,
            size,
            ignore_except: false,
        };
        let root = eset_exact(&c.root, &env)?;
        for u in &c.root.unions {
            for ie in u {
                if atom_exact(&ie.atom, &env).map_or(false, |s| s.is_empty()) {
                    empty_operand = true;
                }
            }
        }
        // the compositional reading resolves MIN/MAX against the PER-visible parent bound
        let env_vis = Env {
            parent: match visible {
                Some(iv) => IntSet(vec![iv]),
                None => {
                    if size {
                        IntSet::range(Some(0), None)
                    } else {
                        IntSet::all()
                    }
                }
            },
            values,
            types,
            size,
            ignore_except: true,
        };
        let vis = eset_visible(&c.root, &env_vis);
        exact = root;
        visible = match (visible, vis) {
            (None, v) => v,
            (v, None) => v,
            (Some(a), Some(b)) => IntSet(vec![a]).intersect(&IntSet(vec![b])).hull().or(Some(b)),
        };
        ext_last = c.ext;
        ext_any |= c.ext;
    }
    Some(Effective {
        exact,
        exact_no_except: exact_ne,
        visible,
        ext_last,
        ext_any,
        empty_operand,
    })
}

/// parse the range string of a value(..)/size(..) annotation: "a..=b", "a..", "..=b", "a"
pub fn parse_range_attr(s: &str) -> Option<Iv> {
    if let Some((a, b)) = s.split_once("..=") {
        let lo = if a.is_empty() { None } else { Some(a.parse().ok()?) };
        let hi = if b.is_empty() { None } else { Some(b.parse().ok()?) };
        return Some(Iv { lo, hi });
    }
    if let Some(a) = s.strip_suffix("..") {
        return Some(Iv {
            lo: Some(a.parse().ok()?),
            hi: None,
        });
    }
    let v: i128 = s.parse().ok()?;
    Some(Iv { lo: Some(v), hi: Some(v) })
}

#[cfg(test)]
mod tests {
    use super::*;
    #[test]
    fn complement_roundtrip() {
        let s = IntSet::range(Some(1), Some(5)).union(&IntSet::range(Some(10), None));
        assert_eq!(s.complement().complement(), s);
        assert_eq!(IntSet::all().complement(), IntSet::empty());
        assert_eq!(IntSet::empty().complement(), IntSet::all());
    }
}
