//! Abstract model of the supported ASN.1 notation (DESIGN.md §3) and its printer.
//! The printer emits a token list; a `Layout` decides what goes between tokens.
use serde::{Deserialize, Serialize};

#[derive(Clone, Copy, Debug, PartialEq, Eq, Hash, Serialize, Deserialize, PartialOrd, Ord)]
pub enum Tagging {
    NoClause,
    Explicit,
    Implicit,
    Automatic,
}

#[derive(Clone, Copy, Debug, PartialEq, Eq, Hash, Serialize, Deserialize, PartialOrd, Ord)]
pub enum Class {
    Context,
    Application,
    Private,
    Universal,
}

#[derive(Clone, Debug, PartialEq, Eq, Hash, Serialize, Deserialize)]
pub struct Tag {
    pub class: Class,
    pub num: u32,
    /// None = no keyword, Some(true) = EXPLICIT, Some(false) = IMPLICIT
    pub mode: Option<bool>,
}

#[derive(Clone, Copy, Debug, PartialEq, Eq, Hash, Serialize, Deserialize, PartialOrd, Ord)]
pub enum StrKind {
    Utf8,
    Ia5,
    Numeric,
    Printable,
    Visible,
    Bmp,
    Universal,
    General,
    Graphic,
    Teletex,
}

impl StrKind {
    pub const ALL: [StrKind; 10] = [
        StrKind::Utf8,
        StrKind::Ia5,
        StrKind::Numeric,
        StrKind::Printable,
        StrKind::Visible,
        StrKind::Bmp,
        StrKind::Universal,
        StrKind::General,
        StrKind::Graphic,
        StrKind::Teletex,
    ];
    pub fn asn(self) -> &'static str {
        match self {
            StrKind::Utf8 => "UTF8String",
            StrKind::Ia5 => "IA5String",
            StrKind::Numeric => "NumericString",
            StrKind::Printable => "PrintableString",
            StrKind::Visible => "VisibleString",
            StrKind::Bmp => "BMPString",
            StrKind::Universal => "UniversalString",
            StrKind::General => "GeneralString",
            StrKind::Graphic => "GraphicString",
            StrKind::Teletex => "TeletexString",
        }
    }
    pub fn rust(self) -> &'static str {
        match self {
            StrKind::Utf8 => "Utf8String",
            StrKind::Ia5 => "Ia5String",
            StrKind::Numeric => "NumericString",
            StrKind::Printable => "PrintableString",
            StrKind::Visible => "VisibleString",
            StrKind::Bmp => "BmpString",
            StrKind::Universal => "UniversalString",
            StrKind::General => "GeneralString",
            StrKind::Graphic => "GraphicString",
            StrKind::Teletex => "TeletexString",
        }
    }
    pub fn known_multiplier(self) -> bool {
        matches!(
            self,
            StrKind::Ia5
                | StrKind::Numeric
                | StrKind::Printable
                | StrKind::Visible
                | StrKind::Bmp
                | StrKind::Universal
        )
    }
    pub fn universal_tag(self) -> u32 {
        match self {
            StrKind::Utf8 => 12,
            StrKind::Numeric => 18,
            StrKind::Printable => 19,
            StrKind::Teletex => 20,
            StrKind::Ia5 => 22,
            StrKind::Graphic => 25,
            StrKind::Visible => 26,
            StrKind::General => 27,
            StrKind::Universal => 28,
            StrKind::Bmp => 30,
        }
    }
}

#[derive(Clone, Debug, PartialEq, Eq, Hash, Serialize, Deserialize)]
pub enum End {
    Min,
    Max,
    Int(i128),
    /// value reference or named number
    Ref(String),
    /// single-character string endpoint (FROM ranges) or a string single value
    Str(String),
}

#[derive(Clone, Debug, PartialEq, Eq, Hash, Serialize, Deserialize)]
pub enum Atom {
    Single(End),
    /// lo, lo_open (`<`), hi, hi_open
    Range(End, bool, End, bool),
    Size(Box<Con>),
    From(Box<Con>),
    /// contained subtype; bool = spelled with INCLUDES
    Contained(String, bool),
}

#[derive(Clone, Debug, PartialEq, Eq, Hash, Serialize, Deserialize)]
pub struct IElem {
    pub atom: Atom,
    pub except: Option<Atom>,
}

/// X.680 §50 element set: `ALL EXCEPT a` or a union of intersections of elements.
#[derive(Clone, Debug, PartialEq, Eq, Hash, Serialize, Deserialize)]
pub struct ESet {
    pub all_except: Option<Atom>,
    pub unions: Vec<Vec<IElem>>,
    /// spell `|` as UNION / `^` as INTERSECTION
    pub words: bool,
}

impl ESet {
    pub fn atom(a: Atom) -> ESet {
        ESet {
            all_except: None,
            unions: vec![vec![IElem {
                atom: a,
                except: None,
            }]],
            words: false,
        }
    }
}

/// one parenthesised constraint: `( root [, ... [, additional]] )`
#[derive(Clone, Debug, PartialEq, Eq, Hash, Serialize, Deserialize)]
pub struct Con {
    pub root: ESet,
    pub ext: bool,
    pub add: Option<ESet>,
}

impl Con {
    pub fn range(lo: i128, hi: i128) -> Con {
        Con {
            root: ESet::atom(if lo == hi {
                Atom::Single(End::Int(lo))
            } else {
                Atom::Range(End::Int(lo), false, End::Int(hi), false)
            }),
            ext: false,
            add: None,
        }
    }
    pub fn size(inner: Con) -> Con {
        Con {
            root: ESet::atom(Atom::Size(Box::new(inner))),
            ext: false,
            add: None,
        }
    }
}

#[derive(Clone, Debug, PartialEq, Eq, Hash, Serialize, Deserialize)]
pub struct EnumDef {
    pub root: Vec<(String, Option<i128>)>,
    pub ext: Option<Vec<(String, Option<i128>)>>,
}

#[derive(Clone, Debug, PartialEq, Eq, Hash, Serialize, Deserialize)]
pub enum Opt {
    Req,
    Optional,
    Default(Val),
}

#[derive(Clone, Debug, PartialEq, Eq, Hash, Serialize, Deserialize)]
pub struct Comp {
    pub name: String,
    pub tag: Option<Tag>,
    pub ty: Ty,
    pub opt: Opt,
}

#[derive(Clone, Debug, PartialEq, Eq, Hash, Serialize, Deserialize)]
pub enum Addition {
    Comp(Comp),
    Group { version: Option<u32>, comps: Vec<Comp> },
}

#[derive(Clone, Debug, PartialEq, Eq, Hash, Serialize, Deserialize)]
pub struct Fields {
    pub root: Vec<Comp>,
    pub ext: Option<Vec<Addition>>,
}

#[derive(Clone, Debug, PartialEq, Eq, Hash, Serialize, Deserialize)]
pub struct Alts {
    pub root: Vec<Comp>,
    pub ext: Option<Vec<Addition>>,
}

#[derive(Clone, Debug, PartialEq, Eq, Hash, Serialize, Deserialize)]
pub struct OfTy {
    pub size: Option<Con>,
    /// `SEQUENCE (SIZE(..)) OF` (true) vs `SEQUENCE SIZE(..) OF` (false)
    pub size_paren: bool,
    pub etag: Option<Tag>,
    pub elem: Box<Ty>,
}

#[derive(Clone, Debug, PartialEq, Eq, Hash, Serialize, Deserialize)]
pub enum Ty {
    Null,
    Boolean,
    Integer {
        named: Vec<(String, i128)>,
        cons: Vec<Con>,
    },
    Enumerated(EnumDef),
    BitString {
        named: Vec<(String, u32)>,
        cons: Vec<Con>,
    },
    OctetString {
        cons: Vec<Con>,
    },
    Str {
        kind: StrKind,
        cons: Vec<Con>,
    },
    Oid,
    RelOid,
    GeneralizedTime,
    UtcTime,
    Any,
    Sequence(Fields),
    Set(Fields),
    Choice(Alts),
    SeqOf(OfTy),
    SetOf(OfTy),
    Ref {
        module: Option<String>,
        name: String,
        cons: Vec<Con>,
    },
}

#[derive(Clone, Debug, PartialEq, Eq, Hash, Serialize, Deserialize)]
pub enum OidArc {
    Num(u64),
    Name(String),
    NameNum(String, u64),
}

#[derive(Clone, Debug, PartialEq, Eq, Hash, Serialize, Deserialize)]
pub enum Val {
    Int(i128),
    Bool(bool),
    Null,
    Str(String),
    /// bits as '0'/'1' characters
    BStr(String),
    /// hex digits (upper case)
    HStr(String),
    NamedBits(Vec<String>),
    /// value reference, named number or enumeral
    Ident(String),
    Oid(Vec<OidArc>),
    Choice(String, Box<Val>),
    Seq(Vec<(String, Val)>),
    SeqOf(Vec<Val>),
}

#[derive(Clone, Debug, PartialEq, Eq, Hash, Serialize, Deserialize)]
pub enum Item {
    Type {
        name: String,
        tag: Option<Tag>,
        ty: Ty,
    },
    Value {
        name: String,
        ty: Ty,
        val: Val,
    },
    /// pre-rendered assignment (fillers, unsupported notation, sugar forms)
    Raw {
        name: String,
        toks: Vec<String>,
        kind: String,
    },
}

impl Item {
    pub fn name(&self) -> &str {
        match self {
            Item::Type { name, .. } | Item::Value { name, .. } | Item::Raw { name, .. } => name,
        }
    }
    pub fn is_type(&self) -> bool {
        match self {
            Item::Type { .. } => true,
            Item::Raw { name, .. } => name.starts_with(|c: char| c.is_uppercase()),
            _ => false,
        }
    }
}

#[derive(Clone, Debug, PartialEq, Eq, Hash, Serialize, Deserialize)]
pub struct Import {
    pub symbols: Vec<String>,
    pub from: String,
}

#[derive(Clone, Debug, PartialEq, Eq, Hash, Serialize, Deserialize)]
pub struct Module {
    pub name: String,
    pub tagging: Tagging,
    pub ext_implied: bool,
    pub imports: Vec<Import>,
    pub items: Vec<Item>,
}

#[derive(Clone, Debug, PartialEq, Eq, Hash, Serialize, Deserialize)]
pub struct ModuleSet {
    pub modules: Vec<Module>,
}

// ---------------------------------------------------------------------------------------
// Printer: tokens

/// A printed token with the (module index, item index) it belongs to.
/// item == usize::MAX: module header / IMPORTS / END.
#[derive(Clone, Debug, PartialEq, Eq)]
pub struct Tok {
    pub text: String,
    pub module: usize,
    pub item: usize,
}

pub const HEADER: usize = usize::MAX;

fn t(out: &mut Vec<String>, s: &str) {
    out.push(s.to_string());
}

pub fn tag_toks(tag: &Tag, out: &mut Vec<String>) {
    t(out, "[");
    match tag.class {
        Class::Context => {}
        Class::Application => t(out, "APPLICATION"),
        Class::Private => t(out, "PRIVATE"),
        Class::Universal => t(out, "UNIVERSAL"),
    }
    out.push(tag.num.to_string());
    t(out, "]");
    match tag.mode {
        None => {}
        Some(true) => t(out, "EXPLICIT"),
        Some(false) => t(out, "IMPLICIT"),
    }
}

pub fn cstring(s: &str) -> String {
    format!("\"{}\"", s.replace('"', "\"\""))
}

fn end_toks(e: &End, out: &mut Vec<String>) {
    match e {
        End::Min => t(out, "MIN"),
        End::Max => t(out, "MAX"),
        End::Int(i) => out.push(i.to_string()),
        End::Ref(r) => out.push(r.clone()),
        End::Str(s) => out.push(cstring(s)),
    }
}

fn atom_toks(a: &Atom, out: &mut Vec<String>) {
    match a {
        Atom::Single(e) => end_toks(e, out),
        Atom::Range(lo, lo_open, hi, hi_open) => {
            end_toks(lo, out);
            if *lo_open {
                t(out, "<");
            }
            t(out, "..");
            if *hi_open {
                t(out, "<");
            }
            end_toks(hi, out);
        }
        Atom::Size(c) => {
            t(out, "SIZE");
            con_toks(c, out);
        }
        Atom::From(c) => {
            t(out, "FROM");
            con_toks(c, out);
        }
        Atom::Contained(n, includes) => {
            if *includes {
                t(out, "INCLUDES");
            }
            out.push(n.clone());
        }
    }
}

fn eset_toks(e: &ESet, out: &mut Vec<String>) {
    if let Some(a) = &e.all_except {
        t(out, "ALL");
        t(out, "EXCEPT");
        atom_toks(a, out);
        return;
    }
    for (i, inter) in e.unions.iter().enumerate() {
        if i > 0 {
            t(out, if e.words { "UNION" } else { "|" });
        }
        for (j, ie) in inter.iter().enumerate() {
            if j > 0 {
                t(out, if e.words { "INTERSECTION" } else { "^" });
            }
            atom_toks(&ie.atom, out);
            if let Some(x) = &ie.except {
                t(out, "EXCEPT");
                atom_toks(x, out);
            }
        }
    }
}

pub fn con_toks(c: &Con, out: &mut Vec<String>) {
    t(out, "(");
    eset_toks(&c.root, out);
    if c.ext {
        t(out, ",");
        t(out, "...");
        if let Some(a) = &c.add {
            t(out, ",");
            eset_toks(a, out);
        }
    }
    t(out, ")");
}

fn cons_toks(cs: &[Con], out: &mut Vec<String>) {
    for c in cs {
        con_toks(c, out);
    }
}

fn comp_toks(c: &Comp, out: &mut Vec<String>, choice: bool) {
    out.push(c.name.clone());
    if let Some(tag) = &c.tag {
        tag_toks(tag, out);
    }
    ty_toks(&c.ty, out);
    if !choice {
        match &c.opt {
            Opt::Req => {}
            Opt::Optional => t(out, "OPTIONAL"),
            Opt::Default(v) => {
                t(out, "DEFAULT");
                val_toks(v, out);
            }
        }
    }
}

fn fields_toks(root: &[Comp], ext: &Option<Vec<Addition>>, out: &mut Vec<String>, choice: bool) {
    t(out, "{");
    let mut first = true;
    for c in root {
        if !first {
            t(out, ",");
        }
        first = false;
        comp_toks(c, out, choice);
    }
    if let Some(adds) = ext {
        if !first {
            t(out, ",");
        }
        first = false;
        t(out, "...");
        for a in adds {
            t(out, ",");
            match a {
                Addition::Comp(c) => comp_toks(c, out, choice),
                Addition::Group { version, comps } => {
                    t(out, "[[");
                    if let Some(v) = version {
                        out.push(v.to_string());
                        t(out, ":");
                    }
                    for (i, c) in comps.iter().enumerate() {
                        if i > 0 {
                            t(out, ",");
                        }
                        comp_toks(c, out, choice);
                    }
                    t(out, "]]");
                }
            }
        }
    }
    let _ = first;
    t(out, "}");
}

fn enum_items(items: &[(String, Option<i128>)], out: &mut Vec<String>, first: &mut bool) {
    for (n, v) in items {
        if !*first {
            t(out, ",");
        }
        *first = false;
        out.push(n.clone());
        if let Some(v) = v {
            t(out, "(");
            out.push(v.to_string());
            t(out, ")");
        }
    }
}

pub fn ty_toks(ty: &Ty, out: &mut Vec<String>) {
    match ty {
        Ty::Null => t(out, "NULL"),
        Ty::Boolean => t(out, "BOOLEAN"),
        Ty::Integer { named, cons } => {
            t(out, "INTEGER");
            if !named.is_empty() {
                t(out, "{");
                for (i, (n, v)) in named.iter().enumerate() {
                    if i > 0 {
                        t(out, ",");
                    }
                    out.push(n.clone());
                    t(out, "(");
                    out.push(v.to_string());
                    t(out, ")");
                }
                t(out, "}");
            }
            cons_toks(cons, out);
        }
        Ty::Enumerated(e) => {
            t(out, "ENUMERATED");
            t(out, "{");
            let mut first = true;
            enum_items(&e.root, out, &mut first);
            if let Some(ext) = &e.ext {
                t(out, ",");
                t(out, "...");
                enum_items(ext, out, &mut first);
            }
            t(out, "}");
        }
        Ty::BitString { named, cons } => {
            t(out, "BIT");
            t(out, "STRING");
            if !named.is_empty() {
                t(out, "{");
                for (i, (n, v)) in named.iter().enumerate() {
                    if i > 0 {
                        t(out, ",");
                    }
                    out.push(n.clone());
                    t(out, "(");
                    out.push(v.to_string());
                    t(out, ")");
                }
                t(out, "}");
            }
            cons_toks(cons, out);
        }
        Ty::OctetString { cons } => {
            t(out, "OCTET");
            t(out, "STRING");
            cons_toks(cons, out);
        }
        Ty::Str { kind, cons } => {
            t(out, kind.asn());
            cons_toks(cons, out);
        }
        Ty::Oid => {
            t(out, "OBJECT");
            t(out, "IDENTIFIER");
        }
        Ty::RelOid => t(out, "RELATIVE-OID"),
        Ty::GeneralizedTime => t(out, "GeneralizedTime"),
        Ty::UtcTime => t(out, "UTCTime"),
        Ty::Any => t(out, "ANY"),
        Ty::Sequence(f) => {
            t(out, "SEQUENCE");
            fields_toks(&f.root, &f.ext, out, false);
        }
        Ty::Set(f) => {
            t(out, "SET");
            fields_toks(&f.root, &f.ext, out, false);
        }
        Ty::Choice(a) => {
            t(out, "CHOICE");
            fields_toks(&a.root, &a.ext, out, true);
        }
        Ty::SeqOf(o) | Ty::SetOf(o) => {
            t(
                out,
                if matches!(ty, Ty::SeqOf(_)) {
                    "SEQUENCE"
                } else {
                    "SET"
                },
            );
            if let Some(sz) = &o.size {
                if o.size_paren {
                    t(out, "(");
                    t(out, "SIZE");
                    con_toks(sz, out);
                    t(out, ")");
                } else {
                    t(out, "SIZE");
                    con_toks(sz, out);
                }
            }
            t(out, "OF");
            if let Some(tag) = &o.etag {
                tag_toks(tag, out);
            }
            ty_toks(&o.elem, out);
        }
        Ty::Ref { module, name, cons } => {
            match module {
                Some(m) => out.push(format!("{m}.{name}")),
                None => out.push(name.clone()),
            }
            cons_toks(cons, out);
        }
    }
}

pub fn val_toks(v: &Val, out: &mut Vec<String>) {
    match v {
        Val::Int(i) => out.push(i.to_string()),
        Val::Bool(b) => t(out, if *b { "TRUE" } else { "FALSE" }),
        Val::Null => t(out, "NULL"),
        Val::Str(s) => out.push(cstring(s)),
        Val::BStr(b) => out.push(format!("'{b}'B")),
        Val::HStr(h) => out.push(format!("'{h}'H")),
        Val::NamedBits(ns) => {
            t(out, "{");
            for (i, n) in ns.iter().enumerate() {
                if i > 0 {
                    t(out, ",");
                }
                out.push(n.clone());
            }
            t(out, "}");
        }
        Val::Ident(s) => out.push(s.clone()),
        Val::Oid(arcs) => {
            t(out, "{");
            for a in arcs {
                match a {
                    OidArc::Num(n) => out.push(n.to_string()),
                    OidArc::Name(s) => out.push(s.clone()),
                    OidArc::NameNum(s, n) => out.push(format!("{s}({n})")),
                }
            }
            t(out, "}");
        }
        Val::Choice(alt, inner) => {
            // `alt:value` is emitted as one unit: the pinned lexer does not accept blanks
            // around the colon (finding F-ws); C13 probes that boundary separately.
            let mut inner_t = vec![];
            val_toks(inner, &mut inner_t);
            let first = inner_t.remove(0);
            out.push(format!("{alt}:{first}"));
            out.extend(inner_t);
        }
        Val::Seq(fs) => {
            t(out, "{");
            for (i, (n, v)) in fs.iter().enumerate() {
                if i > 0 {
                    t(out, ",");
                }
                out.push(n.clone());
                val_toks(v, out);
            }
            t(out, "}");
        }
        Val::SeqOf(vs) => {
            t(out, "{");
            for (i, v) in vs.iter().enumerate() {
                if i > 0 {
                    t(out, ",");
                }
                val_toks(v, out);
            }
            t(out, "}");
        }
    }
}

pub fn item_toks(it: &Item) -> Vec<String> {
    let mut out = vec![];
    match it {
        Item::Type { name, tag, ty } => {
            out.push(name.clone());
            t(&mut out, "::=");
            if let Some(tag) = tag {
                tag_toks(tag, &mut out);
            }
            ty_toks(ty, &mut out);
        }
        Item::Value { name, ty, val } => {
            out.push(name.clone());
            ty_toks(ty, &mut out);
            t(&mut out, "::=");
            val_toks(val, &mut out);
        }
        Item::Raw { toks, .. } => out.extend(toks.iter().cloned()),
    }
    out
}

pub fn header_toks(m: &Module) -> Vec<String> {
    let mut out = vec![m.name.clone(), "DEFINITIONS".into()];
    match m.tagging {
        Tagging::NoClause => {}
        Tagging::Explicit => {
            t(&mut out, "EXPLICIT");
            t(&mut out, "TAGS");
        }
        Tagging::Implicit => {
            t(&mut out, "IMPLICIT");
            t(&mut out, "TAGS");
        }
        Tagging::Automatic => {
            t(&mut out, "AUTOMATIC");
            t(&mut out, "TAGS");
        }
    }
    if m.ext_implied {
        t(&mut out, "EXTENSIBILITY");
        t(&mut out, "IMPLIED");
    }
    t(&mut out, "::=");
    t(&mut out, "BEGIN");
    if !m.imports.is_empty() {
        t(&mut out, "IMPORTS");
        for imp in &m.imports {
            for (i, s) in imp.symbols.iter().enumerate() {
                if i > 0 {
                    t(&mut out, ",");
                }
                out.push(s.clone());
            }
            t(&mut out, "FROM");
            out.push(imp.from.clone());
        }
        t(&mut out, ";");
    }
    out
}

/// Token list of a whole module set, each token annotated with its owner.
pub fn tokens(ms: &ModuleSet) -> Vec<Tok> {
    let mut out = vec![];
    for (mi, m) in ms.modules.iter().enumerate() {
        for s in header_toks(m) {
            out.push(Tok {
                text: s,
                module: mi,
                item: HEADER,
            });
        }
        for (ii, it) in m.items.iter().enumerate() {
            for s in item_toks(it) {
                out.push(Tok {
                    text: s,
                    module: mi,
                    item: ii,
                });
            }
        }
        out.push(Tok {
            text: "END".into(),
            module: mi,
            item: HEADER,
        });
    }
    out
}

/// Default layout: one space between tokens, a line break after the header, after every
/// assignment and after END. Returns the text and, per token, its byte offset.
pub fn render_default(toks: &[Tok], crlf: bool) -> (String, Vec<usize>) {
    let nl = if crlf { "\r\n" } else { "\n" };
    let mut s = String::new();
    let mut offs = Vec::with_capacity(toks.len());
    for (i, tk) in toks.iter().enumerate() {
        if i > 0 {
            let prev = &toks[i - 1];
            if prev.module != tk.module || prev.item != tk.item {
                s.push_str(nl);
            } else if tk.text == "," || tk.text == ";" {
                // conventional layout `a, b`; (a blank between `...` and `,` is one of the
                // boundaries the pinned lexer rejects — C13 probes it, the default avoids it)
            } else {
                s.push(' ');
            }
        }
        offs.push(s.len());
        s.push_str(&tk.text);
    }
    s.push_str(nl);
    (s, offs)
}

pub fn print(ms: &ModuleSet) -> String {
    render_default(&tokens(ms), false).0
}

pub fn print_module(m: &Module) -> String {
    print(&ModuleSet {
        modules: vec![m.clone()],
    })
}

pub fn print_item(it: &Item) -> String {
    item_toks(it).join(" ")
}

pub fn print_ty(ty: &Ty) -> String {
    let mut o = vec![];
    ty_toks(ty, &mut o);
    o.join(" ")
}

pub fn print_val(v: &Val) -> String {
    let mut o = vec![];
    val_toks(v, &mut o);
    o.join(" ")
}

/// Render with explicit separators: `sep(i)` is the text between token i-1 and token i
/// (i >= 1); returns the text and the byte offset of every token.
pub fn render_with(toks: &[Tok], sep: &dyn Fn(usize) -> String, trailer: &str) -> (String, Vec<usize>) {
    let mut s = String::new();
    let mut offs = Vec::with_capacity(toks.len());
    for (i, tk) in toks.iter().enumerate() {
        if i > 0 {
            s.push_str(&sep(i));
        }
        offs.push(s.len());
        s.push_str(&tk.text);
    }
    s.push_str(trailer);
    (s, offs)
}

/// the default separator before token i (see render_default)
pub fn default_sep(toks: &[Tok], i: usize, crlf: bool) -> String {
    let prev = &toks[i - 1];
    let tk = &toks[i];
    if prev.module != tk.module || prev.item != tk.item {
        if crlf { "\r\n".into() } else { "\n".into() }
    } else if tk.text == "," || tk.text == ";" {
        String::new()
    } else {
        " ".into()
    }
}
