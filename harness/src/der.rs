//! Minimal DER reader (X.690): TLV trees with class, number, constructed bit, definite
//! lengths. Used as the behavioural observer of C03 / C07: the generated bindings are
//! compiled against rasn, encode values, and the harness reads the bytes back.
#[derive(Clone, Debug, PartialEq, Eq, serde::Serialize)]
pub struct Tlv {
    /// 0 universal, 1 application, 2 context, 3 private
    pub class: u8,
    pub cons: bool,
    pub num: u64,
    /// content octets (always kept, also for constructed encodings)
    pub content: Vec<u8>,
    /// parsed children of a constructed encoding
    pub kids: Vec<Tlv>,
}

fn parse_at(b: &[u8], pos: &mut usize, depth: usize) -> Result<Tlv, String> {
    if depth > 64 {
        return Err("nesting too deep".into());
    }
    let id = *b.get(*pos).ok_or("truncated identifier")?;
    *pos += 1;
    let class = id >> 6;
    let cons = id & 0x20 != 0;
    let mut num = (id & 0x1f) as u64;
    if num == 0x1f {
        num = 0;
        loop {
            let o = *b.get(*pos).ok_or("truncated high tag number")?;
            *pos += 1;
            num = num.checked_mul(128).ok_or("tag number overflow")? | (o & 0x7f) as u64;
            if o & 0x80 == 0 {
                break;
            }
        }
    }
    let l0 = *b.get(*pos).ok_or("truncated length")?;
    *pos += 1;
    let len = if l0 < 0x80 {
        l0 as usize
    } else if l0 == 0x80 {
        return Err("indefinite length in DER".into());
    } else {
        let n = (l0 & 0x7f) as usize;
        if n > 8 {
            return Err("length of length > 8".into());
        }
        let mut l = 0usize;
        for _ in 0..n {
            let o = *b.get(*pos).ok_or("truncated long length")?;
            *pos += 1;
            l = (l << 8) | o as usize;
        }
        l
    };
    let end = pos.checked_add(len).ok_or("length overflow")?;
    if end > b.len() {
        return Err(format!("content of {len} octets exceeds the buffer"));
    }
    let content = b[*pos..end].to_vec();
    let mut kids = vec![];
    if cons {
        let mut p = 0usize;
        while p < content.len() {
            kids.push(parse_at(&content, &mut p, depth + 1)?);
        }
    }
    *pos = end;
    Ok(Tlv { class, cons, num, content, kids })
}

/// parse exactly one TLV covering the whole buffer
pub fn parse_one(b: &[u8]) -> Result<Tlv, String> {
    let mut pos = 0;
    let t = parse_at(b, &mut pos, 0)?;
    if pos != b.len() {
        return Err(format!("{} trailing octets after the first TLV", b.len() - pos));
    }
    Ok(t)
}

pub fn hex(b: &[u8]) -> String {
    b.iter().map(|x| format!("{x:02x}")).collect()
}

pub fn unhex(s: &str) -> Option<Vec<u8>> {
    if s.len() % 2 != 0 {
        return None;
    }
    (0..s.len() / 2).map(|i| u8::from_str_radix(&s[2 * i..2 * i + 2], 16).ok()).collect()
}

pub fn tag_name(class: u8, num: u64) -> String {
    match class {
        0 => format!("U{num}"),
        1 => format!("A{num}"),
        2 => format!("C{num}"),
        _ => format!("P{num}"),
    }
}

/// readable tree: `C0{ U2:05 }`
pub fn show(t: &Tlv) -> String {
    if t.cons {
        format!("{}{{{}}}", tag_name(t.class, t.num), t.kids.iter().map(show).collect::<Vec<_>>().join(" "))
    } else {
        format!("{}:{}", tag_name(t.class, t.num), hex(&t.content))
    }
}

/// tag skeleton only (no primitive contents): `C0{U2}`
pub fn skeleton(t: &Tlv) -> String {
    if t.cons {
        format!("{}{{{}}}", tag_name(t.class, t.num), t.kids.iter().map(skeleton).collect::<Vec<_>>().join(" "))
    } else {
        tag_name(t.class, t.num)
    }
}

/// DER encoder for expected trees
pub fn encode(t: &Tlv) -> Vec<u8> {
    let body: Vec<u8> = if t.cons { t.kids.iter().flat_map(encode).collect() } else { t.content.clone() };
    let mut out = vec![];
    let lead = (t.class << 6) | if t.cons { 0x20 } else { 0 };
    if t.num < 31 {
        out.push(lead | t.num as u8);
    } else {
        out.push(lead | 0x1f);
        let mut groups = vec![];
        let mut n = t.num;
        loop {
            groups.push((n & 0x7f) as u8);
            n >>= 7;
            if n == 0 {
                break;
            }
        }
        for (i, g) in groups.iter().rev().enumerate() {
            out.push(if i + 1 < groups.len() { g | 0x80 } else { *g });
        }
    }
    if body.len() < 128 {
        out.push(body.len() as u8);
    } else {
        let bytes: Vec<u8> = body.len().to_be_bytes().iter().copied().skip_while(|b| *b == 0).collect();
        out.push(0x80 | bytes.len() as u8);
        out.extend(bytes);
    }
    out.extend(body);
    out
}

pub fn prim(class: u8, num: u64, content: Vec<u8>) -> Tlv {
    Tlv { class, cons: false, num, content, kids: vec![] }
}

pub fn cons(class: u8, num: u64, kids: Vec<Tlv>) -> Tlv {
    let content = kids.iter().flat_map(encode).collect();
    Tlv { class, cons: true, num, content, kids }
}

/// two's complement content octets -> i128 (up to 17 octets when the top octet is a pure sign octet)
pub fn int_from(content: &[u8]) -> Result<i128, String> {
    if content.is_empty() {
        return Err("empty INTEGER content".into());
    }
    let mut c = content;
    if c.len() > 16 {
        // only a redundant sign octet could make this fit
        if c.len() == 17 && ((c[0] == 0 && c[1] & 0x80 != 0) || (c[0] == 0xff && c[1] & 0x80 == 0)) {
            return Err("value outside the i128 range".into());
        }
        return Err(format!("INTEGER of {} octets", c.len()));
    }
    let neg = c[0] & 0x80 != 0;
    let mut v: i128 = if neg { -1 } else { 0 };
    while let Some((h, t)) = c.split_first() {
        v = (v << 8) | *h as i128;
        c = t;
    }
    Ok(v)
}

pub fn int_to(v: i128) -> Vec<u8> {
    let b = v.to_be_bytes();
    let mut i = 0;
    while i < 15 && ((b[i] == 0 && b[i + 1] & 0x80 == 0) || (b[i] == 0xff && b[i + 1] & 0x80 != 0)) {
        i += 1;
    }
    b[i..].to_vec()
}

/// OBJECT IDENTIFIER content -> arcs
pub fn oid_from(content: &[u8]) -> Result<Vec<u64>, String> {
    let mut subs: Vec<u64> = vec![];
    let mut cur: u64 = 0;
    let mut open = false;
    for o in content {
        cur = cur.checked_mul(128).ok_or("arc overflow")? | (o & 0x7f) as u64;
        open = true;
        if o & 0x80 == 0 {
            subs.push(cur);
            cur = 0;
            open = false;
        }
    }
    if open || subs.is_empty() {
        return Err("malformed OBJECT IDENTIFIER content".into());
    }
    let first = subs[0];
    let (a, b) = if first < 40 {
        (0, first)
    } else if first < 80 {
        (1, first - 40)
    } else {
        (2, first - 80)
    };
    let mut arcs = vec![a, b];
    arcs.extend_from_slice(&subs[1..]);
    Ok(arcs)
}

#[cfg(test)]
mod tests {
    use super::*;
    #[test]
    fn roundtrip() {
        let t = cons(0, 16, vec![prim(2, 0, vec![5]), cons(2, 1, vec![prim(0, 1, vec![0xff])]), prim(1, 1000, vec![0; 200])]);
        let b = encode(&t);
        assert_eq!(parse_one(&b).unwrap(), t);
        for v in [0i128, 1, -1, 127, 128, -128, -129, i128::MAX, i128::MIN, 1 << 64] {
            assert_eq!(int_from(&int_to(v)).unwrap(), v);
        }
        assert_eq!(oid_from(&[0x2a, 0x86, 0x48]).unwrap(), vec![1, 2, 840]);
    }
}
