// rewritten by ./check C20
