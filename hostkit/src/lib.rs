pub use rasn; pub use lazy_static;
