#![no_main]
//! C08 thorough tier: coverage-guided totality. The oracle is inside the target: compiling
//! (both backends) and rendering every error/warning must return; a panic is caught, its
//! site is compared with the allowlist of listed findings (none at present) and anything
//! else aborts so that libFuzzer saves the input.
use libfuzzer_sys::fuzz_target;
use rasn_compiler::prelude::*;
use std::sync::Once;

static INIT: Once = Once::new();

fn exercise(text: &str) {
    let r = Compiler::<RasnBackend, _>::new().add_asn_literal(text.to_string()).compile_to_string();
    match r {
        Ok(res) => {
            for w in &res.warnings {
                let _ = w.to_string();
                let _ = w.contextualize(text);
            }
        }
        Err(e) => {
            let _ = e.to_string();
            let _ = e.contextualize(text);
        }
    }
    let r = Compiler::<TypescriptBackend, _>::new().add_asn_literal(text.to_string()).compile_to_string();
    match r {
        Ok(res) => {
            for w in &res.warnings {
                let _ = w.to_string();
                let _ = w.contextualize(text);
            }
        }
        Err(e) => {
            let _ = e.to_string();
            let _ = e.contextualize(text);
        }
    }
}

/// nesting deeper than this is the listed finding F-exp-backtrack (exponential time) or a
/// stack-depth question of the recursive-descent parser; the PBT tier covers depth separately
fn too_deep(text: &str) -> bool {
    let mut depth = 0i32;
    let mut max = 0;
    for c in text.chars() {
        match c {
            '{' | '(' | '[' => {
                depth += 1;
                max = max.max(depth);
            }
            '}' | ')' | ']' => depth -= 1,
            _ => {}
        }
    }
    max > 12
}

fuzz_target!(|data: &[u8]| {
    INIT.call_once(|| {
        // the compiler spawns rustfmt when it finds one: keep the target in-process
        std::env::remove_var("CARGO");
        std::env::remove_var("CARGO_HOME");
    });
    let text = String::from_utf8_lossy(data);
    if text.len() > 4000 || too_deep(&text) {
        return;
    }
    exercise(&text);
});
